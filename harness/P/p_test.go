//go:build go1.21

package massdb_v1

// Plot harness P (shared by C07 and C10): drives the real two-pass plotting
// code at small bit lengths through hooks H1 (cache size per window), H2
// (named points: snapshots, graceful stop, crash) and the map-A buffer scale.

import (
	"bytes"
	"crypto/sha256"
	"encoding/binary"
	"fmt"
	"os"
	"os/signal"
	"path/filepath"
	"runtime"
	"strings"
	"sync"
	"sync/atomic"
	"syscall"

	"github.com/massnetorg/mass-core/logging"
	"github.com/massnetorg/mass-core/poc/pocutil"
	"github.com/massnetorg/mass-core/pocec"
	"massnet.org/mass/zz_verif/vk"
)

// ---------------------------------------------------------------- keys

func pKey(i int) *pocec.PublicKey {
	h := sha256.Sum256([]byte(fmt.Sprintf("verif-plot-key-%d", i)))
	_, pk := pocec.PrivKeyFromBytes(pocec.S256(), h[:])
	return pk
}

// ---------------------------------------------------------------- reference

type pRef struct {
	bl     int
	rs     int
	volume int
	pkHash pocutil.Hash
	A      []uint64 // slot -> x (0 = empty)
	B      [][2]uint64
	// pairs: z -> whether some candidate pair maps to z
	hit []bool
}

var pRefCache sync.Map

func pReference(key int, bl int) *pRef {
	ck := fmt.Sprintf("%d/%d", key, bl)
	if v, ok := pRefCache.Load(ck); ok {
		return v.(*pRef)
	}
	r := &pRef{bl: bl, rs: pocutil.RecordSize(bl), volume: 1 << uint(bl), pkHash: pocutil.PubKeyHash(pKey(key))}
	half := uint64(r.volume / 2)
	r.A = make([]uint64, r.volume)
	for x := uint64(1); x < uint64(r.volume); x++ {
		y := uint64(pocutil.P(pocutil.PoCValue(x), bl, r.pkHash))
		var slot uint64
		if y < half {
			slot = y * 2
		} else {
			slot = uint64(pocutil.FlipValue(pocutil.PoCValue(y), bl))*2 + 1
		}
		if x > r.A[slot] {
			r.A[slot] = x
		}
	}
	r.hit = make([]bool, r.volume)
	for i := uint64(0); i < half; i++ {
		a, b := r.A[2*i], r.A[2*i+1]
		if a != 0 && b != 0 {
			r.hit[pocutil.F(pocutil.PoCValue(a), pocutil.PoCValue(b), bl, r.pkHash)] = true
			r.hit[pocutil.F(pocutil.PoCValue(b), pocutil.PoCValue(a), bl, r.pkHash)] = true
		}
	}
	pRefCache.Store(ck, r)
	return r
}

func pLE(b []byte) uint64 {
	var b8 [8]byte
	copy(b8[:], b)
	return binary.LittleEndian.Uint64(b8[:])
}

// checkA compares raw map-A data bytes with the reference; "" = equal.
func (r *pRef) checkA(data []byte) string {
	if len(data) < r.volume*r.rs {
		data = append(append([]byte{}, data...), make([]byte, r.volume*r.rs-len(data))...)
	}
	for s := 0; s < r.volume; s++ {
		got := pLE(data[s*r.rs : (s+1)*r.rs])
		if got != r.A[s] {
			return fmt.Sprintf("map A slot %d holds %d, the construction defines %d", s, got, r.A[s])
		}
	}
	return ""
}

// checkB: soundness + completeness of raw map-B data bytes; counts bad entries.
func (r *pRef) checkB(data []byte) (msg string, bad int, stored int) {
	if len(data) < r.volume*r.rs*2 {
		data = append(append([]byte{}, data...), make([]byte, r.volume*r.rs*2-len(data))...)
	}
	mask := uint64(r.volume - 1)
	for z := 0; z < r.volume; z++ {
		x := pLE(data[z*2*r.rs : z*2*r.rs+r.rs])
		xp := pLE(data[z*2*r.rs+r.rs : (z+1)*2*r.rs])
		if x == 0 && xp == 0 {
			if r.hit[z] {
				bad++
				if msg == "" {
					msg = fmt.Sprintf("prefix %d has a proof in the construction but none is stored", z)
				}
			}
			continue
		}
		stored++
		px := uint64(pocutil.P(pocutil.PoCValue(x), r.bl, r.pkHash))
		pxp := uint64(pocutil.P(pocutil.PoCValue(xp), r.bl, r.pkHash))
		ok := x != 0 && xp != 0 && x <= mask && xp <= mask && px == (^pxp)&mask &&
			uint64(pocutil.F(pocutil.PoCValue(x), pocutil.PoCValue(xp), r.bl, r.pkHash)) == uint64(z)
		if !ok {
			bad++
			if msg == "" {
				msg = fmt.Sprintf("stored entry (%d,%d) at prefix %d is not a valid proof", x, xp, z)
			}
		}
	}
	return
}

// ---------------------------------------------------------------- plot control

type pAction int

const (
	pGo pAction = iota
	pStop
	pCrash
	// storage fault: the file system refuses to grow the plot file (as a full disk, a quota or a file size limit
	// does) from the next write on / a few bytes into the next write; only meaningful at A.computed / B.computed,
	// i.e. right before a window is flushed
	pFull0
	pFullPart
)

var pSigOnce sync.Once

// pLimitFileSize lowers RLIMIT_FSIZE of this (single-job) process; the returned func restores it.
func pLimitFileSize(limit int64) func() {
	pSigOnce.Do(func() { signal.Ignore(syscall.SIGXFSZ) })
	var old syscall.Rlimit
	if err := syscall.Getrlimit(syscall.RLIMIT_FSIZE, &old); err != nil {
		vk.Fatalf("getrlimit: %v", err)
	}
	if err := syscall.Setrlimit(syscall.RLIMIT_FSIZE, &syscall.Rlimit{Cur: uint64(limit), Max: old.Max}); err != nil {
		vk.Fatalf("setrlimit: %v", err)
	}
	return func() {
		if err := syscall.Setrlimit(syscall.RLIMIT_FSIZE, &old); err != nil {
			vk.Fatalf("restore rlimit: %v", err)
		}
	}
}

type pRun struct {
	dir     string
	key     int
	bl      int
	planA   []int // cache size in records per A window (last repeats)
	planB   []int // cache size in records per B window (last repeats)
	bufSize int   // map-A bufio size (0 = real constant)
	// at decides what happens at the n-th point (1-based) of this run
	at func(n int, name string) pAction

	ia, ib      int
	points      []string
	winStarts   int
	horizon     int
	livelock    bool
	crashedAt   int
	stoppedAt   int
	faultAt     int
	unlimit     func()
	snapA       []byte // map A file content at before.removeA
	lastSyncedA []byte
	lastSyncedB []byte
	curA, curB  []byte // file contents at the crash point
	mdb         *MassDBV1
}

var pRuns sync.Map // *MassDBV1 -> *pRun, and file path -> *pRun

var pHookOnce sync.Once

func pReadFile(p string) []byte {
	b, err := os.ReadFile(p)
	if err != nil {
		return nil
	}
	return b
}

func pInstallHooks() {
	pHookOnce.Do(func() {
		logging.Init(filepath.Join(os.Getenv("VERIF_SCRATCH"), "plogs"), "p", "fatal", 1, true)
		VerifCacheOverride = func(hm *HashMap, cache *MemCache, requiredMem uint64) bool {
			v, ok := pRuns.Load(hm.data.Name())
			if !ok {
				return false
			}
			run := v.(*pRun)
			isA := strings.HasSuffix(hm.data.Name(), "_a.massdb")
			var n int
			if isA {
				n = run.planA[min(run.ia, len(run.planA)-1)]
				run.ia++
			} else {
				n = run.planB[min(run.ib, len(run.planB)-1)]
				run.ib++
			}
			size := uint64(n * hm.recordSize)
			if size > requiredMem {
				size = requiredMem
			}
			cache.Update(size)
			return true
		}
		VerifMapABuf = func(mdb *MassDBV1, n int) int {
			if v, ok := pRuns.Load(mdb); ok && v.(*pRun).bufSize > 0 {
				return v.(*pRun).bufSize
			}
			return n
		}
		VerifPoint = func(mdb *MassDBV1, name string) {
			v, ok := pRuns.Load(mdb)
			if !ok {
				return
			}
			run := v.(*pRun)
			run.points = append(run.points, name)
			n := len(run.points)
			if strings.HasSuffix(name, "window.start") {
				run.winStarts++
				if run.horizon > 0 && run.winStarts > run.horizon {
					run.livelock = true
					run.crashedAt = n
					runtime.Goexit()
				}
			}
			switch name {
			case "before.removeA":
				run.snapA = pReadFile(mdb.filePathA)
			case "A.data.synced", "A.ckpt.synced", "A.final.synced", "B.data.synced", "B.ckpt.synced", "B.final.synced":
				run.lastSyncedA = pReadFile(mdb.filePathA)
				run.lastSyncedB = pReadFile(mdb.filePathB)
			}
			if run.at == nil {
				return
			}
			switch run.at(n, name) {
			case pStop:
				if run.stoppedAt == 0 {
					run.stoppedAt = n
					mdb.StopPlot()
					<-mdb.stopPlotCh // closed by StopPlot's goroutine: the next poll sees it deterministically
				}
			case pFull0, pFullPart:
				if run.faultAt == 0 && strings.HasSuffix(name, ".computed") {
					run.faultAt = n
					path := mdb.filePathA
					if strings.HasPrefix(name, "B.") {
						path = mdb.filePathB
					}
					st, err := os.Stat(path)
					if err != nil {
						vk.Fatalf("stat %s: %v", path, err)
					}
					lim := st.Size()
					if run.at(n, name) == pFullPart {
						lim += 5
					}
					run.unlimit = pLimitFileSize(lim)
				}
			case pCrash:
				run.crashedAt = n
				run.curA = pReadFile(mdb.filePathA)
				run.curB = pReadFile(mdb.filePathB)
				runtime.Goexit()
			}
		}
	})
}

var pDirSeq int64

func pNewDir() string {
	d := filepath.Join(os.Getenv("VERIF_SCRATCH"), fmt.Sprintf("plot-%d", atomic.AddInt64(&pDirSeq, 1)))
	os.MkdirAll(d, 0o755)
	return d
}

// start opens (or creates) the space and runs Plot() to its end / stop / crash.
// Returns the error of OpenDB/CreateDB or of the plot.
func (run *pRun) start() error {
	pInstallHooks()
	mdb, err := NewMassDBV1(run.dir, 0, pKey(run.key), run.bl)
	if err != nil {
		return err
	}
	run.mdb = mdb
	run.lastSyncedA = pReadFile(mdb.filePathA)
	run.lastSyncedB = pReadFile(mdb.filePathB)
	pRuns.Store(mdb, run)
	pRuns.Store(mdb.filePathA, run)
	pRuns.Store(mdb.filePathB, run)
	defer func() {
		pRuns.Delete(mdb)
		pRuns.Delete(mdb.filePathA)
		pRuns.Delete(mdb.filePathB)
	}()
	err = <-mdb.Plot()
	mdb.wg.Wait()
	if run.unlimit != nil {
		run.unlimit()
		run.unlimit = nil
	}
	return err
}

func (run *pRun) closeFiles() {
	if run.mdb == nil {
		return
	}
	if run.mdb.HashMapA != nil {
		run.mdb.HashMapA.Close()
	}
	if run.mdb.HashMapB != nil {
		run.mdb.HashMapB.Close()
	}
}

func (run *pRun) pathA() string { a, _ := getPath(run.dir, 0, pKey(run.key), run.bl); return a }
func (run *pRun) pathB() string { _, b := getPath(run.dir, 0, pKey(run.key), run.bl); return b }

// fileData returns the proof-data part of a plot file ("" if absent).
func pData(file []byte) []byte {
	if len(file) < PosProofData {
		return nil
	}
	return file[PosProofData:]
}

func pCheckpoint(file []byte) uint64 {
	if len(file) < PosCheckpoint+8 {
		return 0
	}
	return binary.LittleEndian.Uint64(file[PosCheckpoint : PosCheckpoint+8])
}

type pCase struct {
	Key     int    `json:"key"`
	BL      int    `json:"bl"`
	PlanA   []int  `json:"plan_a_records"`
	PlanB   []int  `json:"plan_b_records"`
	Buf     int    `json:"map_a_buf"`
	Point   int    `json:"interrupt_point,omitempty"`
	Kind    string `json:"interrupt_kind,omitempty"`
	Torn    string `json:"torn_state,omitempty"`
	ResumeA []int  `json:"resume_plan_a,omitempty"`
	ResumeB []int  `json:"resume_plan_b,omitempty"`
	Point2  int    `json:"second_interrupt_point,omitempty"`
	Kind2   string `json:"second_interrupt_kind,omitempty"`
}

func pFull(bl int) (int, int) { return 1 << uint(bl), 2 << uint(bl) }

var _ = bytes.Equal
var _ = vk.Workers
