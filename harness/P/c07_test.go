//go:build go1.21

package massdb_v1

// C07 — a completed plot equals the proof-of-capacity construction.

import (
	"bytes"
	"crypto/sha256"
	"encoding/binary"
	"fmt"
	"os"
	"sync"
	"testing"

	"github.com/massnetorg/mass-core/poc/pocutil"
	"massnet.org/mass/zz_verif/vk"
)

// pPlans enumerates window plans (cache sizes in records) for one pass.
// minRec: 2 for A (one even window), 4 for B (one pair).
func pPlans(minRec, full int, seqLen int) [][]int {
	var out [][]int
	alpha := []int{minRec, minRec + 1, minRec + 3, 8, 13, 64, full / 2, full/2 + 1, full}
	var uniq []int
	seen := map[int]bool{}
	for _, a := range alpha {
		if a >= minRec && a <= full && !seen[a] {
			seen[a] = true
			uniq = append(uniq, a)
		}
	}
	var rec func(p []int)
	rec = func(p []int) {
		if len(p) > 0 {
			out = append(out, append([]int{}, p...))
		}
		if len(p) == seqLen {
			return
		}
		for _, a := range uniq {
			rec(append(p, a))
		}
	}
	rec(nil)
	return out
}

func c07OneRun(r *vk.Run, key, bl int, planA, planB []int, buf int, baseline *sync.Map, st *c07Stats) {
	run := &pRun{dir: pNewDir(), key: key, bl: bl, planA: planA, planB: planB, bufSize: buf}
	defer os.RemoveAll(run.dir)
	cs := pCase{Key: key, BL: bl, PlanA: planA, PlanB: planB, Buf: buf}
	fullA, fullB := pFull(bl)
	// generous horizon: an uninterrupted run needs at most volume/minWindow windows per pass
	run.horizon = fullA/2 + fullB/4 + 16
	r.Eval(1)
	if p := vk.Catch(func() {
		if err := run.start(); err != nil {
			r.Violation("C07/plot-failed", fmt.Sprintf("Plot() = %v for %+v", err, cs), cs)
		}
	}); p != "" {
		r.Violation("C07/panic/"+vk.PanicSite(p), "panic while plotting: "+p[:min(len(p), 300)], cs)
		return
	}
	run.closeFiles()
	site := "aligned-read"
	rs := pocutil.RecordSize(bl)
	if buf > 0 && buf%(2*rs) != 0 {
		site = "short-read-misalignment"
	}
	if len(planA) > 1 || planA[0] < fullA {
		site += "/multi-window-A"
	}
	if run.livelock {
		r.Violation("C07/livelock/"+site, fmt.Sprintf("plot does not terminate for %+v (window starts: %d)", cs, run.winStarts), cs)
		return
	}
	// reopen as a keeper would
	mdbi, err := OpenDB(run.dir, int64(0), pKey(key), bl)
	if err != nil {
		r.Violation("C07/reopen-failed", err.Error(), cs)
		return
	}
	mdb := mdbi.(*MassDBV1)
	defer mdb.Close()
	_, plotted, prog := mdb.Progress()
	if !plotted || !mdb.Ready() || prog != 100 {
		r.Violation("C07/not-plotted-after-plot", fmt.Sprintf("Plot returned nil but Progress says plotted=%v progress=%v for %+v", plotted, prog, cs), cs)
		return
	}
	ref := pReference(key, bl)
	fileB := pReadFile(run.pathB())
	dataB := pData(fileB)
	// (3) map A just before its removal
	if e := ref.checkA(pData(run.snapA)); e != "" {
		r.Violation("C07/map-A/"+site, e+fmt.Sprintf(" (%+v)", cs), cs)
	}
	// (1)+(2) soundness and completeness of the table
	msg, bad, stored := ref.checkB(dataB)
	st.mu.Lock()
	st.entries += int64(stored)
	st.runs++
	st.windowsA += int64(run.ia)
	st.windowsB += int64(run.ib)
	st.mu.Unlock()
	if bad > 0 {
		r.Violation("C07/table/"+site, fmt.Sprintf("%d of %d stored/required entries wrong; first: %s (%+v)", bad, stored, msg, cs), cs)
	}
	if _, err := os.Stat(run.pathA()); err == nil {
		r.Violation("C07/map-A-not-removed", "map A file still exists after a completed plot", cs)
	}
	// (4) differential: identical to the single-window table for the same key/bl
	bk := fmt.Sprintf("%d/%d", key, bl)
	if v, ok := baseline.Load(bk); ok {
		if !bytes.Equal(v.([]byte), dataB) {
			r.Violation("C07/differs-from-single-window/"+site, fmt.Sprintf("table differs from the single-window table (%+v)", cs), cs)
		}
	} else if len(planA) == 1 && planA[0] >= fullA && len(planB) == 1 && planB[0] >= fullB && buf == 0 {
		baseline.Store(bk, append([]byte{}, dataB...))
	}
	// served proofs: GetProof for every prefix (a hash is searched per prefix)
	if bl >= 24 && false {
		need := 1 << uint(bl)
		got := make([]bool, need)
		for c, found := 0, 0; found < need && c < need*40; c++ {
			var b [8]byte
			binary.LittleEndian.PutUint64(b[:], uint64(c))
			h := pocutil.Hash(sha256.Sum256(b[:]))
			z := int(pocutil.CutHash(h, bl))
			if got[z] {
				continue
			}
			got[z] = true
			found++
			proof, err := mdb.GetProof(h, false)
			st.mu.Lock()
			st.challenges++
			st.mu.Unlock()
			if ref.hit[z] && (err != nil || proof == nil) {
				r.Violation("C07/proof-not-served/"+site, fmt.Sprintf("prefix %d has a proof but GetProof failed: %v (%+v)", z, err, cs), cs)
				break
			}
			if !ref.hit[z] && err == nil {
				r.Violation("C07/proof-served-without-pair/"+site, fmt.Sprintf("GetProof served a proof for prefix %d where the construction has none (%+v)", z, cs), cs)
				break
			}
		}
	}
}

type c07Stats struct {
	mu                                            sync.Mutex
	runs, entries, windowsA, windowsB, challenges int64
}

func TestVerifC07(t *testing.T) {
	r := vk.Start("C07", "exploration")
	st := &c07Stats{}
	baseline := &sync.Map{}
	if p := r.ReplayPath(); p != "" {
		var cs pCase
		vk.LoadReplay(p, &cs)
		fa, fb := pFull(cs.BL)
		c07OneRun(r, cs.Key, cs.BL, []int{fa}, []int{fb}, 0, baseline, st)
		c07OneRun(r, cs.Key, cs.BL, cs.PlanA, cs.PlanB, cs.Buf, baseline, st)
		r.Finish("replay")
	}
	type job struct {
		key, bl      int
		planA, planB []int
		buf          int
	}
	var jobs []job
	keys := vk.Pick(r, 2, 3)
	bls := []int{7, 8, 10}
	// single-window baselines first (sequentially, so that the differential oracle has them)
	for _, bl := range append(append([]int{}, bls...), 17, 18) {
		for k := 0; k < keys; k++ {
			fa, fb := pFull(bl)
			c07OneRun(r, k, bl, []int{fa}, []int{fb}, 0, baseline, st)
		}
	}
	// three-byte records (the class of the supported bl 24) with the map-A read buffer scaled
	for _, bl := range []int{17, 18} {
		fa, fb := pFull(bl)
		bufs := []int{16, 64, 256, 4096, 0}
		if r.Thorough() {
			bufs = []int{16, 32, 64, 128, 256, 512, 1024, 2048, 4096, 65536, 0}
		}
		for k := 0; k < vk.Pick(r, 1, 2); k++ {
			for _, buf := range bufs {
				for _, wa := range []int{1, 2, 3, 7} {
					for _, wb := range []int{1, 3} {
						if r.Quick() && (bl == 18 && (wa > 2 || wb > 1)) {
							continue
						}
						jobs = append(jobs, job{k, bl, []int{(fa/wa + 1) &^ 1}, []int{(fb/wb + 3) &^ 3}, buf})
					}
				}
			}
		}
	}
	for _, bl := range bls {
		fa, fb := pFull(bl)
		for k := 0; k < keys; k++ {
			if r.Quick() && k > 0 && bl != 8 {
				continue
			}
			if bl == 8 && (k == 0 || r.Thorough()) {
				// every constant cache size for each pass (the other pass single-window)
				for n := 2; n <= fa; n++ {
					jobs = append(jobs, job{k, bl, []int{n}, []int{fb}, 0})
				}
				for n := 4; n <= fb; n++ {
					jobs = append(jobs, job{k, bl, []int{fa}, []int{n}, 0})
				}
			}
			seq := 2
			if bl == 8 && r.Thorough() {
				seq = 3
			}
			for _, pa := range pPlans(2, fa, seq) {
				jobs = append(jobs, job{k, bl, pa, []int{fb}, 0})
			}
			for _, pb := range pPlans(4, fb, seq) {
				jobs = append(jobs, job{k, bl, []int{fa}, pb, 0})
			}
			// both passes windowed
			for _, pa := range pPlans(2, fa, 1) {
				for _, pb := range pPlans(4, fb, 1) {
					jobs = append(jobs, job{k, bl, pa, pb, 0})
				}
			}
		}
	}
	r.Sample(map[string]interface{}{"key": 0, "bl": 8, "plan_a_records": []int{5, 64, 256}, "plan_b_records": []int{512}, "oracle": "map A at removal == reference; every stored B entry is a valid proof for its prefix; every prefix with a candidate pair has an entry; B identical to single-window B; GetProof served iff a pair exists"})
	r.Sample(map[string]interface{}{"key": 0, "bl": 17, "plan_a_records": []int{65536}, "plan_b_records": []int{262144}, "map_a_buf": 4096})
	idx, nsh, child := r.Shard()
	if !child {
		// forced runtime.GC() in every plotting window serialises threads: shard by process
		r.RunShards(vk.Workers(), 1)
	} else {
		vk.ParallelFor(len(jobs), func(i int) {
			if i%nsh != idx {
				return
			}
			if r.Expired() {
				r.Cap("deadline before all window plans were plotted")
				return
			}
			j := jobs[i]
			c07OneRun(r, j.key, j.bl, j.planA, j.planB, j.buf, baseline, st)
			r.Distinct(fmt.Sprintf("%d/%d/%v/%v/%d", j.key, j.bl, j.planA, j.planB, j.buf))
		})
		if r.Thorough() && !r.Expired() && idx < 2 {
			c07BL24(r, st, idx)
		}
		r.Set("plots_completed", st.runs)
		r.Set("stored_entries_checked", st.entries)
		r.Set("windows_A", st.windowsA)
		r.Set("windows_B", st.windowsB)
		r.Set("challenges_served_through_GetProof", st.challenges)
	}
	r.Assume("pocutil.P/F, poc.VerifyProof from mass-core are the definition of the construction",
		"supported bit lengths 26-40 cannot be plotted here; record sizes 1,2,3 covered (bl 7/8, 10, 17/18[/24 thorough]); the map-A read buffer is scaled to small powers of two through hook VerifMapABuf (same residue classes as the real 64 MiB)")
	r.Finish("every window plan of the stated families (bl 8: every constant cache size for each pass, all sequences of <=3 per-window sizes over a 9-value alphabet, all pairs of single sizes; bl 7/10: sequences <=2; bl 17/18: 1,2,3,7 x 1,3 windows x map-A buffer sizes) is plotted by the real code to completion and compared with a brute-force reference; distinct_nontrivial = distinct (key, bl, planA, planB, buffer) cases")
}

// c07BL24: the only supported bit length that fits the sandbox.
func c07BL24(r *vk.Run, st *c07Stats, which int) {
	bl := 24
	fa, fb := pFull(bl)
	ref := pReference(0, bl)
	for wi, w := range [][2]int{{1, 1}, {2, 3}} {
		if wi != which {
			continue
		}
		if r.Expired() {
			r.Cap("deadline before the bl 24 plots")
			return
		}
		run := &pRun{dir: pNewDir(), key: 0, bl: bl, planA: []int{(fa/w[0] + 1) &^ 1}, planB: []int{(fb/w[1] + 3) &^ 3}}
		run.horizon = 64
		cs := pCase{Key: 0, BL: bl, PlanA: run.planA, PlanB: run.planB}
		err := run.start()
		run.closeFiles()
		r.Eval(1)
		if err != nil || run.livelock {
			r.Violation("C07/plot-failed/bl24", fmt.Sprint(err, run.livelock), cs)
			os.RemoveAll(run.dir)
			continue
		}
		msg, bad, stored := ref.checkB(pData(pReadFile(run.pathB())))
		if bad > 0 {
			r.Violation("C07/table/bl24", fmt.Sprintf("%d of %d entries wrong; first: %s", bad, stored, msg), cs)
		}
		st.mu.Lock()
		st.runs++
		st.entries += int64(stored)
		st.mu.Unlock()
		r.Distinct(fmt.Sprintf("bl24/%v", w))
		os.RemoveAll(run.dir)
	}
}
