//go:build go1.21

package massdb_v1

// C11, clause "delete erases exactly that space's files ..., remove erases nothing, and no other operation
// deletes plot data" at the level of the plot database: plotting itself may remove map A only once the table is
// complete. For every window plan the real plotter is stopped gracefully at every hook point (and run into a
// full disk at every flush); whenever the table left behind is not the complete table, both plot files must
// still be there and map A must not have lost data that was there at the interruption.

import (
	"fmt"
	"os"
	"strings"
	"testing"

	"massnet.org/mass/zz_verif/vk"
)

type c11pCase struct {
	BL    int    `json:"bl"`
	PlanA []int  `json:"plan_a_records"`
	PlanB []int  `json:"plan_b_records"`
	Point int    `json:"interrupt_point"`
	Kind  string `json:"interrupt_kind"`
}

func TestVerifC11PlotFiles(t *testing.T) {
	r := vk.Start("C11", "exploration")
	bls := []int{8}
	if r.Thorough() {
		bls = []int{8, 7, 10}
	}
	var erasedChecks, completed, interrupted int64
	sites := map[string]bool{}
	runOne := func(cs c11pCase) {
		ref := pReference(0, cs.BL)
		kind := c10Kind(cs.Kind)
		run := &pRun{dir: pNewDir(), key: 0, bl: cs.BL, planA: cs.PlanA, planB: cs.PlanB}
		defer os.RemoveAll(run.dir)
		fa, fb := pFull(cs.BL)
		run.horizon = fa/2 + fb/4 + 8
		var sizeAAtPoint int64 = -1
		run.at = func(n int, name string) pAction {
			if n == cs.Point {
				if st, err := os.Stat(run.pathA()); err == nil {
					sizeAAtPoint = st.Size()
				}
				return kind
			}
			return pGo
		}
		var err error
		p := vk.Catch(func() { err = run.start() })
		run.closeFiles()
		r.Eval(1)
		if p != "" || run.livelock {
			r.Violation("C11/plot-files/first-run-failed", fmt.Sprintf("interrupted run: panic=%q err=%v livelock=%v (%+v)", p, err, run.livelock, cs), cs)
			return
		}
		pn := "end"
		if cs.Point <= len(run.points) {
			pn = run.points[cs.Point-1]
		}
		site := cs.Kind + "@" + pn
		sites[site] = true
		_, bad, _ := ref.checkB(pData(pReadFile(run.pathB())))
		if bad == 0 {
			completed++
			return // complete table: map A may be gone
		}
		interrupted++
		erasedChecks++
		stA, errA := os.Stat(run.pathA())
		_, errB := os.Stat(run.pathB())
		switch {
		case errB != nil:
			r.Violation("C11/plot-data-erased-without-delete/B/"+site, fmt.Sprintf("after the interruption the table is incomplete (%d entries wrong or missing) and the plot file B is gone (%+v)", bad, cs), cs)
		case errA != nil:
			r.Violation("C11/plot-data-erased-without-delete/A/"+site, fmt.Sprintf("after the interruption the table is incomplete (%d entries wrong or missing) but map A was removed: no delete was requested (%+v)", bad, cs), cs)
		case sizeAAtPoint >= 0 && stA.Size() < sizeAAtPoint:
			r.Violation("C11/plot-data-erased-without-delete/A-truncated/"+site, fmt.Sprintf("map A shrank from %d to %d bytes during an interruption although the table is incomplete (%+v)", sizeAAtPoint, stA.Size(), cs), cs)
		}
		r.Distinct(fmt.Sprintf("%+v", cs))
	}
	if p := r.ReplayPath(); p != "" {
		var cs c11pCase
		vk.LoadReplay(p, &cs)
		runOne(cs)
		r.Finish("replay")
	}
	var jobs []c11pCase
	for _, bl := range bls {
		plans, _ := c10Plans(r, bl)
		for _, pl := range plans {
			probe := &pRun{dir: pNewDir(), key: 0, bl: bl, planA: pl[0], planB: pl[1]}
			if err := probe.start(); err != nil {
				vk.Fatalf("probe plot: %v", err)
			}
			probe.closeFiles()
			os.RemoveAll(probe.dir)
			for k := 1; k <= len(probe.points); k++ {
				jobs = append(jobs, c11pCase{bl, pl[0], pl[1], k, "stop"})
				if strings.HasSuffix(probe.points[k-1], ".computed") {
					jobs = append(jobs, c11pCase{bl, pl[0], pl[1], k, "disk-full"})
				}
			}
		}
	}
	r.Assume("plot database level: the real massdb.v1 plotter on real files at bit length 8 (thorough 7, 8, 10), window plans of 1-4 windows per pass; interruptions = graceful StopPlot at every hook point and a full disk at every window flush")
	idx, nsh, child := r.Shard()
	if !child {
		r.RunShards(vk.Workers(), 1)
	} else {
		for i, j := range jobs {
			if i%nsh != idx {
				continue
			}
			if r.Expired() {
				r.Cap("deadline before all interruption points were explored")
				break
			}
			runOne(j)
		}
		r.Set("interrupted_runs_with_incomplete_table_checked", erasedChecks)
		r.Set("runs_that_completed_the_table", completed)
		var ss []string
		for s := range sites {
			ss = append(ss, s)
		}
		r.Set("interruption_sites_plot_files", ss)
	}
	r.Sample(map[string]interface{}{"bl": 8, "plan_a_records": []int{256}, "plan_b_records": []int{128}, "interrupt_point": 22, "interrupt_kind": "stop"})
	r.Finish("for every window plan and every hook point of both passes the real plotter is stopped gracefully there (and run into a full disk at every flush); if the table left behind is not the complete table, both plot files still exist and map A has not shrunk: only a delete request erases plot data")
}
