//go:build go1.21

package massdb_v1

// C10 — interrupted plotting resumes to the same result and is never falsely
// complete. Every H2 point of an interrupted run x {graceful stop, crash} x
// every synthesised durable state x resume plans (x second interruption).

import (
	"bytes"
	"fmt"
	"os"
	"path/filepath"
	"sort"
	"strings"
	"sync"
	"testing"

	"massnet.org/mass/zz_verif/vk"
)

type c10State struct {
	A, B []byte // full file contents (nil = file absent)
	Desc string
}

// c10Torn synthesises the durable states possible at a crash: start from the
// last all-synced snapshot and apply subsets of the units that changed since
// (data blocks of blockSize bytes; the 8-byte checkpoint is one atomic unit).
func c10Torn(syncedA, syncedB, curA, curB []byte, blockSize int, stats *c10Stats) (out []c10State) {
	type unit struct {
		file     int // 0=A 1=B
		off, end int
		name     string
	}
	var units []unit
	diff := func(file int, s, c []byte) {
		if c == nil || s == nil {
			return
		}
		n := len(c)
		if len(s) > n {
			n = len(s)
		}
		get := func(b []byte, i int) byte {
			if i < len(b) {
				return b[i]
			}
			return 0
		}
		// header (checkpoint) as one unit
		hdr := false
		for i := 0; i < PosProofData && i < n; i++ {
			if get(s, i) != get(c, i) {
				hdr = true
			}
		}
		if hdr {
			units = append(units, unit{file, 0, PosProofData, fmt.Sprintf("%c.ckpt", 'A'+file)})
		}
		for off := PosProofData; off < n; off += blockSize {
			end := off + blockSize
			if end > n {
				end = n
			}
			ch := false
			for i := off; i < end; i++ {
				if get(s, i) != get(c, i) {
					ch = true
					break
				}
			}
			if ch {
				units = append(units, unit{file, off, end, fmt.Sprintf("%c.blk%d", 'A'+file, (off-PosProofData)/blockSize)})
			}
		}
	}
	// a file that exists now but not at the last sync point (or vice versa) is handled by the caller
	diff(0, syncedA, curA)
	diff(1, syncedB, curB)
	apply := func(mask []bool, desc string) c10State {
		a := append([]byte{}, syncedA...)
		b := append([]byte{}, syncedB...)
		grow := func(x []byte, n int) []byte {
			for len(x) < n {
				x = append(x, 0)
			}
			return x
		}
		for i, u := range units {
			if !mask[i] {
				continue
			}
			if u.file == 0 {
				a = grow(a, min(u.end, len(curA)))
				copy(a[u.off:min(u.end, len(curA))], curA[u.off:min(u.end, len(curA))])
			} else {
				b = grow(b, min(u.end, len(curB)))
				copy(b[u.off:min(u.end, len(curB))], curB[u.off:min(u.end, len(curB))])
			}
		}
		if syncedA == nil {
			a = nil
		}
		return c10State{A: a, B: b, Desc: desc}
	}
	defer func() {
		// a file removed since the last sync point may or may not be gone after the crash
		if curA == nil && syncedA != nil {
			for _, s := range append([]c10State{}, out...) {
				s.A = nil
				s.Desc += "+A-removed"
				out = append(out, s)
			}
		}
	}()
	n := len(units)
	stats.mu.Lock()
	stats.unitsSeen += int64(n)
	stats.mu.Unlock()
	if n == 0 {
		out = []c10State{{A: syncedA, B: curB, Desc: "all-synced"}}
		return out
	}
	if n <= 10 {
		for m := 0; m < 1<<uint(n); m++ {
			mask := make([]bool, n)
			var names []string
			for i := 0; i < n; i++ {
				if m>>uint(i)&1 == 1 {
					mask[i] = true
					names = append(names, units[i].name)
				}
			}
			out = append(out, apply(mask, fmt.Sprintf("subset%v", names)))
		}
		return out
	}
	seen := map[string]bool{}
	add := func(mask []bool, desc string) {
		k := fmt.Sprint(mask)
		if !seen[k] {
			seen[k] = true
			out = append(out, apply(mask, desc))
		}
	}
	for k := 0; k <= n; k++ {
		pre := make([]bool, n)
		suf := make([]bool, n)
		for i := 0; i < n; i++ {
			pre[i] = i < k
			suf[i] = i >= k
		}
		add(pre, fmt.Sprintf("prefix-%d-of-%d", k, n))
		add(suf, fmt.Sprintf("suffix-from-%d-of-%d", k, n))
	}
	for k := 0; k < n; k++ {
		one := make([]bool, n)
		one[k] = true
		add(one, "only-"+units[k].name)
		all := make([]bool, n)
		for i := range all {
			all[i] = i != k
		}
		add(all, "all-but-"+units[k].name)
	}
	return out
}

type c10Stats struct {
	mu                                                    sync.Mutex
	interruptions, states, resumes, tornDiffer, unitsSeen int64
	secondInterruptions, pointsSeen                       int64
	writeFaults, writeFaultsReported                      int64
	byPoint                                               map[string]int
}

// c10CheckState: oracle clauses (a) and (b) on a durable state.
func c10CheckState(r *vk.Run, ref *pRef, st c10State, baseB []byte, cs pCase, site string, plotted, prePlotted bool) bool {
	ckA, ckB := pCheckpoint(st.A), pCheckpoint(st.B)
	half := uint64(ref.volume / 2)
	// (a) never falsely complete: "reports plotted" is what the reopened space itself says
	if plotted {
		if msg, bad, _ := ref.checkB(pData(st.B)); bad > 0 {
			r.Violation("C10/falsely-complete/"+site, fmt.Sprintf("space reports plotted but its table is wrong (%d entries; %s) in durable state %s of %+v", bad, msg, st.Desc, cs), cs)
			return false
		}
	}
	if st.A != nil && prePlotted && !plotted {
		if e := ref.checkA(pData(st.A)); e != "" {
			r.Violation("C10/pre-plot-falsely-complete/"+site, fmt.Sprintf("map A is marked complete but %s in durable state %s of %+v", e, st.Desc, cs), cs)
			return false
		}
	}
	// (b) recorded progress never runs ahead of durable data
	if st.A != nil && ckA < uint64(ref.volume) {
		data := pData(st.A)
		for s := uint64(0); s < ckA; s++ {
			var got uint64
			if int(s+1)*ref.rs <= len(data) {
				got = pLE(data[int(s)*ref.rs : int(s+1)*ref.rs])
			}
			if got != ref.A[s] {
				r.Violation("C10/progress-ahead-of-data/A/"+site, fmt.Sprintf("map A checkpoint %d but slot %d holds %d instead of %d in durable state %s of %+v", ckA, s, got, ref.A[s], st.Desc, cs), cs)
				return false
			}
		}
	}
	if ckB < half && ckB > 0 {
		data := pData(st.B)
		lim := int(2*ckB) * 2 * ref.rs
		if len(data) < lim || !bytes.Equal(data[:lim], baseB[:lim]) {
			r.Violation("C10/progress-ahead-of-data/B/"+site, fmt.Sprintf("map B checkpoint %d but the entries below it are not final in durable state %s of %+v", ckB, st.Desc, cs), cs)
			return false
		}
	}
	return true
}

func c10WriteState(dir string, key, bl int, st c10State) {
	run := &pRun{dir: dir, key: key, bl: bl}
	os.MkdirAll(dir, 0o755)
	if st.A != nil {
		os.WriteFile(run.pathA(), st.A, 0o644)
	}
	if st.B != nil {
		os.WriteFile(run.pathB(), st.B, 0o644)
	}
}

// c10Resume resumes from a durable state until plotted (as many resumes as
// needed, each bounded by the horizon); optional second interruption.
func c10Resume(r *vk.Run, ref *pRef, st c10State, baseB []byte, cs pCase, site string, stats *c10Stats, second func(n int, name string) pAction) bool {
	dir := pNewDir()
	defer os.RemoveAll(dir)
	c10WriteState(dir, cs.Key, cs.BL, st)
	fa, fb := pFull(cs.BL)
	for attempt := 0; attempt < 6; attempt++ {
		run := &pRun{dir: dir, key: cs.Key, bl: cs.BL, planA: cs.ResumeA, planB: cs.ResumeB}
		run.horizon = 4*(fa/2+fb/4) + 8
		if attempt == 0 {
			run.at = second
		}
		var err error
		p := vk.Catch(func() { err = run.start() })
		run.closeFiles()
		stats.mu.Lock()
		stats.resumes++
		stats.mu.Unlock()
		if p != "" {
			r.Violation("C10/panic-on-resume/"+vk.PanicSite(p), "panic while resuming: "+p[:min(len(p), 300)], cs)
			return false
		}
		if run.livelock {
			r.Violation("C10/livelock/"+site, fmt.Sprintf("resume from durable state %s does not terminate (%d window starts, last points %v) for %+v", st.Desc, run.winStarts, run.points[max(0, len(run.points)-6):], cs), cs)
			return false
		}
		if err != nil {
			r.Violation("C10/resume-failed/"+site, fmt.Sprintf("resume from durable state %s failed: %v (%+v)", st.Desc, err, cs), cs)
			return false
		}
		b := pReadFile(run.pathB())
		done := false
		if mi, err := OpenDB(dir, int64(0), pKey(cs.Key), cs.BL); err == nil {
			_, done, _ = mi.(*MassDBV1).Progress()
			mi.(*MassDBV1).Close()
		}
		if done {
			if !bytes.Equal(pData(b), baseB) {
				msg, bad, _ := ref.checkB(pData(b))
				r.Violation("C10/resumed-table-differs/"+site, fmt.Sprintf("table after resume from durable state %s differs from the uninterrupted plot (%d invalid/missing entries; %s) for %+v", st.Desc, bad, msg, cs), cs)
				return false
			}
			return true
		}
		if run.crashedAt == 0 && run.stoppedAt == 0 {
			r.Violation("C10/resume-incomplete/"+site, fmt.Sprintf("Plot() returned without error and without interruption but the space is not plotted (%+v)", cs), cs)
			return false
		}
	}
	r.Violation("C10/resume-incomplete/"+site, fmt.Sprintf("not plotted after 6 resumes (%+v)", cs), cs)
	return false
}

func c10Plans(r *vk.Run, bl int) (plans [][2][]int, resume [][2][]int) {
	fa, fb := pFull(bl)
	ev := func(n int) int { return max(2, n&^1) }
	q4 := func(n int) int { return max(4, n&^3) }
	plans = [][2][]int{
		{{fa}, {fb}},
		{{ev(fa / 2)}, {q4(fb / 2)}},
		{{ev(fa/3 + 2)}, {q4(fb/3 + 4)}},
		{{ev(fa / 4)}, {fb}},
		{{fa}, {q4(fb / 4)}},
		{{fa - 4, 2}, {fb - 8, 4}}, // one large window, then minimal ones up to the very end
	}
	resume = [][2][]int{
		{{fa}, {fb}},
		{{ev(fa / 2)}, {q4(fb / 2)}},
		{{ev(fa/3 + 2)}, {q4(fb/3 + 4)}},
	}
	if r.Thorough() {
		plans = append(plans, [2][]int{{ev(fa/8 + 2), ev(fa / 2)}, {q4(fb / 8), q4(fb / 2)}}, [2][]int{{64, 2, 100}, {12, 256}})
		resume = append(resume, [2][]int{{2, ev(fa / 2)}, {4, q4(fb / 2)}}, [2][]int{{ev(fa/5 + 2)}, {q4(fb/5 + 4)}})
	}
	return
}

var c10KindName = map[pAction]string{pStop: "stop", pCrash: "crash", pFull0: "disk-full", pFullPart: "disk-full-after-5-bytes"}

func c10Kind(name string) pAction {
	for k, n := range c10KindName {
		if n == name {
			return k
		}
	}
	return pStop
}

func TestVerifC10(t *testing.T) {
	r := vk.Start("C10", "fault_enumeration")
	stats := &c10Stats{byPoint: map[string]int{}}
	type job struct {
		cs    pCase
		point int
		kind  pAction
	}
	runJob := func(j job, baseB []byte) {
		cs := j.cs
		ref := pReference(cs.Key, cs.BL)
		kindName := c10KindName[j.kind]
		run := &pRun{dir: pNewDir(), key: cs.Key, bl: cs.BL, planA: cs.PlanA, planB: cs.PlanB}
		fa, fb := pFull(cs.BL)
		run.horizon = fa/2 + fb/4 + 8
		run.at = func(n int, name string) pAction {
			if n == j.point {
				return j.kind
			}
			return pGo
		}
		var err error
		p := vk.Catch(func() { err = run.start() })
		// what the RUNNING instance says about itself after a stop or a failed write (the keeper decides ready vs
		// registered from this, without reopening): never plotted / 100 % unless the table is complete
		var runPre, runPlotted, runReady bool
		var runPct float64
		haveRun := p == "" && run.mdb != nil && run.crashedAt == 0 && !run.livelock
		if haveRun {
			vk.Catch(func() { runPre, runPlotted, runPct = run.mdb.Progress(); runReady = run.mdb.Ready() })
		}
		run.closeFiles()
		defer os.RemoveAll(run.dir)
		r.Eval(1)
		cs.Point, cs.Kind = j.point, kindName
		if haveRun && j.kind != pCrash {
			pn := "end"
			if j.point <= len(run.points) {
				pn = run.points[j.point-1]
			}
			rsite := kindName + "@" + pn
			_, bad, _ := ref.checkB(pData(pReadFile(run.pathB())))
			switch {
			case runPlotted != runReady:
				r.Violation("C10/ready-disagrees-with-progress/running/"+rsite, fmt.Sprintf("running instance after the interruption: Progress() says plotted=%v, Ready()=%v (%+v)", runPlotted, runReady, cs), cs)
				return
			case (runPlotted || runReady) && bad > 0:
				r.Violation("C10/falsely-complete/running/"+rsite, fmt.Sprintf("running instance reports plotted after the interruption but %d entries of its table are wrong or missing (%+v)", bad, cs), cs)
				return
			case runPct >= 100 && bad > 0:
				r.Violation("C10/progress-100-with-incomplete-table/running/"+rsite, fmt.Sprintf("running instance reports progress %.4f after the interruption but %d entries of its table are wrong or missing; the keeper takes 100 for a finished plot (%+v)", runPct, bad, cs), cs)
				return
			}
			_ = runPre
		}
		if (j.kind == pFull0 || j.kind == pFullPart) && run.faultAt > 0 {
			stats.mu.Lock()
			stats.writeFaults++
			if err != nil {
				stats.writeFaultsReported++
			}
			stats.mu.Unlock()
			err = nil // a plot that fails because the disk is full may say so; what it leaves behind is judged below
		}
		if p != "" || err != nil || run.livelock {
			r.Violation("C10/first-run-failed", fmt.Sprintf("interrupted first run: panic=%q err=%v livelock=%v (%+v)", p, err, run.livelock, cs), cs)
			return
		}
		pointName := "end"
		if j.point <= len(run.points) {
			pointName = run.points[j.point-1]
		}
		site := kindName + "@" + pointName
		stats.mu.Lock()
		stats.interruptions++
		stats.byPoint[site]++
		stats.mu.Unlock()
		var states []c10State
		if j.kind == pCrash && run.crashedAt > 0 {
			blk := 16
			if cs.BL > 8 {
				blk = 64
			}
			states = c10Torn(run.lastSyncedA, run.lastSyncedB, run.curA, run.curB, blk, stats)
			if len(states) > 1 {
				stats.mu.Lock()
				stats.tornDiffer += int64(len(states) - 1)
				stats.mu.Unlock()
			}
		} else {
			states = []c10State{{A: pReadFile(run.pathA()), B: pReadFile(run.pathB()), Desc: "as-left"}}
		}
		_, resumes := c10Plans(r, cs.BL)
		for si, st := range states {
			stats.mu.Lock()
			stats.states++
			stats.mu.Unlock()
			cs.Torn = st.Desc
			// the keeper's view: OpenDB must succeed
			dir := pNewDir()
			c10WriteState(dir, cs.Key, cs.BL, st)
			mdbi, err := OpenDB(dir, int64(0), pKey(cs.Key), cs.BL)
			if err != nil {
				r.Violation("C10/open-failed/"+site, fmt.Sprintf("OpenDB after interruption failed: %v (state %s, %+v)", err, st.Desc, cs), cs)
				os.RemoveAll(dir)
				continue
			}
			mdb := mdbi.(*MassDBV1)
			prePlotted, plotted, pct := mdb.Progress()
			if plotted != mdb.Ready() {
				r.Violation("C10/ready-disagrees-with-progress/"+site, "Ready() and Progress() disagree", cs)
			}
			if pct >= 100 && !plotted {
				r.Violation("C10/progress-100-with-incomplete-table/"+site, fmt.Sprintf("reopened space reports progress %.4f although it is not plotted; the keeper takes 100 for a finished plot (state %s, %+v)", pct, st.Desc, cs), cs)
			}
			mdb.Close()
			os.RemoveAll(dir)
			if !c10CheckState(r, ref, st, baseB, cs, site, plotted, prePlotted) {
				continue
			}
			for ri, rp := range resumes {
				// all resume plans for the first/last/middle torn states, one rotating plan for the others
				if len(states) > 6 && si != 0 && si != len(states)-1 && si != len(states)/2 && ri != si%len(resumes) {
					continue
				}
				cs.ResumeA, cs.ResumeB = rp[0], rp[1]
				r.Eval(1)
				if !c10Resume(r, ref, st, baseB, cs, site, stats, nil) {
					break
				}
				r.Distinct(fmt.Sprintf("%+v", cs))
				// second interruption (thorough): at every point of the resumed run, graceful and abrupt
				if r.Thorough() && si == 0 && ri < 2 {
					for k2 := 1; k2 <= 14; k2++ {
						for _, kind2 := range []pAction{pStop, pCrash} {
							cs2 := cs
							cs2.Point2, cs2.Kind2 = k2, map[pAction]string{pStop: "stop", pCrash: "crash"}[kind2]
							stats.mu.Lock()
							stats.secondInterruptions++
							stats.mu.Unlock()
							r.Eval(1)
							c10Resume(r, ref, st, baseB, cs2, site+"+second", stats, func(n int, name string) pAction {
								if n == k2 {
									return kind2
								}
								return pGo
							})
						}
					}
				}
			}
		}
	}

	baseOf := func(key, bl int) []byte {
		fa, fb := pFull(bl)
		run := &pRun{dir: pNewDir(), key: key, bl: bl, planA: []int{fa}, planB: []int{fb}}
		defer os.RemoveAll(run.dir)
		if err := run.start(); err != nil {
			vk.Fatalf("baseline plot: %v", err)
		}
		run.closeFiles()
		return pData(pReadFile(run.pathB()))
	}

	if p := r.ReplayPath(); p != "" {
		var cs pCase
		vk.LoadReplay(p, &cs)
		runJob(job{cs, cs.Point, c10Kind(cs.Kind)}, baseOf(cs.Key, cs.BL))
		r.Finish("replay")
	}

	var jobs []job
	bls := []int{8}
	if r.Thorough() {
		bls = []int{8, 7, 10}
	}
	bases := map[string][]byte{}
	for _, bl := range bls {
		plans, _ := c10Plans(r, bl)
		bases[fmt.Sprint(bl)] = baseOf(0, bl)
		for _, pl := range plans {
			// probe run: how many points does an uninterrupted run with this plan have?
			probe := &pRun{dir: pNewDir(), key: 0, bl: bl, planA: pl[0], planB: pl[1]}
			if err := probe.start(); err != nil {
				vk.Fatalf("probe plot: %v", err)
			}
			probe.closeFiles()
			os.RemoveAll(probe.dir)
			for k := 1; k <= len(probe.points); k++ {
				for _, kind := range []pAction{pStop, pCrash} {
					jobs = append(jobs, job{pCase{Key: 0, BL: bl, PlanA: pl[0], PlanB: pl[1]}, k, kind})
				}
				if strings.HasSuffix(probe.points[k-1], ".computed") {
					for _, kind := range []pAction{pFull0, pFullPart} {
						jobs = append(jobs, job{pCase{Key: 0, BL: bl, PlanA: pl[0], PlanB: pl[1]}, k, kind})
					}
				}
			}
		}
	}
	// late interruptions: at bit length 10 a plot whose last window holds 4 of 2048 records is 99.8 % done when it is
	// interrupted there (bit length 8 cannot get above 99.2 %): graceful stops and full disks at every point
	{
		fa, fb := pFull(10)
		pl := [2][]int{{fa}, {fb - 4, 4}}
		if _, ok := bases["10"]; !ok {
			bases["10"] = baseOf(0, 10)
		}
		probe := &pRun{dir: pNewDir(), key: 0, bl: 10, planA: pl[0], planB: pl[1]}
		if err := probe.start(); err != nil {
			vk.Fatalf("probe plot: %v", err)
		}
		probe.closeFiles()
		os.RemoveAll(probe.dir)
		for k := 1; k <= len(probe.points); k++ {
			jobs = append(jobs, job{pCase{Key: 0, BL: 10, PlanA: pl[0], PlanB: pl[1]}, k, pStop})
			if strings.HasSuffix(probe.points[k-1], ".computed") {
				jobs = append(jobs, job{pCase{Key: 0, BL: 10, PlanA: pl[0], PlanB: pl[1]}, k, pFull0})
			}
		}
	}
	idx, nsh, child := r.Shard()
	if !child {
		r.RunShards(vk.Workers(), 1)
	} else {
		for i, j := range jobs {
			if i%nsh != idx {
				continue
			}
			if r.Expired() {
				r.Cap("deadline before all interruption points were explored")
				break
			}
			runJob(j, bases[fmt.Sprint(j.cs.BL)])
		}
		r.Set("interruptions", stats.interruptions)
		r.Set("durable_states_checked", stats.states)
		r.Set("torn_states_beyond_the_synced_one", stats.tornDiffer)
		r.Set("unsynced_units_seen", stats.unitsSeen)
		r.Set("resume_runs", stats.resumes)
		r.Set("second_interruptions", stats.secondInterruptions)
		r.Set("write_faults_injected", stats.writeFaults)
		r.Set("write_faults_reported_by_plot", stats.writeFaultsReported)
		var sites []string
		for s := range stats.byPoint {
			sites = append(sites, s)
		}
		sort.Strings(sites)
		r.Set("interruption_sites", sites)
	}
	r.Sample(map[string]interface{}{"bl": 8, "plan_a_records": []int{128}, "plan_b_records": []int{256}, "interrupt_point": 5, "interrupt_kind": "crash", "torn_state": "subset[A.ckpt]", "resume_plan_a": []int{256}, "resume_plan_b": []int{512}})
	r.Assume("a synced WriteAt is durable; unsynced writes reach the disk in units of 16 bytes (bl<=8) / 64 bytes, any subset (all subsets when <=10 units changed, else all prefixes, suffixes, singles and all-but-one); the 8-byte checkpoint is atomic",
		"bit lengths 8 (quick) and 7, 8, 10 (thorough); window plans of 1-4 windows per pass (plus mixed sequences in thorough)")
	_ = filepath.Join
	r.Finish("for every window plan, a probe run lists the H2 points; for every point and interruption kind (graceful StopPlot made deterministic inside the hook, or abrupt abandonment of the plot goroutine) the run is interrupted there, every synthesised durable state is (a) opened and checked for false completion, (b) checked for progress running ahead of durable data, (c) resumed under every resume plan to completion within a livelock horizon and compared byte for byte with the uninterrupted table; thorough adds a second interruption at each of the first 14 points of the resumed run; distinct_nontrivial = distinct (plan, point, kind, torn state, resume plan) cases resumed")
}
