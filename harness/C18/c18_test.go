//go:build go1.21

package keystore

// C18 — HD key derivation matches BIP32 and is self-consistent.
//
// Bounded-exhaustive enumeration on the real hdkeychain / mnemonic code,
// compared step by step with an independent reference (refKey below: HMAC-
// SHA512 + big.Int + the curve from pocec; ser256 always 32 bytes; base58check
// written out here).

import (
	"bytes"
	"crypto/hmac"
	"crypto/sha256"
	"crypto/sha512"
	"encoding/binary"
	"encoding/hex"
	"fmt"
	"math/big"
	"strings"
	"sync"
	"testing"

	"github.com/massnetorg/mass-core/pocec"
	"golang.org/x/crypto/ripemd160"
	"massnet.org/mass/config"
	"massnet.org/mass/poc/wallet/keystore/hdkeychain"
	"massnet.org/mass/zz_verif/vk"
)

// ---------------------------------------------------------------- reference

type refKey struct {
	priv  *big.Int // nil for public keys
	pub   []byte   // 33-byte compressed
	chain []byte
	depth uint8
	fp    []byte
	num   uint32
}

var c18N = pocec.S256().N

func refSer256(x *big.Int) []byte {
	b := x.Bytes()
	out := make([]byte, 32)
	copy(out[32-len(b):], b)
	return out
}

func refPoint(k *big.Int) []byte {
	x, y := pocec.S256().ScalarBaseMult(refSer256(k))
	return refCompress(x, y)
}

func refCompress(x, y *big.Int) []byte {
	out := make([]byte, 33)
	out[0] = 2 + byte(y.Bit(0))
	copy(out[1:], refSer256(x))
	return out
}

func refHash160(b []byte) []byte {
	h := sha256.Sum256(b)
	r := ripemd160.New()
	r.Write(h[:])
	return r.Sum(nil)
}

func refMaster(seed []byte) *refKey {
	m := hmac.New(sha512.New, []byte("Bitcoin seed"))
	m.Write(seed)
	I := m.Sum(nil)
	k := new(big.Int).SetBytes(I[:32])
	if k.Sign() == 0 || k.Cmp(c18N) >= 0 {
		return nil
	}
	return &refKey{priv: k, pub: refPoint(k), chain: I[32:], fp: []byte{0, 0, 0, 0}}
}

// refChild returns nil when BIP32 says the child is invalid.
func (k *refKey) child(i uint32) *refKey {
	hard := i >= 0x80000000
	var data []byte
	if hard {
		if k.priv == nil {
			return nil
		}
		data = append([]byte{0}, refSer256(k.priv)...)
	} else {
		data = append([]byte{}, k.pub...)
	}
	var n [4]byte
	binary.BigEndian.PutUint32(n[:], i)
	data = append(data, n[:]...)
	m := hmac.New(sha512.New, k.chain)
	m.Write(data)
	I := m.Sum(nil)
	il := new(big.Int).SetBytes(I[:32])
	if il.Sign() == 0 || il.Cmp(c18N) >= 0 {
		return nil
	}
	c := &refKey{chain: I[32:], depth: k.depth + 1, fp: refHash160(k.pub)[:4], num: i}
	if k.priv != nil {
		c.priv = new(big.Int).Add(il, k.priv)
		c.priv.Mod(c.priv, c18N)
		if c.priv.Sign() == 0 {
			return nil
		}
		c.pub = refPoint(c.priv)
	} else {
		px, py := refDecompress(k.pub)
		ix, iy := pocec.S256().ScalarBaseMult(I[:32])
		x, y := pocec.S256().Add(ix, iy, px, py)
		c.pub = refCompress(x, y)
	}
	return c
}

func refDecompress(p []byte) (*big.Int, *big.Int) {
	// y^2 = x^3 + 7 mod P
	P := pocec.S256().P
	x := new(big.Int).SetBytes(p[1:])
	y2 := new(big.Int).Exp(x, big.NewInt(3), P)
	y2.Add(y2, big.NewInt(7))
	y2.Mod(y2, P)
	y := new(big.Int).ModSqrt(y2, P)
	if y.Bit(0) != uint(p[0]&1) {
		y.Sub(P, y)
	}
	return x, y
}

func (k *refKey) neuter() *refKey {
	return &refKey{pub: k.pub, chain: k.chain, depth: k.depth, fp: k.fp, num: k.num}
}

const refB58 = "123456789ABCDEFGHJKLMNPQRSTUVWXYZabcdefghijkmnopqrstuvwxyz"

func refBase58(b []byte) string {
	x := new(big.Int).SetBytes(b)
	var out []byte
	r := new(big.Int)
	base := big.NewInt(58)
	for x.Sign() > 0 {
		x.DivMod(x, base, r)
		out = append(out, refB58[r.Int64()])
	}
	for _, c := range b {
		if c != 0 {
			break
		}
		out = append(out, '1')
	}
	for i, j := 0, len(out)-1; i < j; i, j = i+1, j-1 {
		out[i], out[j] = out[j], out[i]
	}
	return string(out)
}

func (k *refKey) String() string {
	var ver [4]byte
	if k.priv != nil {
		ver = config.ChainParams.HDPrivateKeyID
	} else {
		ver = config.ChainParams.HDPublicKeyID
	}
	b := append([]byte{}, ver[:]...)
	b = append(b, k.depth)
	b = append(b, k.fp...)
	var n [4]byte
	binary.BigEndian.PutUint32(n[:], k.num)
	b = append(b, n[:]...)
	b = append(b, k.chain...)
	if k.priv != nil {
		b = append(b, 0)
		b = append(b, refSer256(k.priv)...)
	} else {
		b = append(b, k.pub...)
	}
	h1 := sha256.Sum256(b)
	h2 := sha256.Sum256(h1[:])
	b = append(b, h2[:4]...)
	return refBase58(b)
}

func (k *refKey) leadingZeroBytes() int {
	if k.priv == nil {
		return 0
	}
	return 32 - len(k.priv.Bytes())
}

// ---------------------------------------------------------------- harness

var c18Alphabet = []uint32{0, 1, 0x7fffffff, 0x80000000, 0x80000001, 0xffffffff}

func c18IdxName(i uint32) string {
	if i >= 0x80000000 {
		return fmt.Sprintf("%d'", i-0x80000000)
	}
	return fmt.Sprintf("%d", i)
}

type c18Case struct {
	Seed string   `json:"seed_hex"`
	Path []uint32 `json:"path"`
}

func c18Seed(counter uint32, length int) []byte {
	s := make([]byte, length)
	binary.BigEndian.PutUint32(s[length-4:], counter)
	return s
}

type c18Stats struct {
	mu                              sync.Mutex
	nodes, shortParents, shortHard  int64
	twoZero, pubDerivs, stringTrips int64
	invalidChildren                 int64
}

func c18PathStr(p []uint32) string {
	s := []string{"m"}
	for _, i := range p {
		s = append(s, c18IdxName(i))
	}
	return strings.Join(s, "/")
}

// c18Walk explores every path of depth <= maxDepth over the alphabet below the
// master of seed. impl is always re-synchronised from the reference string of
// the node so one defect does not cascade into every descendant.
func c18Walk(r *vk.Run, st *c18Stats, seed []byte, maxDepth int) {
	ref := refMaster(seed)
	impl, err := hdkeychain.NewMaster(seed, config.ChainParams)
	if ref == nil {
		if err == nil {
			r.Violation("C18/unusable-seed-accepted", "NewMaster accepted a seed BIP32 declares unusable", c18Case{hex.EncodeToString(seed), nil})
		}
		return
	}
	if err != nil {
		r.Violation("C18/master-rejected", fmt.Sprintf("NewMaster(%x): %v", seed, err), c18Case{hex.EncodeToString(seed), nil})
		return
	}
	if impl.String() != ref.String() {
		r.Violation("C18/bip32-mismatch/master", "master key differs from BIP32", c18Case{hex.EncodeToString(seed), nil})
		return
	}
	c18Node(r, st, seed, nil, impl, ref, maxDepth)
}

func c18Node(r *vk.Run, st *c18Stats, seed []byte, path []uint32, impl *hdkeychain.ExtendedKey, ref *refKey, maxDepth int) {
	st.mu.Lock()
	st.nodes++
	lz := ref.leadingZeroBytes()
	if lz > 0 {
		st.shortParents++
	}
	if lz > 1 {
		st.twoZero++
	}
	st.mu.Unlock()
	r.Eval(1)
	cs := func(extra ...uint32) c18Case {
		return c18Case{hex.EncodeToString(seed), append(append([]uint32{}, path...), extra...)}
	}
	// (3) text round trip of this key derives the same children.
	rt, err := hdkeychain.NewKeyFromString(impl.String())
	if err != nil {
		r.Violation("C18/roundtrip/parse-own-string", fmt.Sprintf("%s: NewKeyFromString(String()) failed: %v", c18PathStr(path), err), cs())
		return
	}
	if rt.String() != impl.String() {
		r.Violation("C18/roundtrip/string-changed", c18PathStr(path)+": String() of parsed key differs", cs())
	}
	// (2) public side.
	implPub, err := impl.Neuter()
	if err != nil {
		r.Violation("C18/neuter-failed", err.Error(), cs())
		return
	}
	refPub := ref.neuter()
	if implPub.String() != refPub.String() {
		r.Violation("C18/bip32-mismatch/neuter", c18PathStr(path)+": neutered key differs from BIP32", cs())
	}
	if len(path) >= maxDepth {
		return
	}
	for _, i := range c18Alphabet {
		hard := i >= 0x80000000
		rc := ref.child(i)
		ic, ierr := impl.Child(i)
		rtc, rterr := rt.Child(i)
		st.mu.Lock()
		st.stringTrips++
		if hard && lz > 0 {
			st.shortHard++
		}
		st.mu.Unlock()
		where := c18PathStr(append(append([]uint32{}, path...), i))
		site := "normal-child"
		if hard {
			site = "hardened-child"
		}
		if lz > 0 {
			site += "-of-short-parent"
		}
		if rc == nil {
			st.mu.Lock()
			st.invalidChildren++
			st.mu.Unlock()
			if ierr == nil {
				r.Violation("C18/invalid-child-accepted/"+site, where+": BIP32 says invalid child, implementation derived one", cs(i))
			}
			continue
		}
		if ierr != nil {
			r.Violation("C18/child-rejected/"+site, where+": "+ierr.Error(), cs(i))
			continue
		}
		// (1) equality with the reference.
		if ic.String() != rc.String() {
			r.Violation("C18/bip32-mismatch/"+site, fmt.Sprintf("%s: derived %s, BIP32 defines %s (parent scalar has %d leading zero byte(s))", where, ic.String(), rc.String(), lz), cs(i))
		}
		// (3)
		if rterr != nil || rtc.String() != ic.String() {
			r.Violation("C18/roundtrip-derives-different-child/"+site, fmt.Sprintf("%s: child of the key differs from child of NewKeyFromString(key.String()) (parent scalar has %d leading zero byte(s))", where, lz), cs(i))
		}
		// (2) public derivation agrees with private derivation.
		pc, perr := implPub.Child(i)
		if hard {
			if perr != hdkeychain.ErrDeriveHardFromPublic {
				r.Violation("C18/hardened-from-public", where+": hardened derivation from a public key did not fail with ErrDeriveHardFromPublic", cs(i))
			}
		} else {
			st.mu.Lock()
			st.pubDerivs++
			st.mu.Unlock()
			if perr != nil {
				r.Violation("C18/public-child-rejected", where+": "+perr.Error(), cs(i))
			} else {
				want := rc.neuter().String()
				icn, _ := ic.Neuter()
				if pc.String() != want || icn.String() != want {
					r.Violation("C18/public-private-disagree/"+site, where+": Neuter(priv child) / pub child / BIP32 disagree", cs(i))
				}
				if refPub.child(i).String() != want {
					vk.Fatalf("reference self-check failed at %s", where)
				}
			}
		}
		// Descend from the reference's serialisation so that defects do not cascade.
		next, err := hdkeychain.NewKeyFromString(rc.String())
		if err != nil {
			r.Violation("C18/parse-reference-key", where+": NewKeyFromString rejects a valid BIP32 key: "+err.Error(), cs(i))
			continue
		}
		// Where the implementation's own child agrees, continue with *it* (its
		// internal representation, e.g. a 31-byte scalar, is what matters).
		if ic.String() == rc.String() {
			next = ic
		}
		c18Node(r, st, seed, append(append([]uint32{}, path...), i), next, rc, maxDepth)
	}
}

// c18Interesting enumerates seed counters with the reference only (cheap:
// hardened derivation needs no curve operation) and returns those for which a
// key on a hardened path of depth <= 2 over the alphabet has a leading zero
// byte - the inputs the repository's fixed vectors never contain.
func c18Interesting(limit uint32, want int) (one []uint32, two []uint32) {
	hardIdx := []uint32{0x80000000 + 44, 0x80000000, 0x80000001, 0xffffffff}
	for c := uint32(0); c < limit && (len(one) < want); c++ {
		m := refMasterNoPub(c18Seed(c, 32))
		if m == nil {
			continue
		}
		maxlz := m.leadingZeroBytes()
		for _, i := range hardIdx {
			k := m.hardChildNoPub(i)
			if k == nil {
				continue
			}
			if z := k.leadingZeroBytes(); z > maxlz {
				maxlz = z
			}
			for _, j := range hardIdx {
				k2 := k.hardChildNoPub(j)
				if k2 != nil {
					if z := k2.leadingZeroBytes(); z > maxlz {
						maxlz = z
					}
				}
			}
		}
		if maxlz >= 2 {
			two = append(two, c)
		} else if maxlz == 1 {
			one = append(one, c)
		}
	}
	return
}

func refMasterNoPub(seed []byte) *refKey {
	m := hmac.New(sha512.New, []byte("Bitcoin seed"))
	m.Write(seed)
	I := m.Sum(nil)
	k := new(big.Int).SetBytes(I[:32])
	if k.Sign() == 0 || k.Cmp(c18N) >= 0 {
		return nil
	}
	return &refKey{priv: k, chain: I[32:]}
}

func (k *refKey) hardChildNoPub(i uint32) *refKey {
	data := append([]byte{0}, refSer256(k.priv)...)
	var n [4]byte
	binary.BigEndian.PutUint32(n[:], i)
	data = append(data, n[:]...)
	m := hmac.New(sha512.New, k.chain)
	m.Write(data)
	I := m.Sum(nil)
	il := new(big.Int).SetBytes(I[:32])
	if il.Sign() == 0 || il.Cmp(c18N) >= 0 {
		return nil
	}
	c := &refKey{chain: I[32:], priv: new(big.Int).Add(il, k.priv)}
	c.priv.Mod(c.priv, c18N)
	return c
}

// ---------------------------------------------------------------- mnemonics

// refMnemonic: independent 11-bit packer (bit string, no big.Int).
func refMnemonic(e []byte) []int {
	h := sha256.Sum256(e)
	bits := make([]byte, 0, len(e)*8+8)
	for _, b := range e {
		for i := 7; i >= 0; i-- {
			bits = append(bits, (b>>uint(i))&1)
		}
	}
	cs := len(e) * 8 / 32
	for i := 0; i < cs; i++ {
		bits = append(bits, (h[0]>>uint(7-i))&1)
	}
	var idx []int
	for i := 0; i+11 <= len(bits); i += 11 {
		v := 0
		for j := 0; j < 11; j++ {
			v = v<<1 | int(bits[i+j])
		}
		idx = append(idx, v)
	}
	return idx
}

// refDecode returns (entropy, true) iff the index sequence carries a correct checksum.
func refDecode(idx []int) ([]byte, bool) {
	var bits []byte
	for _, v := range idx {
		for j := 10; j >= 0; j-- {
			bits = append(bits, byte(v>>uint(j))&1)
		}
	}
	ent := len(bits) * 32 / 33
	e := make([]byte, ent/8)
	for i := 0; i < ent; i++ {
		e[i/8] |= bits[i] << uint(7-i%8)
	}
	h := sha256.Sum256(e)
	for i := 0; i < len(bits)-ent; i++ {
		if bits[ent+i] != (h[0]>>uint(7-i))&1 {
			return e, false
		}
	}
	return e, true
}

func c18Mnemonic(r *vk.Run, e []byte, corrupt bool, nMn *int64, mu *sync.Mutex) {
	words := GetWordList()
	idx := refMnemonic(e)
	w := make([]string, len(idx))
	for i, v := range idx {
		w[i] = words[v]
	}
	want := strings.Join(w, " ")
	cs := map[string]string{"entropy_hex": hex.EncodeToString(e)}
	got, err := NewMnemonic(e)
	r.Eval(1)
	mu.Lock()
	*nMn++
	mu.Unlock()
	if err != nil || got != want {
		r.Violation("C18/mnemonic/encode", fmt.Sprintf("NewMnemonic(%x) = %q, %v; BIP39 defines %q", e, got, err, want), cs)
		return
	}
	back, err := EntropyFromMnemonic(got)
	if err != nil || !bytes.Equal(back, e) {
		r.Violation("C18/mnemonic/EntropyFromMnemonic", fmt.Sprintf("entropy %x does not round-trip: %x, %v", e, back, err), cs)
	}
	raw, err := MnemonicToByteArray(got, true)
	if err != nil || !bytes.Equal(raw, e) {
		r.Violation("C18/mnemonic/MnemonicToByteArray", fmt.Sprintf("entropy %x does not round-trip: %x, %v", e, raw, err), cs)
	}
	if !corrupt {
		return
	}
	for pos := range idx {
		for _, delta := range []int{1, 1024} {
			c := append([]int{}, idx...)
			c[pos] = (c[pos] + delta) % 2048
			_, valid := refDecode(c)
			cw := make([]string, len(c))
			for i, v := range c {
				cw[i] = words[v]
			}
			m := strings.Join(cw, " ")
			_, e1 := EntropyFromMnemonic(m)
			_, e2 := MnemonicToByteArray(m, true)
			r.Eval(1)
			if (e1 == nil) != valid {
				r.Violation("C18/mnemonic/checksum/EntropyFromMnemonic", fmt.Sprintf("corrupted word %d of %q: accepted=%v, checksum valid=%v", pos, want, e1 == nil, valid), map[string]string{"mnemonic": m})
			}
			if (e2 == nil) != valid {
				r.Violation("C18/mnemonic/checksum/MnemonicToByteArray", fmt.Sprintf("corrupted word %d of %q: accepted=%v, checksum valid=%v", pos, want, e2 == nil, valid), map[string]string{"mnemonic": m})
			}
		}
	}
}

func TestVerifC18(t *testing.T) {
	r := vk.Start("C18", "exploration")
	st := &c18Stats{}
	if p := r.ReplayPath(); p != "" {
		var c c18Case
		vk.LoadReplay(p, &c)
		seed, _ := hex.DecodeString(c.Seed)
		c18Walk(r, st, seed, len(c.Path))
		r.Finish("replay of one seed to the depth of the recorded path")
	}
	depth := 3
	nPlain := vk.Pick(r, 64, 2048)
	nShort := vk.Pick(r, 96, 2048)
	scan := vk.Pick(r, uint32(1<<16), uint32(1<<22))

	type job struct {
		seed  []byte
		depth int
	}
	var jobs []job
	// BIP32 test-vector seeds.
	for _, h := range []string{
		"000102030405060708090a0b0c0d0e0f",
		"fffcf9f6f3f0edeae7e4e1dedbd8d5d2cfccc9c6c3c0bdbab7b4b1aeaba8a5a29f9c999693908d8a8784817e7b7875726f6c696663605d5a5754514e4b484542",
		"4b381541583be4423346c643850da4b320e46a87ae3d2a4e6da11eba819cd4acba45d239319ac14f863b8d5ab5a0d0c64d2e8a1e7d1457df2e5a3c51c73235be",
	} {
		s, _ := hex.DecodeString(h)
		jobs = append(jobs, job{s, depth})
	}
	for c := uint32(0); c < uint32(nPlain); c++ {
		jobs = append(jobs, job{c18Seed(c, 32), depth})
	}
	for _, l := range []int{16, 17, 31, 33, 63, 64} {
		for c := uint32(0); c < uint32(vk.Pick(r, 4, 64)); c++ {
			jobs = append(jobs, job{c18Seed(c, l), 2})
		}
	}
	one, two := c18Interesting(scan, nShort)
	r.Set("seeds_scanned_by_reference_for_short_keys", scan)
	r.Set("seeds_with_one_leading_zero_key_selected", len(one))
	r.Set("seeds_with_two_leading_zero_key_selected", len(two))
	for _, c := range one {
		jobs = append(jobs, job{c18Seed(c, 32), depth})
	}
	for _, c := range two {
		jobs = append(jobs, job{c18Seed(c, 32), depth})
	}
	if r.Thorough() {
		// depth 4 on a smaller set
		for i, c := range one {
			if i < 128 {
				jobs = append(jobs, job{c18Seed(c, 32), 4})
			}
		}
	}
	r.Sample(map[string]interface{}{"seed_hex": hex.EncodeToString(jobs[3].seed), "paths": "all paths of depth<=3 over {0,1,2^31-1,0',1',(2^31-1)'}"})
	if len(one) > 0 {
		r.Sample(map[string]interface{}{"seed_hex": hex.EncodeToString(c18Seed(one[0], 32)), "why": "a hardened-path key below this seed has a leading zero byte"})
	}
	vk.ParallelFor(len(jobs), func(i int) {
		if r.Expired() {
			r.Cap("deadline before all seeds were walked")
			return
		}
		c18Walk(r, st, jobs[i].seed, jobs[i].depth)
	})

	// Wrong lengths are refused.
	for _, l := range []int{0, 1, 15, 65, 128} {
		if _, err := hdkeychain.NewMaster(make([]byte, l), config.ChainParams); err != hdkeychain.ErrInvalidSeedLen {
			r.Violation("C18/seed-length", fmt.Sprintf("seed of %d bytes: %v", l, err), nil)
		}
	}
	// Maximum depth: a chain of 255 derivations works, the 256th is refused.
	{
		seed := c18Seed(1, 32)
		k, _ := hdkeychain.NewMaster(seed, config.ChainParams)
		ref := refMaster(seed)
		ok := true
		for d := 0; d < 255; d++ {
			var err error
			k, err = k.Child(uint32(d % 2))
			ref = ref.child(uint32(d % 2))
			if err != nil || ref == nil {
				ok = false
				break
			}
		}
		if !ok || k.String() != ref.String() {
			r.Violation("C18/max-depth-chain", "depth-255 chain differs from BIP32", nil)
		} else if _, err := k.Child(0); err != hdkeychain.ErrDeriveBeyondMaxDepth {
			r.Violation("C18/max-depth-not-refused", fmt.Sprintf("depth 256: %v", err), nil)
		}
		r.Eval(256)
	}

	// Mnemonics.
	var nMn int64
	var mu sync.Mutex
	var ents [][]byte
	var corrupt []bool
	for _, size := range []int{16, 20, 24, 28, 32} {
		add := func(e []byte, c bool) { ents = append(ents, e); corrupt = append(corrupt, c) }
		add(make([]byte, size), true)
		add(bytes.Repeat([]byte{0xff}, size), true)
		for bit := 0; bit < size*8; bit++ {
			e := make([]byte, size)
			e[bit/8] = 1 << uint(7-bit%8)
			add(e, bit%8 == 0)
		}
		nc := vk.Pick(r, 4096, 65536)
		for c := 0; c < nc; c++ {
			e := make([]byte, size)
			binary.BigEndian.PutUint16(e[size-2:], uint16(c))
			add(e, c < 16)
			if c < 256 {
				for _, k := range []int{1, 2, 3, size - 3} {
					e := bytes.Repeat([]byte{0xa5}, size)
					for j := 0; j < k; j++ {
						e[j] = 0
					}
					e[size-1] = byte(c)
					add(e, c < 4)
				}
			}
		}
	}
	r.Sample(map[string]interface{}{"entropy_hex": hex.EncodeToString(ents[40]), "check": "NewMnemonic == reference packer; EntropyFromMnemonic/MnemonicToByteArray round trip; single-word corruptions"})
	vk.ParallelFor(len(ents), func(i int) { c18Mnemonic(r, ents[i], corrupt[i], &nMn, &mu) })
	for _, l := range []int{0, 15, 17, 33, 36} {
		if _, err := NewMnemonic(make([]byte, l)); err == nil {
			r.Violation("C18/mnemonic/bad-size-accepted", fmt.Sprintf("entropy of %d bytes accepted", l), nil)
		}
	}

	r.Set("seeds_walked", len(jobs))
	r.Set("tree_nodes", st.nodes)
	r.Set("parents_with_leading_zero_byte", st.shortParents)
	r.Set("parents_with_two_leading_zero_bytes", st.twoZero)
	r.Set("hardened_derivations_from_short_parent", st.shortHard)
	r.Set("public_derivations_compared", st.pubDerivs)
	r.Set("string_roundtrip_children_compared", st.stringTrips)
	r.Set("invalid_children_per_bip32", st.invalidChildren)
	r.Set("mnemonics", nMn)
	r.DistinctN(int(st.nodes) + int(nMn))
	r.Assume("HMAC-SHA512, SHA-256, RIPEMD-160 and the secp256k1 group operations of mass-core/pocec are correct (shared by implementation and reference)",
		"seeds are 32-byte big-endian counters (plus 6 other lengths and the 3 BIP32 vector seeds); path indices from {0,1,2^31-1,0',1',(2^31-1)'}; depth<=3 (4 for 128 seeds, thorough); one depth-255 chain")
	r.Finish("every (seed, path) of the stated sets is derived by the implementation and by an independent BIP32 reference and compared as serialized strings (private, neutered, public-side child, child of the re-parsed string); distinct_nontrivial = tree nodes visited (each a distinct (seed,path)) + distinct entropies; seeds with short (leading-zero) keys are selected by scanning counters with the reference")
}
