//go:build go1.21

package connection

import "net"

// VerifDial (harness only; added through the build overlay, not part of the repository): a dial option
// whose outcome the harness owns. f is called once per NewConn, i.e. once per (re)dial; an error makes
// that dial fail the way an unreachable address does.
func VerifDial(f func() (net.Conn, error)) Option {
	return newOptionFunc(func(o *options) {
		o.conn = nil
		if c, err := f(); err == nil {
			o.conn = c
		} else {
			o.dialNetwork, o.dialAddress = "verif-unreachable", ""
		}
	})
}
