//go:build go1.21

package fractal

// C17 — cluster tasks reach the right collectors and reports the right task.
// Topology T1: the real LocalSuperior with 2 (+1 late) real LocalCollectors over
// scripted space keepers, on a virtual clock (collector.go's "time" import is
// rewritten to the vtime shim). Actions (task add/remove, waiter reads, collector
// connect/stop, timer firings) are explored in every order with canonical-state
// pruning under the quiescence scheduler.

import (
	"context"
	"crypto/sha256"
	"errors"
	"fmt"
	"math/big"
	"net"
	"os"
	"path/filepath"
	"reflect"
	"sort"
	"strings"
	"sync"
	"sync/atomic"
	"testing"
	realtime "time"

	"github.com/google/uuid"
	"github.com/massnetorg/mass-core/logging"
	"github.com/massnetorg/mass-core/poc/chiapos"
	"github.com/massnetorg/mass-core/poc/pocutil"
	"massnet.org/mass/fractal/connection"
	"massnet.org/mass/fractal/protocol"
	engine_v2 "massnet.org/mass/poc/engine.v2"
	"massnet.org/mass/zz_verif/qsched"
	"massnet.org/mass/zz_verif/seqx"
	"massnet.org/mass/zz_verif/vk"
	"massnet.org/mass/zz_verif/vtime"
)

// ---------------------------------------------------------------- scripted keeper

type c17Call struct {
	kind      string // "qualities" | "proof"
	challenge pocutil.Hash
}

type c17Keeper struct {
	idx   int
	mu    sync.Mutex
	calls []c17Call
}

func (k *c17Keeper) Start() error                                                 { return nil }
func (k *c17Keeper) Stop() error                                                  { return nil }
func (k *c17Keeper) Started() bool                                                { return true }
func (k *c17Keeper) Type() string                                                 { return "scripted" }
func (k *c17Keeper) WorkSpaceIDs(engine_v2.WorkSpaceStateFlags) ([]string, error) { return nil, nil }
func (k *c17Keeper) WorkSpaceInfos(engine_v2.WorkSpaceStateFlags) ([]engine_v2.WorkSpaceInfo, error) {
	return nil, nil
}
func (k *c17Keeper) GetQuality(context.Context, string, pocutil.Hash) ([]*engine_v2.WorkSpaceQuality, error) {
	return nil, errors.New("unused")
}
func (k *c17Keeper) GetQualities(ctx context.Context, f engine_v2.WorkSpaceStateFlags, ch pocutil.Hash) ([]*engine_v2.WorkSpaceQuality, error) {
	k.mu.Lock()
	k.calls = append(k.calls, c17Call{"qualities", ch})
	k.mu.Unlock()
	q := sha256.Sum256([]byte(fmt.Sprintf("quality-%d-%x", k.idx, ch[:4])))
	return []*engine_v2.WorkSpaceQuality{{SpaceID: fmt.Sprintf("space-%d", k.idx), Index: uint32(k.idx), KSize: 32, Quality: q[:],
		PublicKey: chiapos.NewG1ElementGenerator(), PoolPublicKey: chiapos.NewG1ElementGenerator()}}, nil
}
func (k *c17Keeper) GetQualityReader(context.Context, string, pocutil.Hash) (engine_v2.QualityReader, error) {
	return nil, errors.New("unused")
}
func (k *c17Keeper) GetQualitiesReader(context.Context, engine_v2.WorkSpaceStateFlags, pocutil.Hash) (engine_v2.QualityReader, error) {
	return nil, errors.New("unused")
}
func (k *c17Keeper) GetProof(ctx context.Context, sid string, ch pocutil.Hash, index uint32) (*engine_v2.WorkSpaceProof, error) {
	k.mu.Lock()
	k.calls = append(k.calls, c17Call{"proof", ch})
	k.mu.Unlock()
	return &engine_v2.WorkSpaceProof{SpaceID: sid, Ordinal: int64(k.idx), PublicKey: chiapos.NewG1ElementGenerator(),
		Proof: &chiapos.ProofOfSpace{Challenge: ch, PoolPublicKey: chiapos.NewG1ElementGenerator(), PlotPublicKey: chiapos.NewG1ElementGenerator(), KSize: 32, Proof: []byte{1, 2, 3}}}, nil
}
func (k *c17Keeper) GetProofs(context.Context, []string, pocutil.Hash, []uint32) ([]*engine_v2.WorkSpaceProof, error) {
	return nil, errors.New("unused")
}
func (k *c17Keeper) GetProofReader(context.Context, string, pocutil.Hash, uint32) (engine_v2.ProofReader, error) {
	return nil, errors.New("unused")
}
func (k *c17Keeper) GetProofsReader(context.Context, []string, pocutil.Hash, []uint32) (engine_v2.ProofReader, error) {
	return nil, errors.New("unused")
}
func (k *c17Keeper) ActOnWorkSpace(string, engine_v2.ActionType) error { return nil }
func (k *c17Keeper) ActOnWorkSpaces(engine_v2.WorkSpaceStateFlags, engine_v2.ActionType) (map[string]error, error) {
	return nil, nil
}
func (k *c17Keeper) SignHash(string, [32]byte) (*chiapos.G2Element, error) {
	return nil, errors.New("unused")
}
func (k *c17Keeper) GetPrivateKey(string) (*chiapos.PrivateKey, error) {
	return nil, errors.New("unused")
}

// ---------------------------------------------------------------- world

const c17NowUnix = 1700000001

type c17Task struct {
	id        uuid.UUID
	kind      string // "Q" broadcast qualities, "P" targeted proof
	target    int    // collector index for P
	challenge pocutil.Hash
	ch        chan *CollectorMsg
	removed   bool
	read      []*CollectorMsg
	// collectors connected while the task was current (expected recipients)
	expected map[int]bool
}

type c17Coll struct {
	lc      *LocalCollector
	cancel  context.CancelFunc
	keeper  *c17Keeper
	stopped bool
	stopOp  *qsched.Op
	// relay unit (T3), wired as production does: LocalSuperior <- CollectorPool.addCollectorWithConn(conn) =net.Pipe=
	// PersistentRemoteSuperior (dial option = the pipe end) <- LocalCollector
	relay    bool
	mu       sync.Mutex // the dial callback runs on the far side's goroutine
	rcID     uuid.UUID  // id under which the superior knows the relay now
	oldIDs   []uuid.UUID
	rc       *RemoteCollector
	pool     *CollectorPool
	prs      *PersistentRemoteSuperior
	prsStop  context.CancelFunc
	pipeA    net.Conn
	pipes    []net.Conn
	connA    *connection.Conn
	stopKind string
	linkDown bool // the connection was dropped and has not been re-established
	poolDown bool
	dials    int // dial attempts by the far side (the first one included)
	redials  int // successful re-connections
}

// down: the unit cannot be expected to deliver right now
func (c *c17Coll) down() bool { return c.stopped || c.linkDown }

// knows: id is one of the ids this unit has had at the superior
func (c *c17Coll) knows(id uuid.UUID) bool {
	if !c.relay {
		return c.lc.ID() == id
	}
	if c.rcID == id {
		return true
	}
	for _, o := range c.oldIDs {
		if o == id {
			return true
		}
	}
	return false
}

// relayState: how the relay was stopped and what is queued on the link (part of the canonical state).
func (c *c17Coll) relayState() string {
	qlen := func(conn *connection.Conn) string {
		v := reflect.ValueOf(conn).Elem()
		return fmt.Sprintf("%d/%d/%d", v.FieldByName("recvCh").Len(), v.FieldByName("sendCh").Len(), v.FieldByName("prioritySendCh").Len())
	}
	n := -1 // pool lock held (by a removal that has not finished)
	if c.pool.l.TryRLock() {
		n = len(c.pool.collectors)
		c.pool.l.RUnlock()
	}
	out := fmt.Sprintf("how=%s pool=%d down=%v dials=%d", c.stopKind, n, c.linkDown, c.dials)
	if c.rc != nil {
		out += fmt.Sprintf(" A=%s w%d r%d", qlen(c.connA), len(c.rc.writer.(*RemoteRequestWriter).sender.messageCh), len(c.rc.reader.(*RemoteReportReader).receiver.messageCh))
	}
	rs := c.prs.RemoteSuperior
	rd := rs.reader.(*RemoteRequestReader).receiver
	out += fmt.Sprintf(" B=%s r%d w%d", qlen(rd.conn), len(rd.messageCh), len(rs.writer.(*RemoteReportWriter).sender.messageCh))
	return out
}

// id under which the LocalSuperior knows this collector unit
func (c *c17Coll) ID() uuid.UUID {
	if c.relay {
		return c.rcID
	}
	return c.lc.ID()
}

type c17World struct {
	s     *qsched.Sched
	ls    *LocalSuperior
	colls []*c17Coll
	tasks []*c17Task
	ops   []*qsched.Op
	opDsc []string
	ticks int
	nops  int
	reads int
}

var c17LogOnce sync.Once

func c17TaskID(n int) uuid.UUID {
	h := sha256.Sum256([]byte(fmt.Sprintf("task-%d", n)))
	id, _ := uuid.FromBytes(h[:16])
	return id
}

// c17Topology: "T1" two direct collectors; "T3" one direct collector and one behind a relay
// (RemoteCollector and RemoteSuperior joined by connection.Conn over net.Pipe, keepalive off).
var c17Topology = "T1"

var c17Reconnections, c17RefusedDials int64 // vacuity counters for T3r

// c17ParentAge: how many slots the parent block of a broadcast task lies behind the current slot (1 = fresh tip;
// a stalled chain makes it large, and then the first tick produces that many reports in one burst).
var c17ParentAge = uint64(1)

// attach: what CollectorPool.listenRoutine does with an accepted connection (the listener itself is not driven)
func (c *c17Coll) attach(a net.Conn) {
	// the pool's own connection options (CopyMsg(false)), then what Listener.Accept adds; keep-alive off (harness)
	var copts []connection.Option
	copts = append(copts, c.pool.opts.connOptions...)
	copts = append(copts, connection.WithContext(c.pool.ctx), connection.WithNetConn(a), connection.KeepaliveInterval(0), connection.KeepaliveTimeout(0))
	connA, stopA, err := connection.NewConn(copts...)
	if err != nil {
		vk.Fatalf("connA: %v", err)
	}
	before := map[uuid.UUID]bool{}
	c.pool.l.RLock()
	for id := range c.pool.collectors {
		before[id] = true
	}
	c.pool.l.RUnlock()
	c.pool.addCollectorWithConn(connA, stopA)
	c.pool.l.RLock()
	for id, col := range c.pool.collectors {
		if !before[id] {
			if c.rc != nil {
				c.oldIDs = append(c.oldIDs, c.rcID)
			}
			c.rcID, c.rc = id, col.(*RemoteCollector)
		}
	}
	c.pool.l.RUnlock()
	c.pipeA, c.connA = a, connA
	c.pipes = append(c.pipes, a)
}

// dial: what the far side's (re)dial yields. The first dial and, in topology T3r, every later one succeeds with a
// fresh pipe whose near end is handed to the pool as an accepted connection; with the pool stopped, dials fail.
func (c *c17Coll) dial() (net.Conn, error) {
	c.mu.Lock()
	defer c.mu.Unlock()
	c.dials++
	if c.poolDown {
		atomic.AddInt64(&c17RefusedDials, 1)
		return nil, errors.New("connection refused")
	}
	if c.dials > 1 && c17Topology != "T3r" {
		return nil, errors.New("unreachable")
	}
	a, b := net.Pipe()
	c.attach(a)
	c.pipes = append(c.pipes, b)
	if c.dials > 1 {
		c.redials++
		c.linkDown = false
		atomic.AddInt64(&c17Reconnections, 1)
	}
	return b, nil
}

func (w *c17World) connectRelay() {
	k := &c17Keeper{idx: len(w.colls)}
	pctx, pcancel := context.WithCancel(context.Background())
	c := &c17Coll{keeper: k, relay: true}
	c.pool = &CollectorPool{ctx: pctx, ctxCanceller: pcancel, superior: w.ls, opts: defaultCollectorPoolOptions(),
		collectors: make(map[uuid.UUID]Collector), cancellers: make(map[uuid.UUID]context.CancelFunc)}
	// far side: the miner node's PersistentRemoteSuperior; what its dials yield is decided by c.dial
	prs, prsStop, err := NewPersistentRemoteSuperior(context.Background(), connection.VerifDial(c.dial), connection.KeepaliveTimeout(0))
	if err != nil {
		vk.Fatalf("prs: %v", err)
	}
	c.prs, c.prsStop = prs, prsStop
	c.lc, c.cancel = NewLocalCollector(context.Background(), prs, k)
	w.colls = append(w.colls, c)
}

func c17New() *c17World {
	c17LogOnce.Do(func() {
		logging.Init(filepath.Join(os.Getenv("VERIF_SCRATCH"), "c17logs"), "c17", "fatal", 1, true)
	})
	vtime.Reset(realtime.Unix(c17NowUnix, 0))
	w := &c17World{s: qsched.New(), ls: NewLocalSuperior()}
	if strings.HasPrefix(c17Topology, "T3") {
		w.connectRelay() // collector 0, so that the targeted proof task travels through the relay
		w.connect()
	} else {
		w.connect()
		w.connect()
	}
	w.quiesce()
	return w
}

func (w *c17World) connect() {
	k := &c17Keeper{idx: len(w.colls)}
	lc, cancel := NewLocalCollector(context.Background(), w.ls, k)
	w.colls = append(w.colls, &c17Coll{lc: lc, cancel: cancel, keeper: k})
}

func (w *c17World) quiesce() []qsched.GoroutineInfo {
	b, ok := w.s.Quiesce(20 * realtime.Second)
	if !ok {
		vk.Fatalf("C17: no quiescence; goroutines:\n%s", w.s.LastDump)
	}
	return b
}

func (w *c17World) close() {
	// teardown (not an oracle): keep every waiter reading, stop everything, let timers run out
	for _, t := range w.tasks {
		if t.ch != nil {
			go func(ch chan *CollectorMsg) {
				for range ch {
				}
			}(t.ch)
		}
	}
	var wg sync.WaitGroup
	for _, c := range w.colls {
		c := c
		wg.Add(1)
		go func() {
			if c.relay {
				c.mu.Lock()
				c.poolDown = true
				for _, p := range c.pipes {
					p.Close()
				}
				c.mu.Unlock()
				go c.pool.waitStop()
				go c.prsStop()
			}
			c.cancel()
			wg.Done()
		}()
	}
	done := make(chan struct{})
	go func() { wg.Wait(); close(done) }()
	for i := 0; i < 200; i++ {
		select {
		case <-done:
			i = 1000
		default:
			vtime.FireDue()
			realtime.Sleep(50 * realtime.Microsecond)
		}
	}
	for _, t := range w.tasks {
		if !t.removed && t.ch != nil {
			id := t.id
			go func() {
				defer func() { recover() }()
				w.ls.RemoveTask(id)
			}()
		}
	}
	w.ls.Release()
}

type c17Action struct {
	Kind string // addQ addP remove read connect stopc tick
	N    int
}

func (a c17Action) String() string { return fmt.Sprintf("%s(%d)", a.Kind, a.N) }

func (w *c17World) inFlight() int {
	n := 0
	for _, o := range w.ops {
		if !o.Done() {
			n++
		}
	}
	return n
}

// the collectors' slot tickers (0.75 s) are what "tick" fires; the far side's retry timer (30 s) is what "redial" fires
func c17Short(d vtime.Duration) bool { return d < 10*vtime.Second }
func c17Long(d vtime.Duration) bool  { return d >= 10*vtime.Second }

const (
	c17MaxReads = 3 // explicit single reads by a waiter before the final drain
	c17MaxTasks = 2
	c17MaxColl  = 3
)

func (w *c17World) enabled(budget, maxTicks int) []c17Action {
	var out []c17Action
	if w.nops < budget && w.inFlight() < 2 {
		nq := 0
		for _, t := range w.tasks {
			if t.kind == "Q" {
				nq++
			}
		}
		if nq < c17MaxTasks {
			out = append(out, c17Action{"addQ", len(w.tasks)})
		}
		hasP := false
		for _, t := range w.tasks {
			hasP = hasP || t.kind == "P"
		}
		if !hasP {
			out = append(out, c17Action{"addP", 0})
		}
		for i, t := range w.tasks {
			if !t.removed {
				out = append(out, c17Action{"remove", i})
			}
		}
		if len(w.colls) < c17MaxColl {
			out = append(out, c17Action{"connect", len(w.colls)})
		}
		for i, c := range w.colls {
			if !c.stopped {
				out = append(out, c17Action{"stopc", i})
				if c.relay {
					out = append(out, c17Action{"stopfar", i}, c17Action{"stoppool", i})
					if !c.linkDown {
						out = append(out, c17Action{"droplink", i})
					} else if c17Topology == "T3r" && vtime.PendingWhere(c17Long) > 0 {
						out = append(out, c17Action{"redial", i})
					}
				}
			}
		}
	}
	for i, t := range w.tasks {
		if !t.removed && len(t.ch) > 0 && w.reads < c17MaxReads {
			out = append(out, c17Action{"read", i})
		}
	}
	if w.ticks < maxTicks && vtime.PendingWhere(c17Short) > 0 {
		out = append(out, c17Action{"tick", 0})
	}
	return out
}

func (w *c17World) do(a c17Action) []qsched.GoroutineInfo {
	switch a.Kind {
	case "addQ", "addP":
		n := len(w.tasks)
		t := &c17Task{id: c17TaskID(n), kind: "Q", expected: map[int]bool{}}
		t.challenge = pocutil.Hash(sha256.Sum256([]byte(fmt.Sprintf("challenge-%d", n))))
		var req protocol.Message
		cid := uuid.Nil
		if a.Kind == "addQ" {
			req = &protocol.RequestQualities{TaskID: t.id, Challenge: t.challenge, ParentTarget: big.NewInt(1), ParentSlot: uint64(c17NowUnix)/pocSlot - c17ParentAge, Height: 10}
			for i, c := range w.colls {
				if !c.down() {
					t.expected[i] = true
				}
			}
		} else {
			t.kind = "P"
			t.target = a.N
			cid = w.colls[a.N].ID()
			req = &protocol.RequestProof{TaskID: t.id, Height: 10, SpaceID: "space-0", Challenge: t.challenge, Index: 0}
			if !w.colls[a.N].down() {
				t.expected[a.N] = true
			}
		}
		w.tasks = append(w.tasks, t)
		ls := w.ls
		w.ops = append(w.ops, w.s.Start(a.String(), func() (interface{}, error) {
			t.ch = ls.AddTask(context.Background(), cid, req)
			return nil, nil
		}))
		w.opDsc = append(w.opDsc, a.String())
		w.nops++
	case "remove":
		t := w.tasks[a.N]
		ls := w.ls
		w.ops = append(w.ops, w.s.Start(a.String(), func() (interface{}, error) { ls.RemoveTask(t.id); return nil, nil }))
		w.opDsc = append(w.opDsc, a.String())
		t.removed = true
		w.nops++
	case "read":
		t := w.tasks[a.N]
		w.reads++
		select {
		case m, ok := <-t.ch:
			if ok {
				t.read = append(t.read, m)
			}
		default:
		}
	case "connect":
		w.connect()
		// a collector that connects while a broadcast task is current must receive it
		for _, t := range w.tasks {
			if t.kind == "Q" && !t.removed && w.ls.latestTask != nil && w.ls.latestTask.ID() == t.id {
				t.expected[len(w.colls)-1] = true
			}
		}
		w.nops++
	case "droplink", "stopfar", "stoppool", "stopc":
		c := w.colls[a.N]
		kind := a.Kind
		c.mu.Lock()
		if kind == "droplink" && c17Topology == "T3r" {
			c.linkDown = true // the far side will redial
		} else {
			c.stopped = true
			c.linkDown = c.linkDown || kind == "droplink"
		}
		c.poolDown = c.poolDown || kind == "stoppool"
		c.stopKind = kind
		c.mu.Unlock()
		c.stopOp = w.s.Start(a.String(), func() (interface{}, error) {
			switch kind {
			case "droplink":
				c.pipeA.Close() // the connection is lost
			case "stopfar":
				c.prsStop() // the node behind the relay stops its superior
			case "stoppool":
				c.pool.waitStop() // the superior's node stops its collector pool
			default:
				c.cancel() // the (local or far) collector is stopped
			}
			return nil, nil
		})
		w.ops = append(w.ops, c.stopOp)
		w.opDsc = append(w.opDsc, a.String())
		w.nops++
	case "redial":
		// time passes until the far side's retry timer has fired and it has dialled again (a stale retry timer
		// armed before an earlier successful dial may come first)
		c := w.colls[a.N]
		c.mu.Lock()
		before, re := c.dials, c.redials
		c.mu.Unlock()
		for i := 0; i < 4; i++ {
			if vtime.FireDueWhere(c17Long) == 0 {
				break
			}
			w.quiesce()
			c.mu.Lock()
			now := c.dials
			c.mu.Unlock()
			if now > before {
				break
			}
		}
		w.quiesce()
		c.mu.Lock()
		again := c.redials > re
		c.mu.Unlock()
		if again {
			// the relay is a collector that connects while a broadcast task is current
			for _, t := range w.tasks {
				if t.kind == "Q" && !t.removed && w.ls.latestTask != nil && w.ls.latestTask.ID() == t.id {
					t.expected[a.N] = true
				}
			}
		}
		w.nops++
	case "tick":
		vtime.FireDueWhere(c17Short)
		w.ticks++
	}
	return w.quiesce()
}

func (w *c17World) key(blocked []qsched.GoroutineInfo, budget int) string {
	var sb strings.Builder
	for i, t := range w.tasks {
		l := -1
		if t.ch != nil {
			l = len(t.ch)
		}
		fmt.Fprintf(&sb, "t%d{%s rm=%v len=%d read=%d} ", i, t.kind, t.removed, l, len(t.read))
	}
	lt := "nil"
	if w.ls.latestTask != nil {
		for i, t := range w.tasks {
			if t.id == w.ls.latestTask.ID() {
				lt = fmt.Sprint(i)
			}
		}
	}
	fmt.Fprintf(&sb, "latest=%s regs=%d ", lt, len(w.ls.collectors))
	for i, c := range w.colls {
		c.keeper.mu.Lock()
		fmt.Fprintf(&sb, "c%d{stop=%v req=%d calls=%d} ", i, c.stopped, len(c.lc.requestCh), len(c.keeper.calls))
		c.keeper.mu.Unlock()
	}
	var pend []string
	for i, o := range w.ops {
		if !o.Done() {
			pend = append(pend, w.opDsc[i])
		}
	}
	// where every blocked goroutine of the system stands: innermost fractal function + wait reason
	var bl []string
	for _, g := range blocked {
		for _, ln := range strings.Split(g.Stack, "\n") {
			if strings.HasPrefix(ln, "massnet.org/mass/fractal") {
				if i := strings.LastIndex(ln, "("); i > 0 {
					ln = ln[:i]
				}
				bl = append(bl, strings.TrimPrefix(ln, "massnet.org/mass/fractal")+":"+g.Reason)
				break
			}
		}
	}
	sort.Strings(bl)
	for i, c := range w.colls {
		if c.relay {
			fmt.Fprintf(&sb, "relay%d{%s} ", i, c.relayState())
		}
	}
	fmt.Fprintf(&sb, "pend=%v timers=%d ticks=%d left=%d reads=%d blocked=%v", pend, len(vtime.Pending()), w.ticks, budget-w.nops, w.reads, bl)
	return sb.String()
}

// ---------------------------------------------------------------- oracle

type c17Replay struct {
	Actions  []string `json:"actions"`
	Budget   int      `json:"budget"`
	Ticks    int      `json:"max_ticks"`
	Topology string   `json:"topology,omitempty"`
	Age      uint64   `json:"parent_age_slots,omitempty"`
}

type c17Ctx struct {
	r             *vk.Run
	budget, ticks int
	acts          []c17Action
	actID         map[string]int
	terminals     int64
	divergences   int64
	reportsRead   int64
	deliveries    int64
	outcomes      map[string]bool
}

func (c *c17Ctx) id(a c17Action) int {
	if id, ok := c.actID[a.String()]; ok {
		return id
	}
	c.acts = append(c.acts, a)
	c.actID[a.String()] = len(c.acts) - 1
	return len(c.acts) - 1
}

func (c *c17Ctx) names(hist []int, op int) []string {
	var out []string
	for _, h := range hist {
		out = append(out, c.acts[h].String())
	}
	if op >= 0 {
		out = append(out, c.acts[op].String())
	}
	return out
}

func (c *c17Ctx) viol(clause, site, msg string, hist []int, op int) {
	c.r.Violation("C17/"+clause+"/"+site, fmt.Sprintf("%s after %v", msg, c.names(hist, op)), c17Replay{c.names(hist, op), c.budget, c.ticks, c17Topology, c17ParentAge})
}

// checkMessages: D2 - every message read belongs to its task, names the producing collector, is in slot order per collector.
func (c *c17Ctx) checkMessages(w *c17World, hist []int, op int) bool {
	for ti, t := range w.tasks {
		lastSlot := map[uuid.UUID]uint64{}
		for _, m := range t.read {
			if m.Msg.ID() != t.id {
				c.viol("report-delivered-to-wrong-task", t.kind, fmt.Sprintf("waiter of task %d read a report for task %s", ti, m.Msg.ID()), hist, op)
				return false
			}
			ci := -1
			for i, col := range w.colls {
				if col.knows(m.CollectorID) {
					ci = i
				}
			}
			if ci < 0 {
				c.viol("report-with-unknown-collector", t.kind, "report tagged with an id of no collector", hist, op)
				return false
			}
			switch msg := m.Msg.(type) {
			case *protocol.ReportQualities:
				if t.kind != "Q" {
					c.viol("report-type", t.kind, "qualities report delivered to a proof task", hist, op)
					return false
				}
				for _, q := range msg.Qualities {
					want := sha256.Sum256([]byte(fmt.Sprintf("quality-%d-%x", ci, t.challenge[:4])))
					if q.SpaceID != fmt.Sprintf("space-%d", ci) || string(q.Quality) != string(want[:]) {
						c.viol("report-modified-or-mistagged", "Q", fmt.Sprintf("report tagged with collector %d carries content produced by another collector or task", ci), hist, op)
						return false
					}
					// a relay that has reconnected is sent the current task again and its collector starts it over (slots
					// repeat, and a straggler of the cancelled run may land among them): order and completeness are judged
					// on the sequence delivered under the relay's first id only
					if col := w.colls[ci]; col.relay && len(col.oldIDs) > 0 && m.CollectorID != col.oldIDs[0] {
						continue
					}
					if q.Slot <= lastSlot[m.CollectorID] && lastSlot[m.CollectorID] != 0 {
						c.viol("reports-out-of-order", "Q", fmt.Sprintf("collector %d: slot %d after slot %d", ci, q.Slot, lastSlot[m.CollectorID]), hist, op)
						return false
					}
					// every slot is over the (tiny) target, so a collector's reports are the slots ParentSlot+1, +2, ...
					// one after the other: what the waiter has read from it so far is a gap-free prefix of that sequence
					// (while the collector and its connection are up: once a stop or a drop is under way, each stage picks
					// between its cancelled context and the next report at random, and a report may be lost - never reordered)
					prev := lastSlot[m.CollectorID]
					if prev == 0 {
						prev = uint64(c17NowUnix)/pocSlot - c17ParentAge
					}
					if q.Slot != prev+1 && !w.colls[ci].down() && w.colls[ci].ID() == m.CollectorID {
						c.viol("report-lost", "Q", fmt.Sprintf("collector %d: the report for slot %d was not delivered before the one for slot %d", ci, prev+1, q.Slot), hist, op)
						return false
					}
					lastSlot[m.CollectorID] = q.Slot
				}
			case *protocol.ReportProof:
				if t.kind != "P" || ci != t.target {
					c.viol("report-type", t.kind, "proof report delivered to the wrong task or from the wrong collector", hist, op)
					return false
				}
			}
		}
	}
	return true
}

// terminal: no action left. Drain with every waiter reading: D1 (delivery exactly once to the
// right collectors), D3 (nothing after removal), D4/D5 (no call pending, reports of read tasks arrive).
func (c *c17Ctx) terminal(w *c17World, hist []int, op int) {
	c.terminals++
	// D4/D5 first, in the state as it is (waiters may have stopped reading): a RemoveTask or stop that is
	// pending now is reported only if it is still pending after the waiters of NON-removed tasks read everything.
	for round := 0; round < 40; round++ {
		progress := false
		for _, t := range w.tasks {
			if t.removed || t.ch == nil {
				continue
			}
			for len(t.ch) > 0 {
				select {
				case m, ok := <-t.ch:
					if ok {
						t.read = append(t.read, m)
						progress = true
					}
				default:
				}
			}
		}
		w.quiesce()
		if !progress {
			break
		}
	}
	// the collector pool must stay usable whatever happened to one of its connections
	for i, col := range w.colls {
		if col.relay {
			pool := col.pool
			w.ops = append(w.ops, w.s.Start(fmt.Sprintf("poolCount(%d)", i), func() (interface{}, error) { return pool.Count(), nil }))
			w.opDsc = append(w.opDsc, fmt.Sprintf("poolCount(%d)", i))
		}
	}
	blocked := w.quiesce()
	var pend []string
	for i, o := range w.ops {
		if o.Pan != "" {
			c.viol("panic", vk.PanicSite(o.Pan), "panic in "+w.opDsc[i]+": "+o.Pan[:min(300, len(o.Pan))], hist, op)
			return
		}
		if !o.Done() {
			pend = append(pend, strings.SplitN(w.opDsc[i], "(", 2)[0])
		}
	}
	if len(pend) > 0 {
		sort.Strings(pend)
		site := "unknown"
		for _, g := range blocked {
			if strings.Contains(g.Stack, "submitCollectorMsg") && (g.Reason == "select" || g.Reason == "chan send") {
				site = "report-blocked-on-full-result-channel-under-taskCacheLock"
			}
		}
		for _, g := range blocked {
			if strings.Contains(g.Stack, "connection.(*Conn).receiveRoutine") && g.Reason == "chan send" && site == "unknown" {
				site = "connection-stop-waits-for-receive-routine-blocked-on-full-receive-queue"
			}
		}
		c.viol("call-never-returns", site, fmt.Sprintf("calls still blocked although every waiter of a live task has read everything: %v", pend), hist, op)
		c.outcomes["blocked:"+strings.Join(pend, "+")] = true
		return
	}
	if !c.checkMessages(w, hist, op) {
		return
	}
	// D1: keeper calls
	for ti, t := range w.tasks {
		if t.ch == nil {
			continue
		}
		for ci, col := range w.colls {
			n := 0
			col.keeper.mu.Lock()
			for _, call := range col.keeper.calls {
				if call.challenge == t.challenge {
					n++
				}
			}
			col.keeper.mu.Unlock()
			if n > 1 && !(t.kind == "Q" && n <= 1+col.redials) { // a relay that reconnects is sent the current broadcast task again
				c.viol("task-delivered-twice", t.kind, fmt.Sprintf("task %d reached the keeper of collector %d %d times", ti, ci, n), hist, op)
				return
			}
			if n == 1 && !t.expected[ci] && !(t.kind == "Q") {
				c.viol("targeted-task-reached-other-collector", t.kind, fmt.Sprintf("task %d (for collector %d) reached collector %d", ti, t.target, ci), hist, op)
				return
			}
			if n == 0 && t.expected[ci] && !col.down() && !t.removed {
				c.viol("task-not-delivered", t.kind, fmt.Sprintf("task %d never reached the keeper of connected collector %d", ti, ci), hist, op)
				return
			}
			c.deliveries += int64(n)
			// a proof request that reached the target's keeper is answered with exactly one report, and with
			// nothing pending and the waiter having read everything that report has been delivered
			if t.kind == "P" && ci == t.target && !t.removed {
				got := 0
				for _, m := range t.read {
					if _, ok := m.Msg.(*protocol.ReportProof); ok {
						got++
					}
				}
				if got > 1 || (got == 0 && n == 1 && !col.down() && col.redials == 0) {
					c.viol("proof-report-count", "P", fmt.Sprintf("the keeper of collector %d answered the proof request %d time(s); its waiter received %d report(s)", ci, n, got), hist, op)
					return
				}
			}
		}
		c.reportsRead += int64(len(t.read))
	}
	c.outcomes[fmt.Sprintf("tasks=%d colls=%d", len(w.tasks), len(w.colls))] = true
}

// try: goroutines woken by the same virtual instant (two collectors' tickers) race for the
// superior's task lock in real time; a replay that resolves such a race differently is
// repeated, and recorded as unexplored (cap, not a verdict) if it cannot be reproduced.
func (c *c17Ctx) try(hist []int, op int) (key string, ops []int, expand bool) {
	for attempt := 0; attempt < 30; attempt++ {
		var div bool
		key, ops, expand, div = c.try1(hist, op)
		if !div {
			return
		}
		c.divergences++
	}
	c.r.Cap("a history through a real-time race between two collectors could not be reproduced in 30 replays; its subtree is unexplored")
	return "", nil, false
}

func (c *c17Ctx) try1(hist []int, op int) (string, []int, bool, bool) {
	w := c17New()
	defer w.close()
	all := append(append([]int{}, hist...), op)
	var blocked []qsched.GoroutineInfo
	for _, id := range all {
		a := c.acts[id]
		en := false
		for _, e := range w.enabled(c.budget, c.ticks) {
			if e.String() == a.String() {
				en = true
			}
		}
		if !en {
			return "", nil, false, true
		}
		blocked = w.do(a)
	}
	for i, o := range w.ops {
		if o.Pan != "" {
			c.viol("panic", vk.PanicSite(o.Pan), "panic in "+w.opDsc[i]+": "+o.Pan[:min(300, len(o.Pan))], hist, op)
			return "", nil, false, false
		}
	}
	// D3: nothing is delivered to a removed task (its channel is closed: reads return !ok; sends would panic)
	if !c.checkMessages(w, hist, op) {
		return "", nil, false, false
	}
	en := w.enabled(c.budget, c.ticks)
	key := w.key(blocked, c.budget)
	if len(en) == 0 {
		c.terminal(w, hist, op)
		return key, nil, false, false
	}
	var ops []int
	for _, e := range en {
		ops = append(ops, c.id(e))
	}
	return key, ops, true, false
}

func TestVerifC17(t *testing.T) {
	r := vk.Start("C17", "model_checking")
	if p := r.ReplayPath(); p != "" {
		var rp c17Replay
		vk.LoadReplay(p, &rp)
		if rp.Topology != "" {
			c17Topology = rp.Topology
		}
		if rp.Age != 0 {
			c17ParentAge = rp.Age
		}
		c := &c17Ctx{r: r, budget: rp.Budget, ticks: rp.Ticks, actID: map[string]int{}, outcomes: map[string]bool{}}
		w := c17New()
		var ids []int
		for _, name := range rp.Actions {
			for _, e := range w.enabled(c.budget, c.ticks) {
				if e.String() == name {
					ids = append(ids, c.id(e))
					w.do(e)
				}
			}
		}
		w.close()
		for i := range ids {
			c.try(ids[:i], ids[i])
		}
		r.Finish("replay")
	}
	r.Assume("topologies: T1 = LocalSuperior with 2 LocalCollectors (+1 connecting late); T3 = LocalSuperior with 1 LocalCollector and 1 relay (RemoteCollector = connection.Conn over net.Pipe = RemoteSuperior with its own LocalCollector; keepalive off), +1 direct collector connecting late; all over scripted keepers; PersistentRemoteSuperior redial, the TCP listener/dialer and pool.go are not driven",
		"virtual time for the collectors' slot tickers (time import of collector.go rewritten); ParentTarget tiny so that every slot reports; result and request channels keep their real capacity 10",
		"operation budget and tick bound per topology as recorded; at most 2 calls in flight")
	type topo struct {
		name, topology string
		age            uint64
		budget, ticks  int
	}
	topos := []topo{{"T1", "T1", 1, vk.Pick(r, 4, 5), vk.Pick(r, 3, 4)}, {"T3", "T3", 1, vk.Pick(r, 3, 4), vk.Pick(r, 2, 3)},
		{"T3stalled", "T3", 40, vk.Pick(r, 3, 3), vk.Pick(r, 1, 2)}, {"T3r", "T3r", 1, vk.Pick(r, 3, 4), vk.Pick(r, 1, 2)}}
	if only := os.Getenv("VERIF_C17_TOPO"); only != "" {
		var f []topo
		for _, t := range topos {
			if t.name == only {
				f = append(f, t)
			}
		}
		topos = f
	}
	idx, n, child := r.Shard()
	if !child {
		r.PanicIsViolation = true
		r.RunShards(3*vk.Workers(), 1) // more shards than cores: subtree sizes differ by orders of magnitude
		r.Finish("explicit-state search over the real LocalSuperior/LocalCollector/RemoteCollector/RemoteSuperior/connection code: actions = add a broadcast qualities task (<=2), add a targeted proof task, remove a task, a waiter reads one report, connect a collector, stop a collector (for the relay: stop its superior-side end, stop its far end, or drop the link), fire the next virtual timer; every order explored with canonical-state pruning; in every state reports read so far belong to their task, carry the producing collector's tag and content and are in slot order per collector; at terminal states every live waiter drains its channel and then no call may be pending (RemoveTask / collector stop return), each task reached the keeper of every collector connected while it was current exactly once and a targeted task only its target, nothing panicked")
	}
	var states, trans, terminals, reports, deliveries int64
	outcomes := map[string]bool{}
	unit := 0
	for _, tp := range topos {
		c17Topology, c17ParentAge = tp.topology, tp.age
		budget, ticks := tp.budget, tp.ticks
		w0 := c17New()
		first := w0.enabled(budget, ticks)
		initKey := w0.key(nil, budget)
		w0.close()
		var tStates int64
		for fi := range first {
			// second level: one unit of work per (first, second) action pair
			w1 := c17New()
			w1.do(first[fi])
			second := w1.enabled(budget, ticks)
			w1.close()
			for si := -1; si < len(second); si++ {
				if si == -1 && len(second) > 0 {
					continue
				}
				unit++
				if unit%n != idx {
					continue
				}
				c := &c17Ctx{r: r, budget: budget, ticks: ticks, actID: map[string]int{}, outcomes: outcomes}
				for _, e := range first {
					c.id(e)
				}
				spec := seqx.Spec{Depth: 40, InitKey: initKey, InitOps: []int{c.id(first[fi])}, Stop: r.Expired}
				only := ""
				if si >= 0 {
					only = second[si].String()
				}
				spec.Try = func(hist []int, op int) (string, []int, bool) {
					if len(hist) == 1 && only != "" && c.acts[op].String() != only {
						return "", nil, false // another unit explores this subtree
					}
					r.Eval(1)
					return c.try(hist, op)
				}
				res := seqx.Explore(spec)
				if !res.Complete {
					r.Cap("deadline hit in " + tp.name + " subtree " + first[fi].String() + " " + only)
				}
				states += int64(res.States)
				tStates += int64(res.States)
				trans += res.Transitions
				terminals += c.terminals
				reports += c.reportsRead
				deliveries += c.deliveries
			}
		}
		r.Set("states_"+tp.name, tStates)
		r.Set("bounds_"+tp.name, fmt.Sprintf("operation budget %d, timer firings %d, parent block %d slot(s) old", budget, ticks, tp.age))
	}
	r.Sample(map[string]interface{}{"schedule": []string{"addQ(0)", "tick(0)", "read(0)", "connect(2)", "tick(0)", "addP(0)", "remove(0)", "stopc(1)"}})
	r.Set("relay_reconnections_executed", atomic.LoadInt64(&c17Reconnections))
	r.Set("relay_dials_refused", atomic.LoadInt64(&c17RefusedDials))
	r.Set("states", states)
	r.Set("transitions", trans)
	r.Set("traces_validated_against_impl", trans)
	r.Set("terminal_executions_drained", terminals)
	r.Set("reports_read_by_waiters", reports)
	r.Set("task_deliveries_to_keepers", deliveries)
	r.DistinctN(int(states))
	r.Finish("child")
}
