//go:build go1.21

package capacity

// Keeper harness K (C09, C13): the real capacity.SpaceKeeper with a fake plot
// database, driven by the quiescence scheduler: API calls, plotter gates (H3)
// and plot outcomes are the actions; every action order is explored with
// canonical-state pruning.

import (
	"context"
	"crypto/sha256"
	"fmt"
	"massnet.org/mass/zz_verif/vsync"
	"os"
	"path/filepath"
	"regexp"
	"runtime"
	"sort"
	"strings"
	"sync"
	"time"

	"github.com/massnetorg/mass-core/logging"
	"github.com/massnetorg/mass-core/massutil/service"
	"github.com/massnetorg/mass-core/poc"
	"github.com/massnetorg/mass-core/poc/pocutil"
	"github.com/massnetorg/mass-core/pocec"
	"github.com/panjf2000/ants/v2"
	"massnet.org/mass/poc/engine"
	"massnet.org/mass/zz_verif/qsched"
	"massnet.org/mass/zz_verif/vk"
)

// ---------------------------------------------------------------- fake plot database

type kDB struct {
	mu       sync.Mutex
	pk       *pocec.PublicKey
	bl       int
	progress float64
	plotting bool
	stopCh   chan struct{}
	evCh     chan string
	wg       sync.WaitGroup
	deleted  bool
	plots    int
}

func (d *kDB) Type() string { return "verif.fake" }
func (d *kDB) Close() error { <-d.StopPlot(); return nil }
func (d *kDB) Plot() chan error {
	res := make(chan error, 1)
	d.mu.Lock()
	if d.plotting {
		d.mu.Unlock()
		res <- fmt.Errorf("already plotting")
		return res
	}
	if d.progress >= 100 {
		d.mu.Unlock()
		res <- nil
		return res
	}
	d.plotting = true
	d.plots++
	d.stopCh = make(chan struct{})
	d.evCh = make(chan string)
	stop, ev := d.stopCh, d.evCh
	d.wg.Add(1)
	d.mu.Unlock()
	go func() {
		select {
		case e := <-ev:
			d.mu.Lock()
			if e == "done" {
				d.progress = 100
			} else {
				d.progress = 40
			}
			d.mu.Unlock()
		case <-stop:
			// stopped during its very last window: anything below 100 is an unfinished plot
			d.mu.Lock()
			d.progress = 99.9999
			d.mu.Unlock()
		}
		d.mu.Lock()
		d.plotting = false
		d.mu.Unlock()
		res <- nil
		d.wg.Done()
	}()
	return res
}
func (d *kDB) StopPlot() chan error {
	res := make(chan error, 1)
	d.mu.Lock()
	if !d.plotting {
		d.mu.Unlock()
		res <- nil
		return res
	}
	stop := d.stopCh
	d.mu.Unlock()
	go func() {
		func() {
			defer func() { recover() }() // a second StopPlot may find the channel closed already (as in massdb.v1 it would panic: reported separately)
			close(stop)
		}()
		d.wg.Wait()
		res <- nil
	}()
	return res
}
func (d *kDB) Ready() bool              { _, p, _ := d.Progress(); return p }
func (d *kDB) BitLength() int           { return d.bl }
func (d *kDB) PubKeyHash() pocutil.Hash { return pocutil.PubKeyHash(d.pk) }
func (d *kDB) PubKey() *pocec.PublicKey { return d.pk }
func (d *kDB) GetProof(challenge pocutil.Hash, filter bool) (*poc.DefaultProof, error) {
	return &poc.DefaultProof{X: []byte{1}, XPrime: []byte{2}, BL: d.bl}, nil
}
func (d *kDB) Progress() (bool, bool, float64) {
	d.mu.Lock()
	defer d.mu.Unlock()
	return d.progress >= 50, d.progress >= 100, d.progress
}
func (d *kDB) Delete() chan error {
	res := make(chan error, 1)
	d.mu.Lock()
	defer d.mu.Unlock()
	if d.plotting {
		res <- fmt.Errorf("already plotting")
		return res
	}
	d.deleted = true
	res <- nil
	return res
}

type kWallet struct{}

func (kWallet) GenerateNewPublicKey() (*pocec.PublicKey, uint32, error) {
	return nil, 0, fmt.Errorf("not available")
}
func (kWallet) GetPublicKeyOrdinal(*pocec.PublicKey) (uint32, bool) { return 0, false }
func (kWallet) SignMessage(pubKey *pocec.PublicKey, hash []byte) (*pocec.Signature, error) {
	return nil, fmt.Errorf("not available")
}
func (kWallet) Unlock(password []byte) error { return nil }
func (kWallet) Lock()                        {}
func (kWallet) IsLocked() bool               { return false }

func kKey(i int) *pocec.PublicKey {
	h := sha256.Sum256([]byte(fmt.Sprintf("verif-keeper-key-%d", i)))
	_, pk := pocec.PrivKeyFromBytes(pocec.S256(), h[:])
	return pk
}

// ---------------------------------------------------------------- system under test

var kNames = []string{"a", "b", "c"}

type kSys struct {
	s      *qsched.Sched
	sk     *SpaceKeeper
	ws     []*WorkSpace
	db     []*kDB
	sid    map[string]int
	ops    []*qsched.Op // in-flight or finished operations, in issue order
	opDesc []string
	// monitors
	stopped []bool // sticky-stop monitor per workspace
	stopVia []string
	// progress of the space's database at the moment its last stop returned
	stopProgress []float64
	prevState    []string
	issued       int
	stopOp       *qsched.Op
	// lock gates (scenarios with LockGates): every acquisition of the state lock by an operation goroutine is a
	// scheduling point "lock:<operation>/<n>#<k>:<Lock|RLock>"
	gmu sync.Mutex
	// probe "queue-lock": the plot queue changed while the harness held the queue's own mutex
	probeMutated bool
	probeNote    string
	opOf         map[string]string // goroutine id -> operation instance
	lockN        map[string]int
	gating       bool
}

var kGoidRe = regexp.MustCompile(`^goroutine (\d+) `)

func kGoid() string {
	buf := make([]byte, 64)
	buf = buf[:runtime.Stack(buf, false)]
	if m := kGoidRe.FindSubmatch(buf); m != nil {
		return string(m[1])
	}
	return ""
}

// kLockGates: set before kNew by the scenario runner.
var kLockGates bool

var kLogOnce sync.Once

func kNew(initial string, chanCap int) *kSys {
	kLogOnce.Do(func() {
		logging.Init(filepath.Join(os.Getenv("VERIF_SCRATCH"), "klogs"), "k", "fatal", 1, true)
	})
	k := &kSys{s: qsched.New(), sid: map[string]int{}, opOf: map[string]string{}, lockN: map[string]int{}, gating: kLockGates}
	if k.gating {
		vsync.SetHook(func(kind string) {
			if kind == "Mutex.Lock" {
				return // the plot queue's own mutex: not a scheduling point
			}
			id := kGoid()
			k.gmu.Lock()
			name, ok := k.opOf[id]
			n := k.lockN[id]
			if ok {
				k.lockN[id] = n + 1
			}
			k.gmu.Unlock()
			if ok {
				k.s.Gate(fmt.Sprintf("lock:%s#%d:%s", name, n, kind))
			}
		})
	} else {
		vsync.SetHook(nil)
	}
	pool, err := ants.NewPool(4)
	if err != nil {
		vk.Fatalf("ants pool: %v", err)
	}
	sk := &SpaceKeeper{
		dbDirs:               []string{"/verif-fake"},
		dbType:               "verif.fake",
		wallet:               kWallet{},
		workSpaceIndex:       make([]*WorkSpaceMap, 0),
		workSpacePaths:       make(map[string]*WorkSpacePath),
		workSpaceList:        make([]*WorkSpace, 0),
		queue:                newPlotterQueue(),
		newQueuedWorkSpaceCh: make(chan *queuedWorkSpace, chanCap),
		workerPool:           pool,
		fileWatcher:          func() {},
	}
	sk.BaseService = service.NewBaseService(sk, TypeSpaceKeeperV1)
	sk.generateInitialIndex = func() error { return nil }
	for s := engine.FirstState; s <= allState; s++ {
		sk.workSpaceIndex = append(sk.workSpaceIndex, NewWorkSpaceMap())
	}
	for i, c := range initial {
		db := &kDB{pk: kKey(i), bl: 24}
		st := engine.Registered
		if c == 'Y' {
			db.progress = 100
			st = engine.Ready
		}
		ws := &WorkSpace{db: db, state: st, id: NewSpaceID(int64(i), db.pk, 24), rootDir: "/verif-fake"}
		sk.addWorkSpaceToIndex(ws)
		sk.useWorkSpace(ws)
		k.ws = append(k.ws, ws)
		k.db = append(k.db, db)
		k.sid[ws.id.String()] = i
		k.stopped = append(k.stopped, false)
		k.stopVia = append(k.stopVia, "")
		k.stopProgress = append(k.stopProgress, 0)
	}
	k.sk = sk
	VerifGate = func(x *SpaceKeeper, name string) {
		if x == sk {
			k.s.Gate(name)
		}
	}
	if err := sk.Start(); err != nil {
		vk.Fatalf("keeper start: %v", err)
	}
	k.quiesce()
	if len(k.s.Parked()) == 0 {
		vk.Fatalf("plotter did not reach its first gate; goroutines:\n%s", k.s.LastDump)
	}
	k.prevState = k.wsStates()
	return k
}

func (k *kSys) quiesce() []qsched.GoroutineInfo {
	b, ok := k.s.Quiesce(20 * time.Second)
	if !ok {
		vk.Fatalf("no quiescence within 20s; goroutines:\n%s", k.s.LastDump)
	}
	return b
}

func (k *kSys) close() {
	// tear down: let everything run out. Calls parked at a lock gate stay parked until the plotter has exited
	// (teardown is free-running; it must not create interleavings of its own between calls and the plotter).
	staged := k.gating && len(k.s.Parked()) > 0
	if staged {
		k.s.Open(func(name string) bool { return !strings.HasPrefix(name, "lock:") })
	} else {
		k.s.Deactivate()
	}
	defer k.s.Deactivate()
	abortPlots := func() {
		for _, d := range k.db {
			d.mu.Lock()
			ev := d.evCh
			pl := d.plotting
			d.mu.Unlock()
			if pl {
				select {
				case ev <- "abort":
				default:
				}
			}
		}
	}
	abortPlots()
	// teardown only: dissolve a deadlocked instance by draining the request channel, so that
	// its blocked senders return, release the state lock and every goroutine can exit
	drainDone := make(chan struct{})
	defer close(drainDone)
	go func() {
		for {
			select {
			case <-k.sk.newQueuedWorkSpaceCh:
			case <-drainDone:
				return
			}
		}
	}()
	if k.stopOp != nil && !k.stopOp.Done() {
		for i := 0; i < 300 && !k.stopOp.Done(); i++ {
			time.Sleep(time.Millisecond)
			abortPlots()
		}
	}
	if k.sk.Started() {
		done := make(chan struct{})
		go func() { k.sk.Stop(); close(done) }()
		// teardown only (not an oracle): a plot may start after the stop request; keep aborting
	wait:
		for i := 0; i < 300; i++ {
			select {
			case <-done:
				break wait
			case <-time.After(time.Millisecond):
				abortPlots()
			}
		}
	}
	k.s.Deactivate()
	for i := 0; i < 300 && k.inFlight() > 0; i++ {
		time.Sleep(time.Millisecond)
	}
	k.sk.workerPool.Release()
	VerifGate = nil
}

func (k *kSys) wsStates() []string {
	out := make([]string, len(k.ws))
	for i, ws := range k.ws {
		u := "-"
		if ws.using {
			u = "u"
		}
		out[i] = ws.state.String() + u
	}
	return out
}

// ---------------------------------------------------------------- actions

type kAction struct {
	Kind string // "op", "gate", "env", "kstop"
	Op   string // plot|mine|stop|remove|delete|plotall|mineall|stopall|removeall|deleteall
	WS   int
	Name string // gate name / env event
}

func (a kAction) String() string {
	switch a.Kind {
	case "op":
		if a.WS >= 0 {
			return a.Op + "(" + kNames[a.WS] + ")"
		}
		return a.Op + "()"
	case "gate":
		return "gate:" + a.Name
	case "env":
		return "plot-" + a.Name
	case "kstop":
		return "keeper.Stop()"
	case "probe":
		return "probe:" + a.Name
	}
	return a.Kind
}

func (k *kSys) inFlight() int {
	n := 0
	for _, o := range k.ops {
		if !o.Done() {
			n++
		}
	}
	return n
}

func (k *kSys) plottingDB() int {
	for i, d := range k.db {
		d.mu.Lock()
		p := d.plotting
		d.mu.Unlock()
		if p {
			return i
		}
	}
	return -1
}

// do performs one action and waits for quiescence.
func (k *kSys) do(a kAction) []qsched.GoroutineInfo {
	switch a.Kind {
	case "op":
		var fn func() (interface{}, error)
		sk := k.sk
		flags := engine.SFAll
		switch a.Op {
		case "plot", "mine", "stop", "remove", "delete":
			sid := k.ws[a.WS].id.String()
			act := map[string]engine.ActionType{"plot": engine.Plot, "mine": engine.Mine, "stop": engine.Stop, "remove": engine.Remove, "delete": engine.Delete}[a.Op]
			fn = func() (interface{}, error) { return nil, sk.ActOnWorkSpace(sid, act) }
			if a.Op == "plot" || a.Op == "mine" {
				k.stopped[a.WS] = false
			}
		default:
			act := map[string]engine.ActionType{"plotall": engine.Plot, "mineall": engine.Mine, "stopall": engine.Stop, "removeall": engine.Remove, "deleteall": engine.Delete}[a.Op]
			fn = func() (interface{}, error) { return sk.ActOnWorkSpaces(flags, act) }
			if a.Op == "plotall" || a.Op == "mineall" {
				for i := range k.stopped {
					k.stopped[i] = false
				}
			}
		}
		inst := fmt.Sprintf("%s/%d", a.String(), k.issued)
		inner := fn
		fn = func() (interface{}, error) {
			if k.gating {
				id := kGoid()
				k.gmu.Lock()
				k.opOf[id] = inst
				k.gmu.Unlock()
				defer func() {
					k.gmu.Lock()
					delete(k.opOf, id)
					k.gmu.Unlock()
				}()
			}
			return inner()
		}
		k.ops = append(k.ops, k.s.Start(a.String(), fn))
		k.opDesc = append(k.opDesc, a.String())
		k.issued++
	case "gate":
		if !k.s.Release(a.Name) {
			vk.Fatalf("gate %s not parked", a.Name)
		}
	case "env":
		i := k.plottingDB()
		if i < 0 {
			vk.Fatalf("no plot in progress for event %s", a.Name)
		}
		k.db[i].mu.Lock()
		ev := k.db[i].evCh
		k.db[i].mu.Unlock()
		ev <- a.Name
	case "probe":
		// Lock-discipline probe (deterministic; nothing is inferred from timing): plotterQueue.Delete - called by
		// StopWS/RemoveWS/DeleteWS from API goroutines - rebuilds the queue while holding the queue's mutex. The harness
		// takes that mutex in its place and lets a plot request reach a plotter that waits in its idle select. If the
		// plotter took the mutex for its Push it would block and the queue would keep its size.
		sk := k.sk
		q := sk.queue
		q.Lock()
		before := q.Prque.Size()
		sid := k.ws[0].id.String()
		k.ops = append(k.ops, k.s.Start("plot(a)", func() (interface{}, error) { return nil, sk.ActOnWorkSpace(sid, engine.Plot) }))
		k.opDesc = append(k.opDesc, "plot(a)")
		k.issued++
		k.quiesce()
		after := q.Prque.Size()
		q.Unlock()
		k.probeMutated = after != before
		k.probeNote = fmt.Sprintf("queue size %d -> %d while the harness held plotterQueue's mutex", before, after)
	case "kstop":
		sk := k.sk
		k.stopOp = k.s.Start("keeper.Stop", func() (interface{}, error) { return nil, sk.Stop() })
	}
	return k.quiesce()
}

// enabled actions at the current quiescent state, canonical order.
func (k *kSys) enabled(alphabet []kAction, budget int) []kAction {
	var out []kAction
	if k.stopOp == nil && k.issued < budget && k.inFlight() < 2 {
		for _, a := range alphabet {
			if a.WS >= 0 && a.WS >= len(k.ws) {
				continue
			}
			if a.Kind == "kstop" && !k.sk.Started() {
				continue
			}
			out = append(out, a)
		}
	}
	seen := map[string]bool{}
	for _, g := range k.s.Parked() {
		if !seen[g] {
			seen[g] = true
			out = append(out, kAction{Kind: "gate", Name: g, WS: -1})
		}
	}
	if k.plottingDB() >= 0 {
		out = append(out, kAction{Kind: "env", Name: "done", WS: -1}, kAction{Kind: "env", Name: "abort", WS: -1})
	}
	return out
}

// ---------------------------------------------------------------- canonical state

func (k *kSys) queueItems() []string {
	q := k.sk.queue
	q.Lock()
	defer q.Unlock()
	var items []interface{}
	var prios []float32
	var out []string
	for !q.Prque.Empty() {
		it, p := q.Prque.Pop()
		items = append(items, it)
		prios = append(prios, p)
		qws := it.(*queuedWorkSpace)
		out = append(out, fmt.Sprintf("%s/%v", kNames[k.sid[qws.ws.id.String()]], qws.wouldMining))
	}
	for i := range items {
		q.Prque.Push(items[i], prios[i])
	}
	return out
}

// chanItems peeks the request channel by draining and refilling it; only called
// when no goroutine is blocked sending to it.
func (k *kSys) chanItems() []string {
	ch := k.sk.newQueuedWorkSpaceCh
	var items []*queuedWorkSpace
	for {
		select {
		case it := <-ch:
			items = append(items, it)
			continue
		default:
		}
		break
	}
	var out []string
	for _, it := range items {
		ch <- it
		out = append(out, fmt.Sprintf("%s/%v", kNames[k.sid[it.ws.id.String()]], it.wouldMining))
	}
	return out
}

// outstanding says where a not yet executed plot/mine request for workspace w sits.
func (k *kSys) outstanding(w int, blocked []qsched.GoroutineInfo) string {
	name := kNames[w] + "/"
	if p := k.sk.queue.poppedItem; p != nil && k.sid[p.ws.id.String()] == w {
		for _, g := range k.s.Parked() {
			if g == "popped" {
				return "request-already-popped"
			}
		}
	}
	if !kBlockedSender(blocked) && len(k.sk.newQueuedWorkSpaceCh) > 0 {
		for _, it := range k.chanItems() {
			if strings.HasPrefix(it, name) {
				return "request-pending-in-channel"
			}
		}
	}
	for _, it := range k.queueItems() {
		if strings.HasPrefix(it, name) {
			return "request-left-in-queue"
		}
	}
	return ""
}

func kBlockedSender(blocked []qsched.GoroutineInfo) bool {
	for _, g := range blocked {
		if g.Reason == "chan send" && (strings.Contains(g.Stack, "PlotWS") || strings.Contains(g.Stack, "MineWS")) {
			return true
		}
	}
	return false
}

// plotterWaitsOnChannel: the plotter is blocked in its idle select (a drain/refill
// of the channel would wake it).
func kPlotterInSelect(blocked []qsched.GoroutineInfo) bool {
	for _, g := range blocked {
		if g.Reason == "select" && strings.Contains(g.Stack, "spacePlotter") && !strings.Contains(g.Stack, "func3") {
			return true
		}
	}
	return false
}

func (k *kSys) stateKey(blocked []qsched.GoroutineInfo, budget int, hist string) string {
	var sb strings.Builder
	for i, ws := range k.ws {
		d := k.db[i]
		d.mu.Lock()
		fmt.Fprintf(&sb, "%s:%s u=%v p=%v pl=%v del=%v st=%v/%v idx=", kNames[i], ws.state, ws.using, d.progress, d.plotting, d.deleted, k.stopped[i], k.stopped[i] && k.stopProgress[i] >= 100)
		d.mu.Unlock()
		sid := ws.id.String()
		for s := engine.FirstState; s <= allState; s++ {
			if k.sk.workSpaceIndex[s].Has(sid) {
				fmt.Fprintf(&sb, "%d", s)
			}
		}
		sb.WriteString("; ")
	}
	var list []string
	for _, ws := range k.sk.workSpaceList {
		list = append(list, kNames[k.sid[ws.id.String()]])
	}
	fmt.Fprintf(&sb, "list=%v queue=%v ", list, k.queueItems())
	if p := k.sk.queue.poppedItem; p != nil {
		fmt.Fprintf(&sb, "popped=%s/%v ", kNames[k.sid[p.ws.id.String()]], p.wouldMining)
	}
	if kBlockedSender(blocked) {
		// cannot peek the channel without disturbing the blocked sender: no merging for such states
		fmt.Fprintf(&sb, "chan=FULL+blocked-sender hist=%s ", hist)
	} else if len(k.sk.newQueuedWorkSpaceCh) > 0 {
		fmt.Fprintf(&sb, "chan=%v ", k.chanItems())
	}
	fmt.Fprintf(&sb, "gates=%v ", k.s.Parked())
	var pend []string
	for i, o := range k.ops {
		if !o.Done() {
			pend = append(pend, k.opDesc[i])
		}
	}
	fmt.Fprintf(&sb, "pending=%v left=%d running=%v", pend, budget-k.issued, k.sk.Started())
	// where the plotter is blocked matters for futures
	for _, g := range blocked {
		if strings.Contains(g.Stack, "spacePlotter") {
			fmt.Fprintf(&sb, " plotter=%s", g.Reason)
		}
	}
	return sb.String()
}

var _ = context.Background
var _ = sort.Strings
