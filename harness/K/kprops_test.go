//go:build go1.21

package capacity

// C09 (lifecycle state machine) and C13 (no deadlock / panic) on the keeper harness K.

import (
	"context"
	"fmt"
	"os"
	"sort"
	"strings"
	"testing"

	"github.com/massnetorg/mass-core/poc/pocutil"
	"massnet.org/mass/poc/engine"
	"massnet.org/mass/zz_verif/qsched"
	"massnet.org/mass/zz_verif/seqx"
	"massnet.org/mass/zz_verif/vk"
)

type kScenario struct {
	Name     string    `json:"name"`
	Initial  string    `json:"initial"` // one letter per workspace: R registered, Y ready
	ChanCap  int       `json:"chan_cap"`
	Budget   int       `json:"op_budget"`
	Horizon  int       `json:"horizon"`
	Alphabet []kAction `json:"-"`
	// Script, if set: no exploration - the fixed action list is executed once and drained
	// (confirmation of a finding at the production constant)
	Script []kAction `json:"-"`
	// LockGates: acquisitions of the state lock by operation goroutines are scheduling points (C13 only: the
	// per-action monitors of C09 assume that a call runs to its end within its action)
	LockGates bool `json:"lock_gates,omitempty"`
}

type kReplay struct {
	Scenario kScenario `json:"scenario"`
	Actions  []string  `json:"actions"`
}

type kCtx struct {
	r                                            *vk.Run
	prop                                         string
	sc                                           kScenario
	acts                                         []kAction
	actID                                        map[string]int
	checkC09                                     bool
	checkC13                                     bool
	terminals, deadlocks, quiescent, divergences int64
	outcomes                                     map[string]bool
}

func (c *kCtx) id(a kAction) int {
	if id, ok := c.actID[a.String()]; ok {
		return id
	}
	c.acts = append(c.acts, a)
	c.actID[a.String()] = len(c.acts) - 1
	return len(c.acts) - 1
}

func (c *kCtx) names(hist []int, op int) []string {
	var out []string
	for _, h := range hist {
		out = append(out, c.acts[h].String())
	}
	if op >= 0 {
		out = append(out, c.acts[op].String())
	}
	return out
}

func (c *kCtx) viol(clause, site, msg string, hist []int, op int) {
	c.r.Violation(c.prop+"/"+clause+"/"+site, fmt.Sprintf("%s [scenario %s initial=%s chan_cap=%d] after %v", msg, c.sc.Name, c.sc.Initial, c.sc.ChanCap, c.names(hist, op)),
		kReplay{c.sc, c.names(hist, op)})
}

var kAllFlags = func() []engine.WorkSpaceStateFlags {
	var out []engine.WorkSpaceStateFlags
	for m := 0; m < 16; m++ {
		var f engine.WorkSpaceStateFlags
		if m&1 != 0 {
			f |= engine.SFRegistered
		}
		if m&2 != 0 {
			f |= engine.SFPlotting
		}
		if m&4 != 0 {
			f |= engine.SFReady
		}
		if m&8 != 0 {
			f |= engine.SFMining
		}
		out = append(out, f)
	}
	return out
}()

// invariants I1-I4 at a quiescent state.
func (c *kCtx) invariants(k *kSys, hist []int, op int) bool {
	site := "after-" + strings.SplitN(c.acts[op].String(), "(", 2)[0]
	plotting := 0
	for i, ws := range k.ws {
		sid := ws.id.String()
		in := 0
		for s := engine.FirstState; s < allState; s++ {
			if k.sk.workSpaceIndex[s].Has(sid) {
				in++
				if s != ws.state {
					c.viol("index-disagrees-with-state", site, fmt.Sprintf("workspace %s has state %s but is indexed under %s", kNames[i], ws.state, s), hist, op)
					return false
				}
			}
		}
		deleted := k.db[i].deleted
		inAll := k.sk.workSpaceIndex[allState].Has(sid)
		if inAll && in != 1 {
			c.viol("not-in-exactly-one-state", site, fmt.Sprintf("workspace %s is in %d per-state indexes", kNames[i], in), hist, op)
			return false
		}
		if inAll == deleted {
			c.viol("all-index", site, fmt.Sprintf("workspace %s: deleted=%v but in index[all]=%v", kNames[i], deleted, inAll), hist, op)
			return false
		}
		if !inAll && in != 0 {
			c.viol("deleted-still-indexed", site, fmt.Sprintf("deleted workspace %s remains in a per-state index", kNames[i]), hist, op)
			return false
		}
		if ws.state == engine.Plotting && inAll {
			plotting++
		}
		if ws.state < engine.Registered || ws.state > engine.Mining {
			c.viol("invalid-state", site, fmt.Sprintf("workspace %s has state %d", kNames[i], ws.state), hist, op)
			return false
		}
	}
	if plotting > 1 {
		c.viol("two-plotting", site, "more than one workspace is plotting", hist, op)
		return false
	}
	// queries: only when the state lock is free (an operation blocked while holding it is C13's subject)
	if k.sk.stateLock.TryRLock() {
		k.sk.stateLock.RUnlock()
		for _, f := range kAllFlags {
			ids, err1 := k.sk.WorkSpaceIDs(f)
			infos, err2 := k.sk.WorkSpaceInfos(f)
			if err1 != nil || err2 != nil {
				c.viol("query-error", site, fmt.Sprint(err1, err2), hist, op)
				return false
			}
			var want []string
			for _, ws := range k.sk.workSpaceList {
				if f.Contains(ws.state.Flag()) {
					want = append(want, ws.id.String())
				}
			}
			var gotInfo []string
			for _, inf := range infos {
				gotInfo = append(gotInfo, inf.SpaceID)
				i := k.sid[inf.SpaceID]
				if inf.State != k.ws[i].state {
					c.viol("info-state", site, "WorkSpaceInfos reports a state different from the workspace's", hist, op)
					return false
				}
			}
			a, b, w := append([]string{}, ids...), append([]string{}, gotInfo...), append([]string{}, want...)
			sort.Strings(a)
			sort.Strings(b)
			sort.Strings(w)
			if fmt.Sprint(a) != fmt.Sprint(w) || fmt.Sprint(b) != fmt.Sprint(w) {
				c.viol("flag-filter-disagreement", site, fmt.Sprintf("flags %v: WorkSpaceIDs=%d entries, WorkSpaceInfos=%d entries, by state=%d entries", f, len(a), len(b), len(w)), hist, op)
				return false
			}
		}
		if k.sk.Started() {
			proofs, err := k.sk.GetProofs(context.Background(), engine.SFMining, pocutil.Hash{}, false)
			if err != nil {
				c.viol("getproofs-error", site, err.Error(), hist, op)
				return false
			}
			var got, want []string
			for _, p := range proofs {
				got = append(got, p.SpaceID)
			}
			for _, ws := range k.ws {
				if ws.using && ws.state == engine.Mining && !k.db[k.sid[ws.id.String()]].deleted {
					want = append(want, ws.id.String())
				}
			}
			sort.Strings(got)
			sort.Strings(want)
			if fmt.Sprint(got) != fmt.Sprint(want) {
				c.viol("miner-offered-non-mining-space", site, fmt.Sprintf("GetProofs(mining) offers %d spaces, %d are used and mining", len(got), len(want)), hist, op)
				return false
			}
		}
	}
	return true
}

// transitions: every state change between two quiescent states must be an edge
// of the documented table for the action taken; sticky stop.
func (c *kCtx) transitions(k *kSys, a kAction, before []string, report bool, hist []int, op int) bool {
	after := k.wsStates()
	site := strings.SplitN(a.String(), "(", 2)[0]
	for i := range k.ws {
		ob, na := strings.TrimRight(before[i], "u-"), strings.TrimRight(after[i], "u-")
		if ob == na {
			continue
		}
		edge := ob + "->" + na
		ok := false
		switch a.Kind {
		case "op":
			target := a.WS < 0 || a.WS == i
			switch a.Op {
			case "mine", "mineall":
				ok = target && edge == "ready->mining"
			case "stop", "stopall":
				// documented: plotting -> registered, mining -> ready (the current code performs the first
				// one in the plotter's step 3, but doing it in the stop call itself is equally documented)
				ok = target && (edge == "mining->ready" || edge == "plotting->registered")
			}
		case "gate":
			switch a.Name {
			case "popped": // step 1
				ok = edge == "registered->plotting" || edge == "ready->mining"
			case "plot.returned": // step 3
				ok = edge == "plotting->registered" || edge == "plotting->ready" || edge == "plotting->mining"
			}
		}
		if !ok {
			if report {
				c.viol("undocumented-transition", site+":"+edge, fmt.Sprintf("workspace %s moved %s during %s", kNames[i], edge, a), hist, op)
			}
			return false
		}
		if ob == "plotting" && (na == "ready" || na == "mining") {
			// leaving "plotting" for ready/mining is plot COMPLETION: the database must hold a finished plot
			k.db[i].mu.Lock()
			pr := k.db[i].progress
			k.db[i].mu.Unlock()
			if pr < 100 {
				if report {
					c.viol("unfinished-plot-became-"+na, site, fmt.Sprintf("workspace %s moved plotting->%s although its plot was aborted at %.4f%%", kNames[i], na, pr), hist, op)
				}
				return false
			}
		}
		if ob == "plotting" && na == "mining" && k.stopped[i] {
			// whatever the plot did: a stop while plotting withdraws the wish to mine
			if report {
				c.viol("stopped-space-mined", "stop-while-plotting", fmt.Sprintf("workspace %s was stopped while plotting and not asked to mine again, but went plotting->mining", kNames[i]), hist, op)
			}
			k.stopped[i] = false
		}
		if ob == "plotting" && na == "ready" && k.stopped[i] && k.stopProgress[i] >= 100 {
			// the plot had already finished when the stop came in (the keeper had not yet run step 3): nothing was
			// plotted after the stop, the space is complete and ready is where a complete space belongs
			k.stopped[i] = false
		}
		if ob == "plotting" && (na == "ready" || na == "mining") && k.stopped[i] {
			if report {
				c.viol("stopped-space-plot-completed", "stop-before-plot-start", fmt.Sprintf("workspace %s was stopped while marked plotting, yet its plot ran to completion and it became %s", kNames[i], na), hist, op)
			}
			k.stopped[i] = false
		}
		if (na == "plotting" || na == "mining") && ob != "plotting" && k.stopped[i] {
			via := k.stopVia[i]
			if via == "" {
				via = "no-outstanding-request-at-stop"
			}
			if report {
				c.viol("stopped-space-"+map[string]string{"plotting": "replotted", "mining": "mined"}[na], via, fmt.Sprintf("workspace %s was stopped (%s) and not asked to plot or mine again, but entered %s", kNames[i], via, na), hist, op)
			}
			// reported once per site; exploration continues behind it
			k.stopped[i] = false
		}
	}
	// step 3 outcome must follow the plot result and the latest request
	return true
}

// deadlockSite names the root of a deadlock: the calls blocked on something other than
// the state lock (lock waiters are consequences).
func (c *kCtx) deadlockSite(blocked []qsched.GoroutineInfo) string {
	var parts []string
	for _, g := range blocked {
		if strings.HasPrefix(g.Reason, "sync.") {
			continue
		}
		for _, f := range []string{"MineWS", "PlotWS", "StopWS", "RemoveWS", "DeleteWS", "WorkSpaceIDs", "WorkSpaceInfos"} {
			if strings.Contains(g.Stack, "(*SpaceKeeper)."+f+"(") {
				parts = append(parts, f+":"+strings.ReplaceAll(g.Reason, " ", "-"))
				break
			}
		}
	}
	sort.Strings(parts)
	var u []string
	for i, p := range parts {
		if i == 0 || p != parts[i-1] {
			u = append(u, p)
		}
	}
	if len(u) == 0 {
		return "no-call-blocked-outside-the-state-lock"
	}
	return strings.Join(u, "+")
}

// drain: no harness action is left; stop the keeper and let every gate pass. Anything
// still pending afterwards is a deadlock.
func (c *kCtx) drain(k *kSys, hist []int, op int) {
	c.terminals++
	blocked := k.quiesce()
	// a started keeper whose plotter goroutine no longer exists although nobody asked it to stop is a situation of
	// its own: requests sent to it block for that reason, not for the reason of the listed send-under-lock finding
	plotterGone := k.stopOp == nil && k.sk.Started() && !strings.Contains(k.s.LastDump, ").spacePlotter(")
	if k.stopOp == nil {
		blocked = k.do(kAction{Kind: "kstop"})
	}
	for step := 0; step < 64; step++ {
		if g := k.s.Parked(); len(g) > 0 {
			blocked = k.do(kAction{Kind: "gate", Name: g[0]})
			continue
		}
		if k.plottingDB() >= 0 {
			// a plot that started despite the stop request runs to its end in the real system
			blocked = k.do(kAction{Kind: "env", Name: "done", WS: -1})
			continue
		}
		break
	}
	var pend []string
	for i, o := range k.ops {
		if !o.Done() {
			pend = append(pend, k.opDesc[i])
		}
		if o.Pan != "" {
			c.viol("panic", vk.PanicSite(o.Pan), "panic in "+k.opDesc[i]+": "+o.Pan[:min(len(o.Pan), 300)], hist, op)
			return
		}
	}
	if k.stopOp != nil && !k.stopOp.Done() {
		pend = append(pend, "keeper.Stop")
	}
	if k.stopOp != nil && k.stopOp.Pan != "" {
		c.viol("panic", vk.PanicSite(k.stopOp.Pan), "panic in keeper.Stop: "+k.stopOp.Pan[:min(len(k.stopOp.Pan), 300)], hist, op)
		return
	}
	outcome := "clean"
	if len(pend) > 0 {
		c.deadlocks++
		site := c.deadlockSite(blocked)
		if plotterGone {
			site += "+plotter-goroutine-gone-before-stop"
		}
		outcome = "deadlock:" + site
		if site == "no-call-blocked-outside-the-state-lock" {
			c.viol("deadlock", "state-lock-never-released", fmt.Sprintf("calls that never return: %v; every blocked call waits for the state lock: a holder returned without unlocking, or a call that holds it waits for it again behind a waiting writer", pend), hist, op)
		} else {
			c.viol("deadlock", "send-under-stateLock/"+site, fmt.Sprintf("calls that never return: %v; blocked outside the state lock: %s (the request channel is full, the sender holds the state lock, the plotter needs it to make room)", pend, site), hist, op)
		}
	}
	c.outcomes[outcome] = true
}

// try executes hist+op on a fresh keeper.
// try executes hist+op on a fresh keeper. Go's select picks at random when the quit
// channel and a request are ready together (stop racing with a blocked sender): a replay
// that takes the other branch is repeated; if it cannot be reproduced the subtree is
// recorded as unexplored (cap), never as a verdict.
func (c *kCtx) try(hist []int, op int) (key string, ops []int, expand bool) {
	for attempt := 0; attempt < 40; attempt++ {
		var diverged bool
		key, ops, expand, diverged = c.try1(hist, op)
		if !diverged {
			return
		}
		c.divergences++
	}
	c.r.Cap("a history through a randomly resolved select (stop vs. pending request) could not be reproduced in 40 replays; its subtree is unexplored")
	return "", nil, false
}

func (c *kCtx) try1(hist []int, op int) (string, []int, bool, bool) {
	kLockGates = c.sc.LockGates
	k := kNew(c.sc.Initial, c.sc.ChanCap)
	defer k.close()
	var blocked []qsched.GoroutineInfo
	all := append(append([]int{}, hist...), op)
	for i, id := range all {
		a := c.acts[id]
		before := k.wsStates()
		// the action must be enabled (replay divergence is a hard error)
		en := false
		for _, e := range k.enabled(c.sc.Alphabet, c.sc.Budget) {
			if e.String() == a.String() {
				en = true
			}
		}
		if !en {
			return "", nil, false, true
		}
		blocked = k.do(a)
		// completed ops: sticky-stop bookkeeping and results
		for j, o := range k.ops {
			if o.Done() && o.Pan != "" && i == len(all)-1 {
				c.viol("panic", vk.PanicSite(o.Pan), "panic in "+k.opDesc[j]+": "+o.Pan[:min(len(o.Pan), 300)], hist, op)
				return "", nil, false, false
			}
		}
		if a.Kind == "op" && (a.Op == "stop" || a.Op == "stopall") {
			last := k.ops[len(k.ops)-1]
			if last.Done() {
				for w := range k.ws {
					if (a.WS < 0 || a.WS == w) && k.ws[w].using {
						if last.Err == nil {
							k.stopped[w] = true
							k.stopVia[w] = k.outstanding(w, blocked)
							k.db[w].mu.Lock()
							k.stopProgress[w] = k.db[w].progress
							k.db[w].mu.Unlock()
						}
					}
				}
			}
		}
		if i < len(all)-1 {
			c.transitions(k, a, before, false, hist, op) // monitors only
		}
		if i == len(all)-1 {
			c.quiescent++
			if !c.checkC09 {
				c.transitions(k, a, before, false, hist, op)
			}
			if c.checkC09 {
				if !c.invariants(k, hist, op) || !c.transitions(k, a, before, true, hist, op) {
					return "", nil, false, false
				}
				// refused actions change nothing and report the documented error
				if a.Kind == "op" && (a.Op == "remove" || a.Op == "delete") {
					last := k.ops[len(k.ops)-1]
					st := strings.TrimRight(before[a.WS], "u-")
					if last.Done() && (st == "plotting" || st == "mining") && strings.HasSuffix(before[a.WS], "u") {
						if last.Err != ErrWorkSpaceIsNotStill {
							c.viol("remove-delete-not-refused", a.Op+"-in-"+st, fmt.Sprintf("%s returned %v for a %s workspace", a, last.Err, st), hist, op)
							return "", nil, false, false
						}
						if k.wsStates()[a.WS] != before[a.WS] || k.db[a.WS].deleted {
							c.viol("refused-action-changed-state", a.Op+"-in-"+st, "a refused action changed the workspace", hist, op)
							return "", nil, false, false
						}
					}
				}
			}
		}
	}
	en := k.enabled(c.sc.Alphabet, c.sc.Budget)
	key := k.stateKey(blocked, c.sc.Budget, strings.Join(c.names(hist, op), ","))
	if len(en) == 0 || len(all) >= c.sc.Horizon {
		if len(all) >= c.sc.Horizon && len(en) > 0 {
			c.r.Cap(fmt.Sprintf("horizon of %d actions reached in scenario %s", c.sc.Horizon, c.sc.Name))
			if os.Getenv("VERIF_DEBUG_HORIZON") != "" {
				c.r.Cap(fmt.Sprintf("HORIZON %s: %v", c.sc.Name, c.names(hist, op)))
			}
		}
		if c.checkC13 {
			c.drain(k, hist, op)
		}
		return key, nil, false, false
	}
	// C13 also drains from every state (stop of the keeper at any moment)
	var ops []int
	for _, e := range en {
		ops = append(ops, c.id(e))
	}
	return key, ops, true, false
}

func kAlphabet(n int, bulk bool) []kAction {
	var out []kAction
	for _, op := range []string{"plot", "mine", "stop", "remove", "delete"} {
		for w := 0; w < n; w++ {
			out = append(out, kAction{Kind: "op", Op: op, WS: w})
		}
	}
	if bulk {
		for _, op := range []string{"plotall", "mineall", "stopall"} {
			out = append(out, kAction{Kind: "op", Op: op, WS: -1})
		}
	}
	return out
}

func kRun(r *vk.Run, prop string, scenarios []kScenario, c09, c13 bool, rule string) {
	if p := r.ReplayPath(); p != "" {
		var rp kReplay
		vk.LoadReplay(p, &rp)
		sc := rp.Scenario
		for _, s := range scenarios {
			if s.Name == sc.Name {
				sc.Alphabet = s.Alphabet
			}
		}
		c := &kCtx{r: r, prop: prop, sc: sc, actID: map[string]int{}, checkC09: c09, checkC13: c13, outcomes: map[string]bool{}}
		kLockGates = sc.LockGates
		k := kNew(sc.Initial, sc.ChanCap)
		// resolve action names step by step on a live instance
		var ids []int
		for _, name := range rp.Actions {
			found := false
			for _, e := range k.enabled(sc.Alphabet, sc.Budget) {
				if e.String() == name {
					ids = append(ids, c.id(e))
					k.do(e)
					found = true
					break
				}
			}
			if !found {
				var en []string
				for _, e := range k.enabled(sc.Alphabet, sc.Budget) {
					en = append(en, e.String())
				}
				vk.Fatalf("replay: action %s not enabled; enabled: %v; state: %s", name, en, k.stateKey(nil, sc.Budget, ""))
			}
		}
		k.close()
		for i := range ids {
			c.try(ids[:i], ids[i])
		}
		r.Finish("replay")
	}
	idx, n, child := r.Shard()
	r.Assume("API bodies hold stateLock for their whole body (PlotWS: read lock) and the plotter holds it for steps 1 and 3, so gate granularity (idle, popped, step1.done, plot.returned, space.done) covers every order observable through states; unsynchronised accesses between gates are not enumerated",
		"fake plot database: Plot() blocks until the scheduler delivers completion (progress 100) or abort; StopPlot aborts it", "at most 2 operations in flight; quiescence from runtime.Stack wait reasons; ants pool housekeeping goroutines ignored")
	if !child {
		r.PanicIsViolation = true
		r.RunShards(vk.Workers(), 1)
		r.Finish(rule)
	}
	var states, trans, terminals, deadlocks, snaps int64
	var per []string
	unit := 0
	for _, sc := range scenarios {
		if sc.Script != nil {
			unit++
			if unit%n != idx {
				continue
			}
			c := &kCtx{r: r, prop: prop, sc: sc, actID: map[string]int{}, checkC09: c09, checkC13: c13, outcomes: map[string]bool{}}
			kLockGates = sc.LockGates
			k := kNew(sc.Initial, sc.ChanCap)
			var ids []int
			for _, a := range sc.Script {
				k.do(a)
				ids = append(ids, c.id(a))
				r.Eval(1)
				if k.probeMutated {
					c.viol("data-race", "queue-modified-while-its-mutex-is-held/addSpaces-Push-vs-plotterQueue.Delete",
						k.probeNote+": the plotter pushes (and polls Empty/Size) through the unlocked methods of the embedded priority queue while StopWS/RemoveWS/DeleteWS rebuild that queue under its mutex from API goroutines - concurrent modification of the heap (observed as a nil dereference in prque.Less / index out of range, killing the process)", ids[:len(ids)-1], ids[len(ids)-1])
					k.probeMutated = false
				}
			}
			c.drain(k, ids[:len(ids)-1], ids[len(ids)-1])
			k.close()
			trans += int64(len(ids))
			states++
			terminals += c.terminals
			deadlocks += c.deadlocks
			per = append(per, fmt.Sprintf("%s: scripted %d actions at chan_cap=%d, deadlocked=%d", sc.Name, len(ids), sc.ChanCap, c.deadlocks))
			continue
		}
		kLockGates = sc.LockGates
		k0 := kNew(sc.Initial, sc.ChanCap)
		first := k0.enabled(sc.Alphabet, sc.Budget)
		initKey := k0.stateKey(nil, sc.Budget, "")
		snaps += k0.s.Snapshots
		k0.close()
		// one unit of work per (scenario, first action): units are spread over the shard processes
		for fi := range first {
			unit++
			if unit%n != idx {
				continue
			}
			c := &kCtx{r: r, prop: prop, sc: sc, actID: map[string]int{}, checkC09: c09, checkC13: c13, outcomes: map[string]bool{}}
			for _, e := range first {
				c.id(e)
			}
			initOps := []int{c.id(first[fi])}
			res := seqx.Explore(seqx.Spec{Depth: sc.Horizon, InitKey: initKey, InitOps: initOps, Stop: r.Expired,
				Try: func(hist []int, op int) (string, []int, bool) {
					r.Eval(1)
					return c.try(hist, op)
				}})
			if !res.Complete {
				r.Cap("deadline hit in scenario " + sc.Name)
			}
			states += int64(res.States)
			trans += res.Transitions
			terminals += c.terminals
			deadlocks += c.deadlocks
			var oc []string
			for o := range c.outcomes {
				oc = append(oc, o)
			}
			sort.Strings(oc)
			per = append(per, fmt.Sprintf("%s/first=%s: initial=%s chan_cap=%d budget=%d states=%d transitions=%d terminal_runs=%d outcomes=%v", sc.Name, first[fi], sc.Initial, sc.ChanCap, sc.Budget, res.States, res.Transitions, c.terminals, oc))
			r.Sample(map[string]interface{}{"scenario": sc.Name, "schedule": []string{"plot(a)", "gate:idle", "gate:popped", "gate:step1.done", "plot(b)", "stop(b)", "plot-done", "gate:plot.returned", "gate:space.done", "gate:popped"}})
		}
	}
	r.Set("states", states)
	r.Set("transitions", trans)
	r.Set("traces_validated_against_impl", trans)
	r.Set("terminal_executions_drained", terminals)
	r.Set("deadlocked_executions", deadlocks)
	r.Set("scenarios", per)
	r.DistinctN(int(states))
	r.Finish(rule)
}

func TestVerifC09(t *testing.T) {
	r := vk.Start("C09", "model_checking")
	h := vk.Pick(r, 34, 44)
	var scs []kScenario
	for _, init := range []string{"R", "Y", "RR", "RY", "YY"} {
		b := vk.Pick(r, 3, 4)
		if len(init) == 2 && init != "YY" {
			b = vk.Pick(r, 2, 3)
		}
		scs = append(scs, kScenario{Name: "ws-" + init, Initial: init, ChanCap: 8, Budget: b, Horizon: h, Alphabet: kAlphabet(len(init), len(init) > 1)})
	}
	// repeated requests for one space (the queue then holds several entries for it): one more operation than the
	// general scenarios, over plot/mine/stop only
	var pms []kAction
	for _, a := range kAlphabet(1, false) {
		if a.Op == "plot" || a.Op == "mine" || a.Op == "stop" {
			pms = append(pms, a)
		}
	}
	scs = append(scs, kScenario{Name: "ws-R-repeated-requests", Initial: "R", ChanCap: 8, Budget: vk.Pick(r, 4, 5), Horizon: h + 6, Alphabet: pms})
	if r.Thorough() {
		scs = append(scs, kScenario{Name: "ws-RRY", Initial: "RRY", ChanCap: 8, Budget: 3, Horizon: h, Alphabet: kAlphabet(3, false)})
	}
	kRun(r, "C09", scs, true, false,
		"explicit-state search over the real SpaceKeeper with a fake plot database: actions = API calls (plot/mine/stop/remove/delete on each workspace, bulk forms) within an operation budget, release of each plotter gate (H3) and plot completion/abort; every order is explored with canonical-state pruning (per-workspace state/using/index bits/progress, queue, popped item, channel content, gates, pending calls, sticky-stop monitor); in every quiescent state: exactly-one-state and index consistency, at most one plotting, all 16 flag filters agree between WorkSpaceIDs/WorkSpaceInfos/states, GetProofs(mining) offers exactly the used mining spaces, every state change is a documented edge for the action taken, refused remove/delete change nothing, a stopped space does not enter plotting/mining until asked again")
}

func TestVerifC13(t *testing.T) {
	r := vk.Start("C13", "model_checking")
	b, h := vk.Pick(r, 3, 4), vk.Pick(r, 27, 36)
	var scs []kScenario
	for _, cap := range []int{0, 1, 2} {
		for _, init := range []string{"RR", "RY", "RRR"} {
			if r.Quick() && (cap == 2 || init == "RRR" || (cap == 1 && init == "RR")) {
				continue
			}
			alpha := kAlphabet(len(init), false)
			if len(init) == 3 {
				// keep the 3-workspace alphabet small: requests that queue
				alpha = nil
				for w := 0; w < 3; w++ {
					alpha = append(alpha, kAction{Kind: "op", Op: "plot", WS: w}, kAction{Kind: "op", Op: "mine", WS: w})
				}
				alpha = append(alpha, kAction{Kind: "op", Op: "stop", WS: 0})
			}
			// stopping the keeper at any moment is an action of its own
			alpha = append(alpha, kAction{Kind: "kstop", WS: -1})
			scs = append(scs, kScenario{Name: fmt.Sprintf("cap%d-%s", cap, init), Initial: init, ChanCap: cap, Budget: b, Horizon: h, Alphabet: alpha})
		}
	}
	// interleavings INSIDE calls: with lock gates every acquisition of the state lock by a call is a scheduling point, so
	// other calls and the plotter's steps are ordered between the per-workspace lock scopes of the bulk calls
	for _, init := range []string{"RR", "RY"} {
		if r.Quick() && init == "RR" {
			continue
		}
		alpha := kAlphabet(len(init), true)
		alpha = append(alpha, kAction{Kind: "kstop", WS: -1})
		scs = append(scs, kScenario{Name: "lockgates-" + init, Initial: init, ChanCap: 8, Budget: vk.Pick(r, 2, 3), Horizon: h + 8, Alphabet: alpha, LockGates: true})
	}
	// lock discipline of the plot queue (scripted, both tiers)
	scs = append(scs, kScenario{Name: "probe-queue-lock", Initial: "RR", ChanCap: 1, Budget: 4, Horizon: 8,
		Script: []kAction{{Kind: "gate", Name: "idle", WS: -1}, {Kind: "probe", Name: "queue-lock", WS: -1}}})
	if r.Thorough() {
		// the finding at the production constant: a plot is in progress, 1024 plot requests fill
		// the channel, request 1025 blocks holding the lock, the finished plot cannot take it
		script := []kAction{{Kind: "op", Op: "plot", WS: 1}, {Kind: "gate", Name: "idle", WS: -1}, {Kind: "gate", Name: "queue.nonempty", WS: -1}, {Kind: "gate", Name: "popped", WS: -1}, {Kind: "gate", Name: "step1.done", WS: -1}}
		for i := 0; i < 1025; i++ {
			script = append(script, kAction{Kind: "op", Op: "plot", WS: 0})
		}
		script = append(script, kAction{Kind: "env", Name: "done", WS: -1})
		scs = append(scs, kScenario{Name: "scripted-cap1024", Initial: "RR", ChanCap: plotterMaxChanSize, Budget: 2000, Horizon: 2000, Script: script})
		if os.Getenv("VERIF_C13_ONLY_SCRIPT") != "" {
			scs = scs[len(scs)-1:]
		}
	}
	kRun(r, "C13", scs, false, true,
		"explicit-state search over the real SpaceKeeper with a fake plot database and a request channel of capacity 0, 1, 2 (standing for 'however many requests are outstanding'): API calls from up to 2 callers in flight, plotter gates and plot outcomes in every order; every terminal execution is drained (keeper Stop issued, all gates released): a call or Stop that has not returned then is a deadlock (decided from goroutine wait reasons, never from time); panics in any call are violations")
}
