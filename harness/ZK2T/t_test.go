//go:build go1.21

package skchia

import (
	"fmt"
	"testing"
	"time"

	"massnet.org/mass/zz_verif/vk"
)

func TestK2Timing(t *testing.T) {
	r := vk.Start("C09", "model_checking")
	var tNew, tDo, tInv, tClose time.Duration
	sc := k2Scenario{Name: "x", Family: "b", Initial: "RR", Cfg: "none", ChanCap: 8, MaxChan: 2, Horizon: 9, MaxInFlight: 1, Alphabet: k2Alphabet(2, k2BulkB, false, false, nil)}
	c := k2NewCtx(r, "C09", sc, true, false)
	N := 200
	for i := 0; i < N; i++ {
		t0 := time.Now()
		k := k2New("RR", "none", 8)
		t1 := time.Now()
		for _, a := range []k2Action{{Kind: "op", Op: "plot", WS: 0}, {Kind: "gate", Name: "idle", WS: -1}, {Kind: "gate", Name: "popped", WS: -1}, {Kind: "op", Op: "mine", WS: 1}} {
			k.do(a)
		}
		t2 := time.Now()
		for j := range k.model {
			k.model[j].State = k.ws[j].state
		}
		c.invariants(k, k2Action{Kind: "init"}, nil, -1)
		t3 := time.Now()
		k.close()
		t4 := time.Now()
		tNew += t1.Sub(t0)
		tDo += t2.Sub(t1)
		tInv += t3.Sub(t2)
		tClose += t4.Sub(t3)
	}
	fmt.Printf("VERIF-TIMING new=%v do4=%v inv=%v close=%v\n", tNew/time.Duration(N), tDo/time.Duration(N), tInv/time.Duration(N), tClose/time.Duration(N))
	r.DistinctN(2)
	r.Finish("timing")
}
