//go:build go1.21

package skchia

import (
	"fmt"
	"testing"

	"massnet.org/mass/zz_verif/vk"
)

func TestK2Timing(t *testing.T) {
	r := vk.Start("C09", "model_checking")
	sc := k2Scenario{Name: "b-RR-none", Family: "b", Initial: "RR", Cfg: "none", ChanCap: 8, MaxChan: 2, Horizon: 19, MaxInFlight: 1, Alphabet: k2Alphabet(2, k2BulkB, false, false, nil)}
	c := k2NewCtx(r, "C09", sc, true, false)
	k := k2New("RR", "none", 8)
	for _, n := range []string{"mine(a)", "gate:idle", "stop(a)", "gate:popped", "gate:step1.done", "gate:plot.returned"} {
		var en []string
		for _, e := range k.enabled(sc.Alphabet, sc.MaxChan, sc.MaxInFlight) {
			en = append(en, e.String())
		}
		fmt.Printf("VERIF-DBG before %s: enabled=%v states=%v\n", n, en, k.wsStates())
		a := c.acts[c.parse(n)]
		_, ok := c.step(k, a, true, nil, c.parse(n))
		fmt.Printf("VERIF-DBG after %s: ok=%v states=%v model=%+v viols=%d\n", n, ok, k.wsStates(), k.model, r.ViolationCount())
	}
	k.close()
	r.DistinctN(2)
	r.Finish("debug")
}
