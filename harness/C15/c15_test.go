//go:build go1.21

package capacity

// C15 — Capacity configuration honours the requested size and reuses spaces.
//
// Bounded-exhaustive exploration of the real SpaceKeeper (built by the exported
// constructor NewSpaceKeeperV1) over the real massdb.v1 backend (plot files are
// header-only, 4 KiB, until plotted; nothing is ever plotted here) with a fake
// deterministic PoC wallet.  For every multiset of already existing spaces and
// every (sequence of) reconfiguration request(s) of the domain below the
// outcome is judged by the relational oracle of DESIGN.md §C15; nothing is
// sampled.  The harness keeps its own model of "what is on disk / indexed"
// from directory listings only (never from keeper internals).

import (
	"encoding/hex"
	"encoding/json"
	"fmt"
	"os"
	"path/filepath"
	"regexp"
	"sort"
	"strconv"
	"strings"
	"sync"
	"sync/atomic"
	"testing"

	"github.com/massnetorg/mass-core/logging"
	"github.com/massnetorg/mass-core/poc"
	"github.com/massnetorg/mass-core/pocec"
	"github.com/shirou/gopsutil/disk"
	"massnet.org/mass/config"
	"massnet.org/mass/poc/engine"
	"massnet.org/mass/zz_verif/vk"
)

// ------------------------------------------------------------------ sizes

const (
	c15S24 = uint64(24) << 22 // 96 MiB   (reference value, cross-checked against poc.PlotSize at start)
	c15S26 = uint64(26) << 24 // 416 MiB
	c15S28 = uint64(28) << 26 // 1792 MiB
	c15S30 = uint64(30) << 28 // 7680 MiB
	c15S40 = uint64(40) << 38 // 10 TiB
)

func c15PlotSize(bl int) uint64 { return uint64(bl) << uint(bl-2) }

var c15BLs = []int{24, 26, 28, 30}

// ------------------------------------------------------------------ wallet

const c15NKeys = 96

var (
	c15Keys   []*pocec.PublicKey
	c15KeyIdx = map[string]uint32{} // compressed pubkey bytes -> ordinal
)

func c15InitKeys() {
	for n := 0; n < c15NKeys; n++ {
		var b [32]byte
		b[31] = byte(n + 1)
		b[30] = 0x15
		_, pub := pocec.PrivKeyFromBytes(pocec.S256(), b[:])
		c15Keys = append(c15Keys, pub)
		c15KeyIdx[string(pub.SerializeCompressed())] = uint32(n)
	}
}

// c15Wallet: key #n has ordinal n; a key is "contained" once it was handed out.
type c15Wallet struct {
	mu   sync.Mutex
	next uint32
}

func (w *c15Wallet) GenerateNewPublicKey() (*pocec.PublicKey, uint32, error) {
	w.mu.Lock()
	defer w.mu.Unlock()
	if int(w.next) >= len(c15Keys) {
		vk.Fatalf("C15 fake wallet ran out of keys (%d)", len(c15Keys))
	}
	n := w.next
	w.next++
	return c15Keys[n], n, nil
}

func (w *c15Wallet) GetPublicKeyOrdinal(pk *pocec.PublicKey) (uint32, bool) {
	w.mu.Lock()
	defer w.mu.Unlock()
	n, ok := c15KeyIdx[string(pk.SerializeCompressed())]
	return n, ok && n < w.next
}

func (w *c15Wallet) SignMessage(*pocec.PublicKey, []byte) (*pocec.Signature, error) {
	return nil, fmt.Errorf("c15 wallet does not sign")
}
func (w *c15Wallet) Unlock([]byte) error { return nil }
func (w *c15Wallet) Lock()               {}
func (w *c15Wallet) IsLocked() bool      { return false }

// ------------------------------------------------------------------ cases

type c15Space struct {
	BL      int  `json:"bl"`
	Dir     int  `json:"dir"`     // 0 = d1 (dbDirs[0]), 1 = d2
	Removed bool `json:"removed"` // false: in use before the request; true: indexed but removed (RemoveWS)
	Deleted bool `json:"deleted"` // was in use, then deleted through DeleteWS before the request (its files are gone)
}

type c15Op struct {
	Kind   string         `json:"kind"`             // "size" | "path" | "bl" | "flags"
	Size   uint64         `json:"size,omitempty"`   // kind size
	Paths  []int          `json:"paths,omitempty"`  // kind path: directory numbers
	Sizes  []uint64       `json:"sizes,omitempty"`  // kind path: bytes (converted with int() as mining.ConfigurableSpaceKeeperV1 does)
	Counts map[string]int `json:"counts,omitempty"` // kind bl: bit length -> count
	NoGen  bool           `json:"nogen,omitempty"`  // allowGenerateNewSpace = false for this request
}

type c15Case struct {
	Existing []c15Space `json:"existing"`
	Ops      []c15Op    `json:"ops"`
}

func (c c15Case) String() string {
	b, _ := json.Marshal(c)
	return string(b)
}

// ------------------------------------------------------------------ statistics (vacuity)

type c15Stats struct {
	cases, ops                                     int64
	accepted, rejected                             [4]int64 // size, path, bl, flags
	mustRejectBelowMin, mustRejectBeyond           int64
	mustAccept, either, bandEither                 int64
	reusedOnly, createdSome, reuseClauseChecked    int64
	nogenAccepted, nogenRejected                   int64
	boundChecks, countChecks, dirChecks            int64
	restartChecks, restartSpaces                   int64
	precheckReject, precheckPass                   int64
	maxNewSpaces, maxSelection                     int64
	selectedUsedBefore, selectedRemovedBefore      int64
	droppedUsedBefore                              int64
	rejectListingUnchanged                         int64
	twoOpCases                                     int64
	distinctTotals                                 sync.Map
}

func c15Max(p *int64, v int64) {
	for {
		o := atomic.LoadInt64(p)
		if v <= o || atomic.CompareAndSwapInt64(p, o, v) {
			return
		}
	}
}

var c15KindIdx = map[string]int{"size": 0, "path": 1, "bl": 2, "flags": 3}
var c15KindName = map[string]string{"size": "BySize", "path": "ByPath", "bl": "ByBitLength", "flags": "ByFlags"}

// ------------------------------------------------------------------ model of the disk

type c15OnDisk struct {
	Sid     string
	BL      int
	Dir     int
	Ordinal int64
	PK      string
}

var c15FileRe = regexp.MustCompile(`^(\d+)_([0-9a-f]{66})_(\d+)(_a)?\.massdb$`)

func c15List(dirs []string) map[string]bool {
	out := map[string]bool{}
	for i, d := range dirs {
		ents, err := os.ReadDir(d)
		if err != nil {
			if os.IsNotExist(err) {
				continue
			}
			vk.Fatalf("C15 readdir %s: %v", d, err)
		}
		for _, e := range ents {
			out[strconv.Itoa(i)+"/"+e.Name()] = true
		}
	}
	return out
}

// c15Spaces groups the listed files into spaces (keyed by space id).
func c15Spaces(list map[string]bool) (map[string]c15OnDisk, []string) {
	out := map[string]c15OnDisk{}
	var odd []string
	for k := range list {
		dir, _ := strconv.Atoi(k[:1])
		name := k[2:]
		m := c15FileRe.FindStringSubmatch(name)
		if m == nil {
			odd = append(odd, k)
			continue
		}
		ord, _ := strconv.ParseInt(m[1], 10, 64)
		bl, _ := strconv.Atoi(m[3])
		sid := m[2] + "-" + m[3]
		if o, ok := out[sid]; ok && (o.Dir != dir || o.Ordinal != ord) {
			odd = append(odd, k+" (same space id in two places)")
		}
		out[sid] = c15OnDisk{Sid: sid, BL: bl, Dir: dir, Ordinal: ord, PK: m[2]}
	}
	sort.Strings(odd)
	return out, odd
}

// ------------------------------------------------------------------ keeper

func c15NewKeeper(dirs []string, w *c15Wallet) *SpaceKeeper {
	cfg := &config.Config{Miner: &config.Miner{ProofDir: append([]string{}, dirs...)}}
	ski, err := NewSpaceKeeperV1(cfg, PoCWallet(w))
	if err != nil {
		vk.Fatalf("C15 NewSpaceKeeperV1: %v", err)
	}
	sk, ok := ski.(*SpaceKeeper)
	if !ok {
		vk.Fatalf("C15 NewSpaceKeeperV1 returned %T", ski)
	}
	return sk
}

func c15CloseKeeper(sk *SpaceKeeper) {
	if sk == nil {
		return
	}
	if int(allState) < len(sk.workSpaceIndex) {
		for _, ws := range sk.workSpaceIndex[allState].Items() {
			ws.db.Close()
		}
	}
	sk.workerPool.Release()
}

// ------------------------------------------------------------------ expectations

type c15Expect struct {
	verdict string // "accept" | "reject" | "either"
	reason  string // for reject: "below-min" | "beyond-free"
}

var c15Free uint64 // statfs free bytes of the scratch file system at start (only to choose far-below / far-beyond)

func c15Far(need uint64) string {
	switch {
	case need > 3*c15Free || need >= 1<<62:
		return "beyond"
	case need < c15Free/3:
		return "below"
	}
	return "band"
}

// c15SubsetFits: is there a subset of the given plot sizes with sum <= t and t-sum < S24 ?
func c15SubsetFits(sizes []uint64, t uint64) bool {
	n := len(sizes)
	if n > 16 {
		return true // not decided (never happens in the stated domain)
	}
	for m := 0; m < 1<<uint(n); m++ {
		var s uint64
		for i := 0; i < n; i++ {
			if m>>uint(i)&1 == 1 {
				s += sizes[i]
			}
		}
		if s <= t && t-s < c15S24 {
			return true
		}
	}
	return false
}

func c15UsableSizes(known map[string]c15OnDisk, dir int) []uint64 {
	var out []uint64
	for _, s := range known {
		if dir >= 0 && s.Dir != dir {
			continue
		}
		if s.BL == 24 || s.BL == 26 || s.BL == 28 {
			out = append(out, c15PlotSize(s.BL))
		}
	}
	return out
}

func c15Expectation(op c15Op, known map[string]c15OnDisk, st *c15Stats) c15Expect {
	switch op.Kind {
	case "size":
		if op.Size < c15S24 {
			return c15Expect{"reject", "below-min"}
		}
		switch c15Far(op.Size) {
		case "beyond":
			return c15Expect{"reject", "beyond-free"}
		case "band":
			atomic.AddInt64(&st.bandEither, 1)
			return c15Expect{"either", ""}
		}
		if !op.NoGen || c15SubsetFits(c15UsableSizes(known, -1), op.Size) {
			return c15Expect{"accept", ""}
		}
		return c15Expect{"either", ""}
	case "path":
		for _, s := range op.Sizes {
			if s < c15S24 {
				return c15Expect{"reject", "below-min"}
			}
		}
		band := false
		for _, s := range op.Sizes {
			switch c15Far(s) {
			case "beyond":
				return c15Expect{"reject", "beyond-free"}
			case "band":
				band = true
			}
		}
		if band {
			atomic.AddInt64(&st.bandEither, 1)
			return c15Expect{"either", ""}
		}
		if !op.NoGen {
			return c15Expect{"accept", ""}
		}
		for i, p := range op.Paths {
			if !c15SubsetFits(c15UsableSizes(known, p), op.Sizes[i]) {
				return c15Expect{"either", ""}
			}
		}
		return c15Expect{"accept", ""}
	case "bl":
		have := map[int]int{}
		for _, s := range known {
			have[s.BL]++
		}
		var need uint64
		total := 0
		for k, n := range op.Counts {
			bl, _ := strconv.Atoi(k)
			total += n
			if n > have[bl] {
				need += uint64(n-have[bl]) * c15PlotSize(bl)
			}
		}
		if total == 0 {
			return c15Expect{"either", ""} // empty request: error or empty selection, both fine
		}
		if need == 0 {
			return c15Expect{"accept", ""}
		}
		switch c15Far(need) {
		case "beyond":
			return c15Expect{"reject", "beyond-free"}
		case "band":
			atomic.AddInt64(&st.bandEither, 1)
			return c15Expect{"either", ""}
		}
		if !op.NoGen {
			return c15Expect{"accept", ""}
		}
		return c15Expect{"either", ""} // cannot be satisfied without new files; the count clause judges an acceptance
	case "flags":
		if len(known) > 0 {
			return c15Expect{"accept", ""}
		}
		return c15Expect{"either", ""}
	}
	vk.Fatalf("C15 unknown op kind %q", op.Kind)
	return c15Expect{}
}

// c15APIClass tells whether the pre-checks the RPC layer runs before calling the keeper
// (api/util.go checkMinerDiskSize for ConfigureCapacity, SpaceKeeper.IsCapacityAvailable per
// directory for ConfigureCapacityByDirs) would have let this request through.
func c15APIClass(sk *SpaceKeeper, op c15Op, dirs []string, st *c15Stats) string {
	pass := true
	switch op.Kind {
	case "size":
		if op.Size < poc.ProofTypeDefault.PlotSize(poc.MinValidDefaultBitLength) || op.Size > sk.AvailableDiskSize() {
			pass = false
		}
	case "path":
		for i, p := range op.Paths {
			if err := sk.IsCapacityAvailable(dirs[p], op.Sizes[i]); err != nil {
				pass = false
			}
		}
	default:
		return "api-reachable"
	}
	if pass {
		atomic.AddInt64(&st.precheckPass, 1)
		return "api-reachable"
	}
	atomic.AddInt64(&st.precheckReject, 1)
	return "api-screened"
}

// ------------------------------------------------------------------ one case

type c15Runner struct {
	r  *vk.Run
	st *c15Stats
}

// viol reports a failed clause. Three classes are diagnostics, not violations
// (decided by the maintainer of the framework, see DESIGN.md C15):
//   - ".../api-screened": the keeper method misbehaves only for requests that the
//     RPC layer (api/spaces.v1.go: AvailableDiskSize / IsCapacityAvailable
//     pre-checks, replicated in c15APIClass) refuses before calling the keeper;
//     the property is stated at the API level, where these requests are rejected
//     without creating files;
//   - ".../auto-create-off...": needs the private allowGenerateNewSpace switch off,
//     which no constructor or API sets;
//   - "below-min-accepted/ByPath/one-of-several-dirs": a per-directory entry below
//     the minimum next to a valid entry; the property's minimum applies to the
//     request (when every directory is below it the code rejects).
func (x *c15Runner) viol(c c15Case, fp, format string, a ...interface{}) {
	if strings.HasSuffix(fp, "/api-screened") || strings.Contains(fp, "/auto-create-off") ||
		strings.Contains(fp, "below-min-accepted/ByPath/one-of-several-dirs") {
		x.r.Add("diagnostic:"+fp, 1)
		return
	}
	x.r.Violation(fp, fmt.Sprintf(format, a...)+" | case "+c.String(), c)
}

func c15Hist(m map[int]int) string {
	var ks []int
	for k := range m {
		ks = append(ks, k)
	}
	sort.Ints(ks)
	var sb strings.Builder
	for _, k := range ks {
		if m[k] != 0 {
			fmt.Fprintf(&sb, "%d:%d ", k, m[k])
		}
	}
	return strings.TrimSpace(sb.String())
}

// c15Root is one pair of scratch directories, owned by one worker at a time. The files of the
// already existing spaces (which depend only on the (bl, dir) sequence, never change because nothing
// is plotted, and are verified against the recorded listing before every case) are kept from case to
// case: creating and unlinking files is what bounds the throughput on the scratch file system.
type c15Root struct {
	dir      string
	key      string
	baseline map[string]bool
}

func c15SameList(a, b map[string]bool) bool {
	if len(a) != len(b) {
		return false
	}
	for k := range a {
		if !b[k] {
			return false
		}
	}
	return true
}

func (x *c15Runner) run(c c15Case, root *c15Root) (outcome string) {
	r, st := x.r, x.st
	dirs := []string{filepath.Join(root.dir, "d1"), filepath.Join(root.dir, "d2")}
	var kb strings.Builder
	for _, e := range c.Existing {
		fmt.Fprintf(&kb, "%d/%d/%v,", e.BL, e.Dir, e.Deleted)
	}
	key := kb.String()
	if root.baseline == nil || root.key != key || !c15SameList(c15List(dirs), root.baseline) {
		// d1 is a plain directory; d2 is reached through a symbolic link (a mounted disk linked into the data
		// directory): everything that names d2 goes through the link
		for i, d := range dirs {
			if err := os.RemoveAll(d); err != nil {
				vk.Fatalf("C15 wipe: %v", err)
			}
			if i == 1 {
				real := filepath.Join(root.dir, "disk2-real")
				if err := os.RemoveAll(real); err != nil {
					vk.Fatalf("C15 wipe: %v", err)
				}
				if err := os.MkdirAll(real, 0o755); err != nil {
					vk.Fatalf("C15 mkdir: %v", err)
				}
				if err := os.Symlink(real, d); err != nil {
					vk.Fatalf("C15 symlink: %v", err)
				}
				continue
			}
			if err := os.MkdirAll(d, 0o755); err != nil {
				vk.Fatalf("C15 mkdir: %v", err)
			}
		}
		// already existing spaces: created with the real NewWorkSpace (massdb.v1 CreateDB), then closed
		for i, e := range c.Existing {
			ws, err := NewWorkSpace(typeMassDBV1, dirs[e.Dir], int64(i), c15Keys[i], e.BL)
			if err != nil {
				vk.Fatalf("C15 setup NewWorkSpace: %v", err)
			}
			ws.db.Close()
		}
		root.key, root.baseline = key, c15List(dirs)
	}
	// remove whatever the case added (also after a violation), keep the existing spaces
	defer func() {
		for k := range c15List(dirs) {
			if !root.baseline[k] {
				d, _ := strconv.Atoi(k[:1])
				if err := os.RemoveAll(filepath.Join(dirs[d], k[2:])); err != nil {
					vk.Fatalf("C15 cleanup: %v", err)
				}
			}
		}
	}()
	atomic.AddInt64(&st.cases, 1)
	if len(c.Ops) > 1 {
		atomic.AddInt64(&st.twoOpCases, 1)
	}

	w := &c15Wallet{next: uint32(len(c.Existing))} // keys 0..n-1 were handed out for the existing spaces
	sk := c15NewKeeper(dirs, w)
	defer func() { c15CloseKeeper(sk) }()

	known, odd := c15Spaces(c15List(dirs))
	if len(odd) > 0 || len(known) != len(c.Existing) {
		vk.Fatalf("C15 setup: %d spaces on disk for %d requested, odd=%v", len(known), len(c.Existing), odd)
	}
	usedBefore := map[string]bool{}
	if len(c.Existing) > 0 {
		infos, err := sk.ConfigureByFlags(engine.SFAll, false, false)
		if err != nil || len(infos) != len(c.Existing) {
			vk.Fatalf("C15 setup ConfigureByFlags: %v, %d infos for %d spaces", err, len(infos), len(c.Existing))
		}
		for i, e := range c.Existing {
			sid := hex.EncodeToString(c15Keys[i].SerializeCompressed()) + "-" + strconv.Itoa(e.BL)
			if _, ok := known[sid]; !ok {
				vk.Fatalf("C15 setup: space %s not on disk", sid)
			}
			if e.Deleted {
				if err := sk.DeleteWS(sid); err != nil {
					vk.Fatalf("C15 setup DeleteWS: %v", err)
				}
			} else if e.Removed {
				if err := sk.RemoveWS(sid); err != nil {
					vk.Fatalf("C15 setup RemoveWS: %v", err)
				}
			} else {
				usedBefore[sid] = true
			}
		}
		// what is on disk now (a deleted space is gone)
		known, odd = c15Spaces(c15List(dirs))
		if len(odd) > 0 {
			vk.Fatalf("C15 setup: odd files after setup: %v", odd)
		}
	}

	modelDirs := map[int]bool{0: true, 1: true} // directories the keeper currently manages
	var lastSel map[string]engine.WorkSpaceInfo
	var outs []string

	for oi, op := range c.Ops {
		atomic.AddInt64(&st.ops, 1)
		r.Eval(1)
		kind := c15KindName[op.Kind]
		ki := c15KindIdx[op.Kind]
		exp := c15Expectation(op, known, st)
		switch {
		case exp.verdict == "accept":
			atomic.AddInt64(&st.mustAccept, 1)
		case exp.verdict == "either":
			atomic.AddInt64(&st.either, 1)
		case exp.reason == "below-min":
			atomic.AddInt64(&st.mustRejectBelowMin, 1)
		default:
			atomic.AddInt64(&st.mustRejectBeyond, 1)
		}
		api := c15APIClass(sk, op, dirs, st)
		if op.Kind == "size" || op.Kind == "path" {
			// the pre-checks themselves: far beyond free must be refused, far below free and >= minimum must pass
			if exp.reason == "beyond-free" && api != "api-screened" {
				x.viol(c, "C15/precheck/beyond-free-passed/"+kind, "op %d: the free-space pre-check lets a request far beyond free disk space through", oi)
			}
			if exp.verdict == "accept" && api == "api-screened" {
				x.viol(c, "C15/precheck/spurious-refusal/"+kind, "op %d: the free-space pre-check refuses a request far below free disk space", oi)
			}
		}

		before := c15List(dirs)
		sk.allowGenerateNewSpace = !op.NoGen
		var infos []engine.WorkSpaceInfo
		var err error
		pan := vk.Catch(func() {
			switch op.Kind {
			case "size":
				infos, err = sk.ConfigureBySize(op.Size, false, false)
			case "path":
				ps := make([]string, len(op.Paths))
				ss := make([]int, len(op.Paths))
				for i, p := range op.Paths {
					ps[i] = dirs[p]
					ss[i] = int(op.Sizes[i]) // the conversion of mining.ConfigurableSpaceKeeperV1.ConfigureByPath
				}
				infos, err = sk.ConfigureByPath(ps, ss, false, false)
			case "bl":
				m := map[int]int{}
				for k, n := range op.Counts {
					bl, _ := strconv.Atoi(k)
					m[bl] = n
				}
				infos, err = sk.ConfigureByBitLength(m, false, false)
			case "flags":
				infos, err = sk.ConfigureByFlags(engine.SFAll, false, false)
			}
		})
		sk.allowGenerateNewSpace = true
		if pan != "" {
			x.viol(c, "C15/panic/"+kind+"/"+vk.PanicSite(pan), "op %d panicked: %s", oi, pan)
			return "panic"
		}
		if op.Kind == "path" {
			modelDirs = map[int]bool{}
			for _, p := range op.Paths {
				modelDirs[p] = true
			}
		}

		after := c15List(dirs)
		for k := range before {
			if !after[k] {
				x.viol(c, "C15/file-removed/"+kind, "op %d: file %s disappeared during configuration", oi, k)
			}
		}
		newList := map[string]bool{}
		for k := range after {
			if !before[k] {
				newList[k] = true
			}
		}
		newSpaces, odd := c15Spaces(newList)
		if len(odd) > 0 {
			x.viol(c, "C15/new-file-odd/"+kind, "op %d: unexpected new directory entries %v", oi, odd)
		}
		for sid := range newSpaces {
			if _, ok := known[sid]; ok {
				x.viol(c, "C15/new-file-odd/"+kind, "op %d: new files for the already existing space %s", oi, sid)
			}
		}
		c15Max(&st.maxNewSpaces, int64(len(newSpaces)))

		if err != nil {
			// ---------------------------------------------------------------- rejected
			atomic.AddInt64(&st.rejected[ki], 1)
			if op.NoGen {
				atomic.AddInt64(&st.nogenRejected, 1)
			}
			outs = append(outs, "rejected("+err.Error()+")")
			if exp.verdict == "accept" {
				sub := ""
				if op.NoGen {
					sub = "/auto-create-off"
					if op.Kind == "bl" {
						// the request names a bit length with count 0 of which no space is indexed
						have := map[int]bool{}
						for _, s := range known {
							have[s.BL] = true
						}
						for k, n := range op.Counts {
							if bl, _ := strconv.Atoi(k); n == 0 && !have[bl] {
								sub = "/auto-create-off/zero-count-of-absent-bit-length"
							}
						}
					}
				}
				x.viol(c, "C15/spurious-reject/"+kind+sub, "op %d: a satisfiable request (>= minimum, far below free disk space) is rejected: %v", oi, err)
			}
			if len(newList) > 0 {
				why := exp.reason
				if why == "" {
					why = "other"
				}
				x.viol(c, "C15/reject-created-files/"+kind+"/"+why+"/"+api, "op %d rejected (%v) but created %d files: %v", oi, err, len(newList), c15Keys2(newList))
			} else {
				atomic.AddInt64(&st.rejectListingUnchanged, 1)
			}
		} else {
			// ---------------------------------------------------------------- accepted
			atomic.AddInt64(&st.accepted[ki], 1)
			if op.NoGen {
				atomic.AddInt64(&st.nogenAccepted, 1)
			}
			if exp.verdict == "reject" {
				sub := ""
				if op.Kind == "path" && len(op.Paths) > 1 {
					sub = "/one-of-several-dirs"
				}
				x.viol(c, "C15/"+exp.reason+"-accepted/"+kind+sub+"/"+api, "op %d: request that must be rejected (%s) was accepted with %d spaces", oi, exp.reason, len(infos))
			}
			sel := map[string]engine.WorkSpaceInfo{}
			for _, wi := range infos {
				if _, dup := sel[wi.SpaceID]; dup {
					x.viol(c, "C15/selection/duplicate/"+kind, "op %d: space %s is returned twice", oi, wi.SpaceID)
				}
				sel[wi.SpaceID] = wi
			}
			used, uerr := sk.WorkSpaceInfos(engine.SFAll)
			if uerr != nil {
				vk.Fatalf("C15 WorkSpaceInfos: %v", uerr)
			}
			usedSet := map[string]bool{}
			for _, wi := range used {
				usedSet[wi.SpaceID] = true
			}
			if len(usedSet) != len(sel) {
				x.viol(c, "C15/selection/returned-vs-in-use/"+kind, "op %d: returned %d spaces, keeper now uses %d", oi, len(sel), len(usedSet))
			} else {
				for sid := range sel {
					if !usedSet[sid] {
						x.viol(c, "C15/selection/returned-vs-in-use/"+kind, "op %d: returned space %s is not in use", oi, sid)
					}
				}
			}
			if !sk.Configured() {
				x.viol(c, "C15/selection/not-configured/"+kind, "op %d accepted but Configured() is false", oi)
			}
			// where every selected space lives
			where := map[string]c15OnDisk{}
			var total uint64
			perDir := map[int]uint64{}
			hist := map[int]int{}
			nReused := 0
			for sid, wi := range sel {
				d, ok := known[sid]
				wasKnown := ok
				if ok {
					nReused++
				} else if d, ok = newSpaces[sid]; !ok {
					x.viol(c, "C15/selection/unknown-space/"+kind, "op %d: selected space %s has no file on disk", oi, sid)
					continue
				}
				pkHex := hex.EncodeToString(wi.PublicKey.SerializeCompressed())
				wantOrd, okw := w.GetPublicKeyOrdinal(wi.PublicKey)
				if d.BL != wi.BitLength || d.PK != pkHex || !okw || int64(wantOrd) != wi.Ordinal || d.Ordinal != wi.Ordinal {
					x.viol(c, "C15/selection/identity/"+kind, "op %d: space %s reported as bl=%d ord=%d pk=%s, file says bl=%d ord=%d, wallet ordinal %d/%v",
						oi, sid, wi.BitLength, wi.Ordinal, pkHex, d.BL, d.Ordinal, wantOrd, okw)
				}
				where[sid] = d
				total += c15PlotSize(d.BL)
				perDir[d.Dir] += c15PlotSize(d.BL)
				hist[d.BL]++
				if usedBefore[sid] {
					atomic.AddInt64(&st.selectedUsedBefore, 1)
				} else if wasKnown {
					atomic.AddInt64(&st.selectedRemovedBefore, 1)
				}
			}
			for sid := range usedBefore {
				if _, ok := sel[sid]; !ok {
					atomic.AddInt64(&st.droppedUsedBefore, 1)
				}
			}
			c15Max(&st.maxSelection, int64(len(sel)))
			if len(newSpaces) == 0 {
				atomic.AddInt64(&st.reusedOnly, 1)
			} else {
				atomic.AddInt64(&st.createdSome, 1)
			}
			outs = append(outs, fmt.Sprintf("accepted(%d spaces, %d new, total %d, hist %s)", len(sel), len(newSpaces), total, c15Hist(hist)))
			// new files belong to the selection
			for sid := range newSpaces {
				if _, ok := sel[sid]; !ok {
					x.viol(c, "C15/new-file-not-selected/"+kind, "op %d: created space %s is not part of the selection", oi, sid)
				}
			}
			if op.NoGen && len(newSpaces) > 0 {
				x.viol(c, "C15/nogen-created-files/"+kind, "op %d: auto-create disabled but %d spaces were created", oi, len(newSpaces))
			}

			switch op.Kind {
			case "size":
				atomic.AddInt64(&st.boundChecks, 1)
				st.distinctTotals.Store(total, true)
				if total > op.Size {
					x.viol(c, "C15/over-request/BySize", "op %d: selection totals %d bytes > requested %d", oi, total, op.Size)
				} else if op.Size-total >= c15S24 {
					x.viol(c, "C15/short-of-request/BySize", "op %d: selection totals %d bytes, short of requested %d by %d >= smallest plot size %d", oi, total, op.Size, op.Size-total, c15S24)
				}
			case "path":
				req := map[int]int{}
				for i, p := range op.Paths {
					req[p] = i
				}
				for sid, d := range where {
					if _, ok := req[d.Dir]; !ok {
						x.viol(c, "C15/selection-outside-dirs/ByPath", "op %d: selected space %s lives in d%d which was not requested", oi, sid, d.Dir+1)
					}
				}
				for p, i := range req {
					atomic.AddInt64(&st.boundChecks, 1)
					t := op.Sizes[i]
					if exp.verdict == "reject" {
						continue // already reported; a per-directory bound of an unsatisfiable entry is meaningless
					}
					if perDir[p] > t {
						x.viol(c, "C15/over-request/ByPath", "op %d: d%d selection totals %d bytes > requested %d", oi, p+1, perDir[p], t)
					} else if t-perDir[p] >= c15S24 {
						x.viol(c, "C15/short-of-request/ByPath", "op %d: d%d selection totals %d bytes, short of requested %d by >= smallest plot size", oi, p+1, perDir[p], t)
					}
				}
			case "bl":
				atomic.AddInt64(&st.countChecks, 1)
				want := map[int]int{}
				for k, n := range op.Counts {
					bl, _ := strconv.Atoi(k)
					want[bl] = n
				}
				if c15Hist(want) != c15Hist(hist) {
					x.viol(c, "C15/counts/ByBitLength", "op %d: requested counts {%s}, selection has {%s}", oi, c15Hist(want), c15Hist(hist))
				}
			case "flags":
				if len(sel) != len(known) || len(newSpaces) != 0 {
					x.viol(c, "C15/flags/ByFlags", "op %d: ByFlags(all) selected %d of %d indexed spaces and created %d", oi, len(sel), len(known), len(newSpaces))
				}
			}
			// new files only in the requested directories
			for sid, d := range newSpaces {
				atomic.AddInt64(&st.dirChecks, 1)
				if !modelDirs[d.Dir] {
					x.viol(c, "C15/new-file-outside-dirs/"+kind, "op %d: new space %s created in d%d, which is not a requested/managed directory", oi, sid, d.Dir+1)
				}
			}
			// reuse before create: a new space of bit length b (in directory D for ByPath) implies that
			// every already indexed space of that bit length (and directory) is part of the selection
			for nsid, nd := range newSpaces {
				for ksid, kd := range known {
					if kd.BL != nd.BL || (op.Kind == "path" && kd.Dir != nd.Dir) {
						continue
					}
					atomic.AddInt64(&st.reuseClauseChecked, 1)
					if _, ok := sel[ksid]; !ok {
						x.viol(c, "C15/reuse-before-create/"+kind, "op %d: space %s (bl %d, d%d) was created although indexed space %s (bl %d, d%d) is not selected",
							oi, nsid, nd.BL, nd.Dir+1, ksid, kd.BL, kd.Dir+1)
					}
				}
			}
			lastSel = sel
			usedBefore = map[string]bool{}
			for sid := range sel {
				usedBefore[sid] = true
			}
		}
		for sid, d := range newSpaces {
			known[sid] = d
		}
	}

	// ---------------------------------------------------------------- restart
	if lastSel != nil {
		atomic.AddInt64(&st.restartChecks, 1)
		sk2 := c15NewKeeper(dirs, w)
		infos2, err := sk2.ConfigureByFlags(engine.SFAll, false, false)
		if err != nil && len(lastSel) > 0 {
			x.viol(c, "C15/restart/configure-failed", "second keeper cannot configure the indexed spaces: %v", err)
		}
		m2 := map[string]engine.WorkSpaceInfo{}
		for _, wi := range infos2 {
			m2[wi.SpaceID] = wi
		}
		for sid, wi := range lastSel {
			atomic.AddInt64(&st.restartSpaces, 1)
			w2, ok := m2[sid]
			if !ok {
				x.viol(c, "C15/restart/missing", "selected space %s (bl %d ord %d) is not indexed by a second keeper on the same directories", sid, wi.BitLength, wi.Ordinal)
				continue
			}
			if w2.Ordinal != wi.Ordinal || w2.BitLength != wi.BitLength ||
				hex.EncodeToString(w2.PublicKey.SerializeCompressed()) != hex.EncodeToString(wi.PublicKey.SerializeCompressed()) {
				x.viol(c, "C15/restart/mismatch", "space %s: before restart bl=%d ord=%d, after restart bl=%d ord=%d", sid, wi.BitLength, wi.Ordinal, w2.BitLength, w2.Ordinal)
			}
		}
		c15CloseKeeper(sk2)
	}
	return strings.Join(outs, " ; ")
}

func c15Keys2(m map[string]bool) []string {
	var out []string
	for k := range m {
		// shorten the public key for readability
		out = append(out, "d"+string(k[0]+1)+k[1:])
	}
	sort.Strings(out)
	return out
}

// ------------------------------------------------------------------ domain

// c15Multisets: every multiset of at most maxN existing spaces over bl x dir (x {used, removed} when
// withStatus; otherwise the i-th member of a multiset is "removed" iff i is odd).
func c15Multisets(maxN int, withStatus bool) [][]c15Space {
	var types []c15Space
	for _, bl := range c15BLs {
		for d := 0; d < 2; d++ {
			if withStatus {
				types = append(types, c15Space{BL: bl, Dir: d, Removed: false}, c15Space{BL: bl, Dir: d, Removed: true})
				if bl <= 26 {
					types = append(types, c15Space{BL: bl, Dir: d, Deleted: true})
				}
			} else {
				types = append(types, c15Space{BL: bl, Dir: d})
			}
		}
	}
	var out [][]c15Space
	var rec func(start int, cur []c15Space)
	rec = func(start int, cur []c15Space) {
		m := append([]c15Space{}, cur...)
		if !withStatus {
			for i := range m {
				m[i].Removed = i%2 == 1
			}
		}
		out = append(out, m)
		if len(cur) == maxN {
			return
		}
		for i := start; i < len(types); i++ {
			rec(i, append(cur, types[i]))
		}
	}
	rec(0, nil)
	sort.SliceStable(out, func(i, j int) bool { return len(out[i]) < len(out[j]) })
	return out
}

func c15SizeTargets(maxMul uint64) []uint64 {
	set := map[uint64]bool{0: true, c15S24 - 1: true, c15S24: true, 1 << 60: true, 1 << 63: true, ^uint64(0): true}
	for a := uint64(0); a <= maxMul; a++ {
		for b := uint64(0); b <= maxMul; b++ {
			for c := uint64(0); c <= maxMul; c++ {
				s := a*c15S24 + b*c15S26 + c*c15S28
				set[s] = true
				set[s+1] = true
				if s > 0 {
					set[s-1] = true
				}
			}
		}
	}
	var out []uint64
	for s := range set {
		out = append(out, s)
	}
	sort.Slice(out, func(i, j int) bool { return out[i] < out[j] })
	return out
}

func c15CountMaps(maxCount int) []map[string]int {
	var out []map[string]int
	for a := 0; a <= maxCount; a++ {
		for b := 0; b <= maxCount; b++ {
			for c := 0; c <= maxCount; c++ {
				for d := 0; d <= maxCount; d++ {
					// a count of 0 is expressed both ways over the whole enumeration: as an explicit 0 entry
					// when (a+b+c+d) is even and by leaving the key out when it is odd
					m := map[string]int{}
					for i, n := range []int{a, b, c, d} {
						if n > 0 || (a+b+c+d)%2 == 0 {
							m[strconv.Itoa(c15BLs[i])] = n
						}
					}
					out = append(out, m)
				}
			}
		}
	}
	// beyond free disk space: one bl-40 space is 10 TiB
	out = append(out, map[string]int{"40": 1}, map[string]int{"24": 1, "40": 1}, map[string]int{"26": 2, "28": 1, "40": 2})
	return out
}

func c15Ops(thorough bool) []c15Op {
	var ops []c15Op
	mul := uint64(2)
	if thorough {
		mul = 3
	}
	targets := c15SizeTargets(mul)
	pair := []uint64{0, c15S24 - 1, c15S24, 2*c15S24 + 1, c15S26 - 1, c15S26 + c15S24, c15S28, 1 << 60, 1 << 63}
	if thorough {
		pair = append(pair, c15S24+c15S26+c15S28+1, 3*c15S24, 2*c15S26-1, ^uint64(0))
	}
	for _, nogen := range []bool{false, true} {
		for _, t := range targets {
			ops = append(ops, c15Op{Kind: "size", Size: t, NoGen: nogen})
		}
		for d := 0; d < 2; d++ {
			for _, t := range targets {
				ops = append(ops, c15Op{Kind: "path", Paths: []int{d}, Sizes: []uint64{t}, NoGen: nogen})
			}
		}
		for _, order := range [][]int{{0, 1}, {1, 0}} {
			for _, s1 := range pair {
				for _, s2 := range pair {
					ops = append(ops, c15Op{Kind: "path", Paths: order, Sizes: []uint64{s1, s2}, NoGen: nogen})
				}
			}
		}
		for _, m := range c15CountMaps(int(mul)) {
			ops = append(ops, c15Op{Kind: "bl", Counts: m, NoGen: nogen})
		}
	}
	ops = append(ops, c15Op{Kind: "flags"})
	return ops
}

// c15SeqOps: the reduced alphabet used for sequences of two reconfigurations.
func c15SeqOps() []c15Op {
	var ops []c15Op
	for _, nogen := range []bool{false, true} {
		for _, t := range []uint64{c15S24, c15S24 + c15S26 + 1, 2*c15S28 - 1, 3*c15S24 + 2*c15S26, 1 << 60} {
			ops = append(ops, c15Op{Kind: "size", Size: t, NoGen: nogen})
		}
		for d := 0; d < 2; d++ {
			for _, t := range []uint64{c15S24, c15S26 + c15S24, 1 << 60} {
				ops = append(ops, c15Op{Kind: "path", Paths: []int{d}, Sizes: []uint64{t}, NoGen: nogen})
			}
		}
		for _, m := range []map[string]int{{"24": 1}, {"24": 2, "26": 1}, {"26": 1, "28": 1, "30": 1}, {"24": 3}, {"28": 0, "24": 1}, {"40": 1}} {
			ops = append(ops, c15Op{Kind: "bl", Counts: m, NoGen: nogen})
		}
	}
	for _, order := range [][]int{{0, 1}, {1, 0}} {
		for _, ss := range [][]uint64{{c15S24, c15S26}, {c15S26 + 1, c15S24}, {c15S24, 0}, {c15S24, 1 << 60}} {
			ops = append(ops, c15Op{Kind: "path", Paths: order, Sizes: ss})
		}
	}
	ops = append(ops, c15Op{Kind: "flags"})
	return ops
}

// ------------------------------------------------------------------ test

func TestVerifC15(t *testing.T) {
	r := vk.Start("C15", "exploration")
	scratch := os.Getenv("VERIF_SCRATCH")
	if scratch == "" {
		scratch = t.TempDir()
	}
	logging.Init(filepath.Join(scratch, "log"), "x", "fatal", 1, true)
	c15InitKeys()

	// the reference sizes must be the code's plot sizes (otherwise the harness is wrong, not the code)
	for bl, s := range map[int]uint64{24: c15S24, 26: c15S26, 28: c15S28, 30: c15S30, 40: c15S40} {
		if poc.ProofTypeDefault.PlotSize(bl) != s || c15PlotSize(bl) != s {
			vk.Fatalf("C15 plot size of bl %d: reference %d, code %d", bl, s, poc.ProofTypeDefault.PlotSize(bl))
		}
	}
	base := filepath.Join(scratch, "c15")
	if err := os.MkdirAll(base, 0o755); err != nil {
		vk.Fatalf("C15 mkdir: %v", err)
	}
	u, err := disk.Usage(base)
	if err != nil {
		vk.Fatalf("C15 statfs: %v", err)
	}
	c15Free = u.Free
	r.Set("scratch_free_bytes", c15Free)
	r.Assume(
		"free-disk figures come from the real statfs of the scratch file system (not injectable): requests are classified 'far below' (< free/3, must be accepted) or 'far beyond' (> 3*free, must be rejected); a request in between may go either way (count in coverage.band_either)",
		"plot files stay header-only (massdb.v1 expandMapFile is a no-op, nothing is plotted): every existing space is in state registered",
		"fake wallet: key #n has ordinal n, never locked, never fails; ByPath sizes >= 2^63 are passed as int(size) exactly as mining.ConfigurableSpaceKeeperV1.ConfigureByPath does",
		"ordinals of the already existing spaces follow the canonical order of the multiset (one ordinal assignment per multiset)",
	)

	st := &c15Stats{}
	x := &c15Runner{r: r, st: st}
	pool := make(chan *c15Root, vk.Workers())
	for i := 0; i < vk.Workers(); i++ {
		pool <- &c15Root{dir: filepath.Join(base, "w"+strconv.Itoa(i))}
	}

	if p := r.ReplayPath(); p != "" {
		var c c15Case
		vk.LoadReplay(p, &c)
		out := x.run(c, &c15Root{dir: filepath.Join(base, "replay")})
		fmt.Printf("VERIF-REPLAY case %s -> %s\n", c.String(), out)
		r.DistinctN(2)
		r.Sample(map[string]interface{}{"case": c, "outcome": out})
		r.Finish("replay of one recorded case")
		return
	}

	thorough := r.Thorough()
	maxExisting := vk.Pick(r, 2, 4)
	existing := c15Multisets(2, true)
	if thorough {
		// 3 and 4 existing spaces: every multiset over bl x dir, used/removed alternating (the full
		// status product for <=2); the file system bounds the throughput to ~1000 cases/s
		for _, m := range c15Multisets(4, false) {
			if len(m) >= 3 {
				existing = append(existing, m)
			}
		}
	}
	ops := c15Ops(thorough)
	r.Set("existing_multisets", len(existing))
	r.Set("single_ops", len(ops))

	// a job is a chunk of consecutive cases that share the multiset of existing spaces
	const chunk = 48
	runJobs := func(name string, nExisting, nPer int, mk func(e, j int) c15Case) {
		var nontrivial int64
		perE := (nPer + chunk - 1) / chunk
		total := nExisting * nPer
		vk.ParallelFor(nExisting*perE, func(job int) {
			e, k := job/perE, job%perE
			root := <-pool
			defer func() { pool <- root }()
			for j := k * chunk; j < (k+1)*chunk && j < nPer; j++ {
				if r.Expired() {
					r.Cap("deadline reached in phase " + name)
					return
				}
				c := mk(e, j)
				out := x.run(c, root)
				if strings.Contains(out, "accepted(") {
					atomic.AddInt64(&nontrivial, 1)
				}
				i := e*nPer + j
				if i%(total/4+1) == total/8 {
					r.Sample(map[string]interface{}{"phase": name, "case": c, "outcome": out})
				}
			}
		})
		r.DistinctN(int(nontrivial))
		r.Set("cases_"+name, total)
	}

	// phase 1: every multiset of existing spaces x every single request
	runJobs("single", len(existing), len(ops), func(e, j int) c15Case {
		return c15Case{Existing: existing[e], Ops: []c15Op{ops[j]}}
	})

	// phase 2: sequences of two requests (reduced alphabet) on the same keeper
	sops := c15SeqOps()
	sex := c15Multisets(vk.Pick(r, 1, 2), r.Quick())
	r.Set("seq_ops", len(sops))
	r.Set("seq_existing_multisets", len(sex))
	runJobs("pairs", len(sex), len(sops)*len(sops), func(e, j int) c15Case {
		return c15Case{Existing: sex[e], Ops: []c15Op{sops[j/len(sops)], sops[j%len(sops)]}}
	})

	nTotals := 0
	st.distinctTotals.Range(func(_, _ interface{}) bool { nTotals++; return true })
	r.Set("ops_evaluated", st.ops)
	r.Set("accepted_by_kind", map[string]int64{"BySize": st.accepted[0], "ByPath": st.accepted[1], "ByBitLength": st.accepted[2], "ByFlags": st.accepted[3]})
	r.Set("rejected_by_kind", map[string]int64{"BySize": st.rejected[0], "ByPath": st.rejected[1], "ByBitLength": st.rejected[2], "ByFlags": st.rejected[3]})
	r.Set("expect_must_accept", st.mustAccept)
	r.Set("expect_must_reject_below_min", st.mustRejectBelowMin)
	r.Set("expect_must_reject_beyond_free", st.mustRejectBeyond)
	r.Set("expect_either", st.either)
	r.Set("band_either", st.bandEither)
	r.Set("accepted_reusing_only", st.reusedOnly)
	r.Set("accepted_creating_files", st.createdSome)
	r.Set("reuse_clause_pairs_checked", st.reuseClauseChecked)
	r.Set("nogen_accepted", st.nogenAccepted)
	r.Set("nogen_rejected", st.nogenRejected)
	r.Set("size_bound_checks", st.boundChecks)
	r.Set("distinct_bysize_totals", nTotals)
	r.Set("count_checks", st.countChecks)
	r.Set("new_space_directory_checks", st.dirChecks)
	r.Set("rejections_with_listing_unchanged", st.rejectListingUnchanged)
	r.Set("restart_checks", st.restartChecks)
	r.Set("restart_spaces_compared", st.restartSpaces)
	r.Set("precheck_pass", st.precheckPass)
	r.Set("precheck_reject", st.precheckReject)
	r.Set("selected_used_before", st.selectedUsedBefore)
	r.Set("selected_removed_before", st.selectedRemovedBefore)
	r.Set("dropped_used_before", st.droppedUsedBefore)
	r.Set("max_new_spaces_in_one_request", st.maxNewSpaces)
	r.Set("max_selection", st.maxSelection)
	r.Set("two_request_cases", st.twoOpCases)
	fmt.Printf("VERIF-INFO C15 cases=%d ops=%d accepted=%v rejected=%v mustAccept=%d mustRejectBelowMin=%d mustRejectBeyond=%d either=%d band=%d reuseOnly=%d created=%d reusePairs=%d restart=%d/%d\n",
		st.cases, st.ops, st.accepted, st.rejected, st.mustAccept, st.mustRejectBelowMin, st.mustRejectBeyond, st.either, st.bandEither,
		st.reusedOnly, st.createdSome, st.reuseClauseChecked, st.restartChecks, st.restartSpaces)

	r.Finish(fmt.Sprintf("every multiset of <=%d existing spaces over bl{24,26,28,30} x {d1,d2} x {used,removed} x every single request of the alphabet "+
		"(BySize / ByPath 1-2 dirs / ByBitLength counts 0..3 / ByFlags, auto-create on and off); plus every pair of requests of the reduced alphabet; second keeper after each case", maxExisting))
}
