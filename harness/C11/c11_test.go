//go:build go1.21

package capacity

// C11 — Plot files are deleted only on request and loaded only if they match.
//
// Bounded-exhaustive exploration of the real SpaceKeeper (exported constructor
// NewSpaceKeeperV1, real massdb.v1 backend, deterministic fake PoC wallet) in
// scratch directories.  Two parts, nothing is sampled:
//
//  (a) START-UP: every combination of at most 3 (quick) / 4 (thorough) entries of
//      a menu of small plot-directory contents (valid, renamed, foreign key,
//      wrong header, truncated, duplicated across directories, legacy names,
//      case variants, unrelated files) placed in one of two directories.  The
//      oracle is computed from the way the harness built each entry, never by
//      parsing what the keeper reports.
//  (b) HISTORIES: every sequence of 3 (quick) / 4 (thorough) actions of
//      {plot, mine, stop, remove, delete} x {space, bulk} plus "release the held
//      plot" on a started keeper, with a full directory listing (names, sizes,
//      content hashes) before and after every action and every gate release.
//      The plotter goroutine is parked at the verif gates "idle"/"step1.done"
//      (hook H2), so a space can be held in state plotting; massdb Plot() itself
//      is replaced by a wrapper that returns at once (bit length 24 plotting
//      takes ~40 s) – Delete/Close go to the real massdb.v1.

import (
	"context"
	"crypto/sha256"
	"encoding/binary"
	"encoding/hex"
	"encoding/json"
	"fmt"
	"os"
	"path/filepath"
	"regexp"
	"sort"
	"strconv"
	"strings"
	"sync"
	"sync/atomic"
	"testing"
	"time"

	"github.com/massnetorg/mass-core/logging"
	"github.com/massnetorg/mass-core/poc"
	"github.com/massnetorg/mass-core/poc/pocutil"
	"github.com/massnetorg/mass-core/pocec"
	"massnet.org/mass/config"
	"massnet.org/mass/poc/engine"
	"massnet.org/mass/poc/engine/massdb"
	massdb_v1 "massnet.org/mass/poc/engine/massdb/massdb.v1"
	"massnet.org/mass/zz_verif/vk"
)

// ------------------------------------------------------------------ wallet

const (
	c11NKeys   = 8
	c11Issued  = 3 // keys #0..#2 are known to the wallet; key #n has ordinal n
	c11Foreign = 5 // a key the wallet does not know
)

var (
	c11Keys   []*pocec.PublicKey
	c11Hex    []string // lower-case hex of the compressed key
	c11HEX    []string // upper-case
	c11KeyIdx = map[string]int{}
)

func c11InitKeys() {
	for n := 0; n < c11NKeys; n++ {
		var b [32]byte
		b[31] = byte(n + 1)
		b[30] = 0x11
		_, pub := pocec.PrivKeyFromBytes(pocec.S256(), b[:])
		c11Keys = append(c11Keys, pub)
		h := hex.EncodeToString(pub.SerializeCompressed())
		c11Hex = append(c11Hex, h)
		c11HEX = append(c11HEX, strings.ToUpper(h))
		c11KeyIdx[string(pub.SerializeCompressed())] = n
	}
}

type c11Wallet struct{}

func (c11Wallet) GenerateNewPublicKey() (*pocec.PublicKey, uint32, error) {
	return nil, 0, fmt.Errorf("c11 wallet issues no new keys")
}
func (c11Wallet) GetPublicKeyOrdinal(pk *pocec.PublicKey) (uint32, bool) {
	n, ok := c11KeyIdx[string(pk.SerializeCompressed())]
	if !ok || n >= c11Issued {
		return 0, false // as the real keystore manager does for a key it does not hold
	}
	return uint32(n), true
}
func (c11Wallet) SignMessage(*pocec.PublicKey, []byte) (*pocec.Signature, error) {
	return nil, fmt.Errorf("c11 wallet does not sign")
}
func (c11Wallet) Unlock([]byte) error { return nil }
func (c11Wallet) Lock()               {}
func (c11Wallet) IsLocked() bool      { return false }

func c11SID(k, bl int) string { return c11Hex[k] + "-" + strconv.Itoa(bl) }

// ------------------------------------------------------------------ file material

type c11Tmpl struct{ A, B []byte }

var c11T = map[[2]int]c11Tmpl{} // (key, bl) -> header-only files written by the real massdb.v1 CreateDB

func c11MakeTemplates(dir string) {
	for _, k := range []int{0, 1, 2, c11Foreign} {
		for _, bl := range []int{24, 26} {
			sub := filepath.Join(dir, fmt.Sprintf("k%d_%d", k, bl))
			db, err := massdb_v1.CreateDB(sub, int64(k), c11Keys[k], bl)
			if err != nil {
				vk.Fatalf("C11 template CreateDB: %v", err)
			}
			db.Close()
			b, err1 := os.ReadFile(filepath.Join(sub, fmt.Sprintf("%d_%s_%d.massdb", k, c11Hex[k], bl)))
			a, err2 := os.ReadFile(filepath.Join(sub, fmt.Sprintf("%d_%s_%d_a.massdb", k, c11Hex[k], bl)))
			if err1 != nil || err2 != nil || len(a) != massdb_v1.PosProofData || len(b) != massdb_v1.PosProofData {
				vk.Fatalf("C11 template files: %v %v len %d %d", err1, err2, len(a), len(b))
			}
			c11T[[2]int{k, bl}] = c11Tmpl{A: a, B: b}
		}
	}
}

// c11Proof is one valid proof record of key k at bit length 24 (found by a birthday search over P(x)).
type c11Proof struct {
	Z         uint64
	X, XP     pocutil.PoCValue
	Challenge pocutil.Hash
}

var c11Proofs = map[int]c11Proof{}

func c11FindProof(k int) c11Proof {
	const bl = 24
	const n = 1 << 19
	h := pocutil.PubKeyHash(c11Keys[k])
	seen := make(map[pocutil.PoCValue]uint32, n)
	best := c11Proof{Z: 1 << 62}
	for x := uint32(0); x < n; x++ {
		y := pocutil.P(pocutil.PoCValue(x), bl, h)
		if o, ok := seen[pocutil.FlipValue(y, bl)]; ok {
			for _, pr := range [][2]pocutil.PoCValue{{pocutil.PoCValue(x), pocutil.PoCValue(o)}, {pocutil.PoCValue(o), pocutil.PoCValue(x)}} {
				if z := uint64(pocutil.F(pr[0], pr[1], bl, h)); z < best.Z {
					best = c11Proof{Z: z, X: pr[0], XP: pr[1]}
				}
			}
		}
		seen[y] = x
	}
	if best.Z > 1<<16 {
		vk.Fatalf("C11 proof search for key %d found nothing small (z=%d)", k, best.Z)
	}
	for i := range best.Challenge {
		best.Challenge[i] = 0xC1
	}
	binary.LittleEndian.PutUint64(best.Challenge[:8], best.Z|0xABCDEF<<24)
	p := &poc.DefaultProof{X: pocutil.PoCValue2Bytes(best.X, bl), XPrime: pocutil.PoCValue2Bytes(best.XP, bl), BL: bl}
	if err := poc.VerifyProof(p, h, best.Challenge, false); err != nil {
		vk.Fatalf("C11 constructed proof of key %d does not verify: %v", k, err)
	}
	return best
}

func c11Clone(b []byte) []byte { return append([]byte{}, b...) }

// c11ReadyB: B file of key k whose recorded progress is complete (checkpoint = volume/2); at bit
// length 24 it also holds the one valid proof record of the key (file ends right after it).
func c11ReadyB(k, bl int) []byte {
	b := c11Clone(c11T[[2]int{k, bl}].B)
	binary.LittleEndian.PutUint64(b[massdb_v1.PosCheckpoint:], 1<<uint(bl-1))
	if bl == 24 {
		p := c11Proofs[k]
		rs := pocutil.RecordSize(bl)
		nb := make([]byte, massdb_v1.PosProofData+(int(p.Z)+1)*rs*2)
		copy(nb, b)
		off := massdb_v1.PosProofData + int(p.Z)*rs*2
		copy(nb[off:], pocutil.PoCValue2Bytes(p.X, bl))
		copy(nb[off+rs:], pocutil.PoCValue2Bytes(p.XP, bl))
		b = nb
	}
	return b
}

func c11BName(ord, k, bl int) string { return fmt.Sprintf("%d_%s_%d.massdb", ord, c11Hex[k], bl) }
func c11AName(ord, k, bl int) string { return fmt.Sprintf("%d_%s_%d_a.massdb", ord, c11Hex[k], bl) }

// ------------------------------------------------------------------ menu (part a)

const (
	c11No  = 0 // must not be indexed
	c11Yes = 1 // must be indexed (well-formed, header matches name, key and ordinal belong to the wallet)
	c11Und = 2 // not decided by the property text (case variants ...): only "nothing lost" and "no proofs" are checked
)

type c11File struct {
	Name     string
	Data     []byte
	IsDir    bool
	Upgraded string // legacy-named file of a wallet key: the name the legacy upgrade gives it ("" otherwise)
}

type c11Entry struct {
	Kind     string
	Files    []c11File
	SID      string // the space the (B) file name denotes; "" for unrelated files
	Index    int
	Ready    bool
	ProofKey int // key whose challenge finds a proof record in this entry's B file (-1: none)
}

var c11Menu []c11Entry
var c11MenuIdx = map[string]int{}

func c11BuildMenu() {
	add := func(e c11Entry) {
		c11MenuIdx[e.Kind] = len(c11Menu)
		c11Menu = append(c11Menu, e)
	}
	T := func(k, bl int) c11Tmpl { return c11T[[2]int{k, bl}] }
	F := func(name string, data []byte) c11File { return c11File{Name: name, Data: data} }
	patch := func(b []byte, pos int, v ...byte) []byte {
		b = c11Clone(b)
		copy(b[pos:], v)
		return b
	}
	KF := c11Foreign

	// --- valid
	add(c11Entry{Kind: "valid-registered", SID: c11SID(0, 24), Index: c11Yes, ProofKey: -1,
		Files: []c11File{F(c11BName(0, 0, 24), T(0, 24).B), F(c11AName(0, 0, 24), T(0, 24).A)}})
	add(c11Entry{Kind: "valid-ready", SID: c11SID(1, 24), Index: c11Yes, Ready: true, ProofKey: 1,
		Files: []c11File{F(c11BName(1, 1, 24), c11ReadyB(1, 24))}})
	add(c11Entry{Kind: "valid-ready-k0", SID: c11SID(0, 24), Index: c11Yes, Ready: true, ProofKey: 0,
		Files: []c11File{F(c11BName(0, 0, 24), c11ReadyB(0, 24))}})
	add(c11Entry{Kind: "valid-registered-k2", SID: c11SID(2, 24), Index: c11Yes, ProofKey: -1,
		Files: []c11File{F(c11BName(2, 2, 24), T(2, 24).B), F(c11AName(2, 2, 24), T(2, 24).A)}})
	// pre-plot finished (A checkpoint = volume), plot a quarter done (B checkpoint = volume/4): still registered
	pa, pb := c11Clone(T(0, 26).A), c11Clone(T(0, 26).B)
	binary.LittleEndian.PutUint64(pa[massdb_v1.PosCheckpoint:], 1<<26)
	binary.LittleEndian.PutUint64(pb[massdb_v1.PosCheckpoint:], 1<<24)
	add(c11Entry{Kind: "valid-registered-partly-plotted", SID: c11SID(0, 26), Index: c11Yes, ProofKey: -1,
		Files: []c11File{F(c11BName(0, 0, 26), pb), F(c11AName(0, 0, 26), pa)}})
	// --- renamed
	add(c11Entry{Kind: "renamed-ordinal-plus-1", SID: c11SID(0, 24), Index: c11No, ProofKey: -1,
		Files: []c11File{F(c11BName(1, 0, 24), T(0, 24).B), F(c11AName(1, 0, 24), T(0, 24).A)}})
	add(c11Entry{Kind: "renamed-ordinal-minus-1", SID: c11SID(1, 24), Index: c11No, ProofKey: 1,
		Files: []c11File{F(c11BName(0, 1, 24), c11ReadyB(1, 24))}})
	add(c11Entry{Kind: "renamed-other-issued-key", SID: c11SID(2, 24), Index: c11No, ProofKey: 1,
		Files: []c11File{F(c11BName(2, 2, 24), c11ReadyB(1, 24))}})
	add(c11Entry{Kind: "renamed-bl-24-as-26", SID: c11SID(0, 26), Index: c11No, ProofKey: -1,
		Files: []c11File{F(c11BName(0, 0, 26), T(0, 24).B), F(c11AName(0, 0, 26), T(0, 24).A)}})
	add(c11Entry{Kind: "renamed-bl-26-as-24", SID: c11SID(1, 24), Index: c11No, ProofKey: -1,
		Files: []c11File{F(c11BName(1, 1, 24), c11ReadyB(1, 26))}})
	// --- foreign key
	add(c11Entry{Kind: "foreign-key", SID: c11SID(KF, 24), Index: c11No, ProofKey: KF,
		Files: []c11File{F(c11BName(0, KF, 24), c11ReadyB(KF, 24))}})
	// --- wrong header (all under the name of key #2, bl 24, recorded progress complete)
	r2 := c11ReadyB(2, 24)
	add(c11Entry{Kind: "header-bad-filecode", SID: c11SID(2, 24), Index: c11No, ProofKey: 2,
		Files: []c11File{F(c11BName(2, 2, 24), patch(r2, massdb_v1.PosFileCode, r2[massdb_v1.PosFileCode]^0x01))}})
	add(c11Entry{Kind: "header-bad-version", SID: c11SID(2, 24), Index: c11No, ProofKey: 2,
		Files: []c11File{F(c11BName(2, 2, 24), patch(r2, massdb_v1.PosVersion, 2))}})
	add(c11Entry{Kind: "header-pubkeyhash-mismatch", SID: c11SID(2, 24), Index: c11No, ProofKey: 2,
		Files: []c11File{F(c11BName(2, 2, 24), patch(r2, massdb_v1.PosPubKeyHash+5, r2[massdb_v1.PosPubKeyHash+5]^0x80))}})
	add(c11Entry{Kind: "header-type-a-under-b-name", SID: c11SID(2, 24), Index: c11No, ProofKey: 2,
		Files: []c11File{F(c11BName(2, 2, 24), patch(r2, massdb_v1.PosType, byte(massdb_v1.MapTypeHashMapA)))}})
	add(c11Entry{Kind: "header-type-invalid", SID: c11SID(2, 24), Index: c11No, ProofKey: 2,
		Files: []c11File{F(c11BName(2, 2, 24), patch(r2, massdb_v1.PosType, 7))}})
	blm := patch(r2, massdb_v1.PosBitLength, 26)
	binary.LittleEndian.PutUint64(blm[massdb_v1.PosCheckpoint:], 1<<25)
	add(c11Entry{Kind: "header-bl-byte-mismatch", SID: c11SID(2, 24), Index: c11No, ProofKey: 2,
		Files: []c11File{F(c11BName(2, 2, 24), blm)}})
	add(c11Entry{Kind: "header-pubkey-garbage", SID: c11SID(2, 24), Index: c11No, ProofKey: 2,
		Files: []c11File{F(c11BName(2, 2, 24), patch(r2, massdb_v1.PosPubKey, make([]byte, massdb_v1.LenPubKey)...))}})
	// --- truncated
	for _, n := range []int{0, 100, 4095} {
		add(c11Entry{Kind: "truncated-" + strconv.Itoa(n), SID: c11SID(2, 24), Index: c11No, ProofKey: -1,
			Files: []c11File{F(c11BName(2, 2, 24), c11Clone(r2[:n]))}})
	}
	add(c11Entry{Kind: "registered-a-truncated", SID: c11SID(2, 24), Index: c11No, ProofKey: -1,
		Files: []c11File{F(c11BName(2, 2, 24), T(2, 24).B), F(c11AName(2, 2, 24), c11Clone(T(2, 24).A[:100]))}})
	// --- legacy names
	add(c11Entry{Kind: "legacy-lowercase", SID: c11SID(0, 24), Index: c11Yes, ProofKey: -1,
		Files: []c11File{
			{Name: c11Hex[0] + "-24-B.massdb", Data: T(0, 24).B, Upgraded: c11BName(0, 0, 24)},
			{Name: c11Hex[0] + "-24-A.massdb", Data: T(0, 24).A, Upgraded: c11AName(0, 0, 24)}}})
	add(c11Entry{Kind: "legacy-uppercase", SID: c11SID(2, 24), Index: c11Und, Ready: true, ProofKey: 2,
		Files: []c11File{{Name: c11HEX[2] + "-24-B.MASSDB", Data: r2, Upgraded: fmt.Sprintf("2_%s_24.massdb", c11HEX[2])}}})
	add(c11Entry{Kind: "legacy-foreign-key", SID: c11SID(KF, 24), Index: c11No, ProofKey: KF,
		Files: []c11File{F(c11Hex[KF]+"-24-B.massdb", c11ReadyB(KF, 24))}})
	// --- case variants of the current naming scheme
	add(c11Entry{Kind: "uppercase-name", SID: c11SID(2, 24), Index: c11Und, Ready: true, ProofKey: 2,
		Files: []c11File{F(fmt.Sprintf("2_%s_24.MASSDB", c11HEX[2]), r2)}})
	add(c11Entry{Kind: "mixedcase-suffix", SID: c11SID(0, 24), Index: c11Und, ProofKey: -1,
		Files: []c11File{F(fmt.Sprintf("0_%s_24.MassDB", c11Hex[0]), T(0, 24).B), F(fmt.Sprintf("0_%s_24_a.MassDB", c11Hex[0]), T(0, 24).A)}})
	// --- not decided by the property text
	add(c11Entry{Kind: "registered-b-without-a", SID: c11SID(1, 26), Index: c11Und, ProofKey: -1,
		Files: []c11File{F(c11BName(1, 1, 26), T(1, 26).B)}})
	add(c11Entry{Kind: "leading-zero-ordinal", SID: c11SID(1, 26), Index: c11Und, Ready: true, ProofKey: -1,
		Files: []c11File{F("0"+c11BName(1, 1, 26), c11ReadyB(1, 26))}})
	// --- unrelated
	junk := make([]byte, 5000)
	for i := range junk {
		junk[i] = byte(i * 7)
	}
	add(c11Entry{Kind: "unrelated-files", Index: c11No, ProofKey: -1,
		Files: []c11File{F("notes.txt", []byte("hello")), F(c11BName(0, 0, 24)+".bak", c11ReadyB(0, 24)), F("plots.massdb", junk),
			F("x"+c11BName(1, 1, 24), c11ReadyB(1, 24))}})
	add(c11Entry{Kind: "directory-named-like-plot", SID: c11SID(1, 24), Index: c11No, ProofKey: -1,
		Files: []c11File{{Name: c11BName(1, 1, 24), IsDir: true}}})
}

type c11Placed struct {
	Kind string `json:"kind"`
	Dir  int    `json:"dir"` // 0 = d1, 1 = d2
}

// c11Case is the replay form of one run of either part.
type c11Case struct {
	Part    string      `json:"part"` // "startup" | "history"
	Placed  []c11Placed `json:"placed,omitempty"`
	Mode    string      `json:"mode,omitempty"` // keeper proof_dir list: "12" = [d1,d2], "21" = [d2,d1], "1" = [d1]
	Cfg     string      `json:"cfg,omitempty"`
	Actions []string    `json:"actions,omitempty"`
}

func (c c11Case) String() string {
	b, _ := json.Marshal(c)
	return string(b)
}

// ------------------------------------------------------------------ directory listing

type c11Stat struct {
	Size  int64
	Hash  string
	IsDir bool
}

// c11Snap lists both scratch directories: "<dirno>/<name>" -> size and content hash.
func c11Snap(dirs [2]string) map[string]c11Stat {
	out := map[string]c11Stat{}
	for i, d := range dirs {
		ents, err := os.ReadDir(d)
		if err != nil {
			if os.IsNotExist(err) {
				continue
			}
			vk.Fatalf("C11 readdir %s: %v", d, err)
		}
		for _, e := range ents {
			key := strconv.Itoa(i) + "/" + e.Name()
			p := filepath.Join(d, e.Name())
			if e.IsDir() {
				sub, _ := os.ReadDir(p)
				var names []string
				for _, s := range sub {
					names = append(names, s.Name())
				}
				out[key] = c11Stat{IsDir: true, Hash: strings.Join(names, ",")}
				continue
			}
			b, err := os.ReadFile(p)
			if err != nil {
				vk.Fatalf("C11 read %s: %v", p, err)
			}
			h := sha256.Sum256(b)
			out[key] = c11Stat{Size: int64(len(b)), Hash: hex.EncodeToString(h[:8])}
		}
	}
	return out
}

func c11Wipe(dirs [2]string) {
	for _, d := range dirs {
		if err := os.RemoveAll(d); err != nil {
			vk.Fatalf("C11 wipe: %v", err)
		}
		if err := os.MkdirAll(d, 0o755); err != nil {
			vk.Fatalf("C11 mkdir: %v", err)
		}
	}
}

func c11Write(dir string, f c11File) {
	p := filepath.Join(dir, f.Name)
	if f.IsDir {
		if err := os.MkdirAll(p, 0o755); err != nil {
			vk.Fatalf("C11 mkdir: %v", err)
		}
		if err := os.WriteFile(filepath.Join(p, "inside.txt"), []byte("x"), 0o644); err != nil {
			vk.Fatalf("C11 write: %v", err)
		}
		return
	}
	if err := os.WriteFile(p, f.Data, 0o644); err != nil {
		vk.Fatalf("C11 write: %v", err)
	}
}

// ------------------------------------------------------------------ keeper

func c11NewKeeper(dirs []string) (sk *SpaceKeeper, err error, pan string) {
	cfg := &config.Config{Miner: &config.Miner{ProofDir: append([]string{}, dirs...)}}
	pan = vk.Catch(func() {
		var ski interface{}
		ski, err = NewSpaceKeeperV1(cfg, PoCWallet(c11Wallet{}))
		if err == nil {
			sk = ski.(*SpaceKeeper)
		}
	})
	return
}

func c11CloseKeeper(sk *SpaceKeeper) {
	if sk == nil {
		return
	}
	if int(allState) < len(sk.workSpaceIndex) {
		for _, ws := range sk.workSpaceIndex[allState].Items() {
			ws.db.Close()
		}
	}
	sk.workerPool.Release()
}

type c11Runner struct {
	r *vk.Run
}

func (x *c11Runner) viol(c c11Case, fp, format string, a ...interface{}) {
	x.r.Violation(fp, fmt.Sprintf(format, a...)+" | case "+c.String(), c)
}

var c11PlotNameRe = regexp.MustCompile(`^(\d+)_([0-9a-fA-F]{66})_(\d+)(_[aA])?\.(?i:massdb)$`)

// ------------------------------------------------------------------ part (a): one start-up

type c11Exp struct {
	Dir   int
	Ready bool
	Kind  string
	Proof int
}

func c11ModeDirs(mode string) []int {
	switch mode {
	case "12":
		return []int{0, 1}
	case "21":
		return []int{1, 0}
	case "1":
		return []int{0}
	}
	vk.Fatalf("C11 unknown mode %q", mode)
	return nil
}

// c11Expected is the reference: which space ids must be indexed, from which directory, in which state.
func c11Expected(c c11Case) (exp map[string]c11Exp, und map[string]bool) {
	exp, und = map[string]c11Exp{}, map[string]bool{}
	for _, d := range c11ModeDirs(c.Mode) {
		inDir := map[string]bool{}
		for _, p := range c.Placed {
			e := c11Menu[c11MenuIdx[p.Kind]]
			if p.Dir != d || e.SID == "" {
				continue
			}
			switch e.Index {
			case c11Yes:
				if inDir[e.SID] {
					und[e.SID] = true // two indexable files of one space in one directory (legacy + current name): no single answer
				}
				inDir[e.SID] = true
				if _, ok := exp[e.SID]; !ok {
					exp[e.SID] = c11Exp{Dir: d, Ready: e.Ready, Kind: e.Kind, Proof: e.ProofKey}
				}
			case c11Und:
				und[e.SID] = true
			}
		}
	}
	return
}

func c11KindsOf(c c11Case, sid string, dir int) string {
	var ks []string
	for _, p := range c.Placed {
		if e := c11Menu[c11MenuIdx[p.Kind]]; e.SID == sid && (dir < 0 || p.Dir == dir) {
			ks = append(ks, e.Kind)
		}
	}
	if len(ks) == 0 {
		return "no-such-entry"
	}
	sort.Strings(ks)
	return strings.Join(ks, "+")
}

// c11UndKindsOf: the not-decided entries of a space (all its entries if none is of that class), without repetition.
func c11UndKindsOf(c c11Case, sid string) string {
	set := map[string]bool{}
	for _, p := range c.Placed {
		if e := c11Menu[c11MenuIdx[p.Kind]]; e.SID == sid && e.Index == c11Und {
			set[e.Kind] = true
		}
	}
	if len(set) == 0 {
		return "decided-entries:" + c11KindsOf(c, sid, -1)
	}
	var ks []string
	for k := range set {
		ks = append(ks, k)
	}
	sort.Strings(ks)
	return strings.Join(ks, "+")
}

// c11OpenedKind: the entry owning the file the keeper opens for a space in a directory (the canonical
// lower-case name with the wallet's ordinal); falls back to all entries of the space in that directory.
func c11OpenedKind(c c11Case, owner map[string]string, sid string, dir int) string {
	for k := 0; k < c11NKeys; k++ {
		ord := k
		if k >= c11Issued {
			ord = 0
		}
		for _, bl := range []int{24, 26} {
			if c11SID(k, bl) == sid {
				if o, ok := owner[strconv.Itoa(dir)+"/"+c11BName(ord, k, bl)]; ok {
					return o
				}
			}
		}
	}
	return c11KindsOf(c, sid, dir)
}

func (x *c11Runner) runStartup(c c11Case, root string) (outcome string) {
	r := x.r
	dirs := [2]string{filepath.Join(root, "d1"), filepath.Join(root, "d2")}
	c11Wipe(dirs)
	owner := map[string]string{}    // listing key -> kind of the entry that put it there
	upgraded := map[string]string{} // listing key of a legacy-named file -> listing key after the permitted rename
	for _, p := range c.Placed {
		e := c11Menu[c11MenuIdx[p.Kind]]
		for _, f := range e.Files {
			key := strconv.Itoa(p.Dir) + "/" + f.Name
			if _, dup := owner[key]; dup {
				vk.Fatalf("C11 conflicting combination reached the runner: %s", c.String())
			}
			owner[key] = e.Kind
			if f.Upgraded != "" {
				upgraded[key] = strconv.Itoa(p.Dir) + "/" + f.Upgraded
			}
			c11Write(dirs[p.Dir], f)
		}
	}
	r.Eval(1)
	order := c11ModeDirs(c.Mode)
	var kdirs []string
	for _, d := range order {
		kdirs = append(kdirs, dirs[d])
	}
	inOrder := map[int]bool{}
	for _, d := range order {
		inOrder[d] = true
	}
	exp, und := c11Expected(c)

	before := c11Snap(dirs)
	sk, err, pan := c11NewKeeper(kdirs)
	if pan != "" {
		x.viol(c, "C11/startup/panic/"+vk.PanicSite(pan), "start-up panicked: %s", pan)
		return "panic"
	}
	if err != nil {
		x.viol(c, "C11/startup/constructor-error", "NewSpaceKeeperV1 failed: %v", err)
		return "error"
	}
	defer c11CloseKeeper(sk)
	after := c11Snap(dirs)

	// ---- nothing deleted, truncated or modified (the legacy rename is the one permitted change)
	renamedTo := map[string]bool{}
	for key, b := range before {
		if a, ok := after[key]; ok && a == b {
			continue
		}
		if up, ok := upgraded[key]; ok {
			if a, ok := after[up]; ok && a == b {
				if _, still := after[key]; !still {
					renamedTo[up] = true
					r.Add("startup_legacy_renames_content_preserved", 1)
					continue
				}
			}
		}
		what := "deleted"
		if a, ok := after[key]; ok {
			what = fmt.Sprintf("changed (size %d -> %d, hash %s -> %s)", b.Size, a.Size, b.Hash, a.Hash)
		}
		fp := "C11/startup/file-lost-or-modified/" + owner[key]
		for src, up := range upgraded {
			if up == key {
				fp += "/overwritten-by-legacy-rename"
				what += "; it is the rename target of the legacy-named file " + src
				break
			}
		}
		if !inOrder[int(key[0]-'0')] {
			fp += "/outside-proof-dirs"
		}
		x.viol(c, fp, "start-up: file %s (%s) was %s", key, owner[key], what)
	}
	r.Add("startup_files_compared", int64(len(before)))
	created := 0
	for key := range after {
		if _, ok := before[key]; ok || renamedTo[key] {
			continue
		}
		created++
		cls := "unattributed"
		if m := c11PlotNameRe.FindStringSubmatch(key[2:]); m != nil {
			cls = c11UndKindsOf(c, strings.ToLower(m[2])+"-"+m[3])
		}
		// creating files is not forbidden by the property: diagnostic only
		r.Add("diagnostic:startup-created-file/"+cls, 1)
	}

	// ---- the index
	infos, cerr := sk.ConfigureByFlags(engine.SFAll, false, false)
	if cerr != nil && cerr != ErrSpaceKeeperConfiguredNothing {
		x.viol(c, "C11/startup/configure-error", "ConfigureByFlags(all) failed: %v", cerr)
	}
	bdirs, binfos, _ := sk.WorkSpaceInfosByDirs()
	where := map[string]int{}
	for i, d := range bdirs {
		dn := -1
		for j := range dirs {
			if abs, _ := filepath.Abs(dirs[j]); abs == d {
				dn = j
			}
		}
		for _, wi := range binfos[i] {
			where[wi.SpaceID] = dn
		}
	}
	got := map[string]engine.WorkSpaceInfo{}
	for _, wi := range infos {
		if _, dup := got[wi.SpaceID]; dup {
			x.viol(c, "C11/startup/indexed-twice", "space %s is indexed twice (entries: %s)", wi.SpaceID, c11KindsOf(c, wi.SpaceID, -1))
		}
		got[wi.SpaceID] = wi
	}
	var outs []string
	for sid, wi := range got {
		outs = append(outs, fmt.Sprintf("%s..-%d:%s@d%d", sid[:8], wi.BitLength, wi.State, where[sid]+1))
		if und[sid] {
			r.Add("startup_undecided_space_skipped", 1)
			continue
		}
		e, ok := exp[sid]
		if !ok {
			d, known := where[sid]
			kinds := c11KindsOf(c, sid, -1)
			if known {
				kinds = c11OpenedKind(c, owner, sid, d)
			}
			if known && !inOrder[d] {
				kinds = "outside-proof-dirs:" + kinds
			}
			x.viol(c, "C11/startup/indexed-bad-file/"+kinds, "space %s (state %s, ordinal %d, directory d%d) is indexed although no file of it is well-formed, matches its name and belongs to the wallet (entries: %s)",
				sid, wi.State, wi.Ordinal, d+1, c11KindsOf(c, sid, -1))
			continue
		}
		r.Add("startup_indexed_as_expected", 1)
		if d, known := where[sid]; !known || d != e.Dir {
			x.viol(c, "C11/startup/wrong-file-chosen/"+c11OpenedKind(c, owner, sid, d), "space %s is indexed from d%d (%s), expected from d%d (%s)", sid, d+1, c11KindsOf(c, sid, d), e.Dir+1, e.Kind)
			continue
		}
		want := engine.Registered
		if e.Ready {
			want = engine.Ready
		}
		if wi.State != want {
			x.viol(c, "C11/startup/wrong-state/"+e.Kind, "space %s (%s) is indexed as %s, its recorded progress says %s", sid, e.Kind, wi.State, want)
		}
		k, okk := c11KeyIdx[string(wi.PublicKey.SerializeCompressed())]
		if !okk || k >= c11Issued || wi.Ordinal != int64(k) || c11SID(k, wi.BitLength) != sid {
			x.viol(c, "C11/startup/identity/"+e.Kind, "space %s reported with ordinal %d bl %d key #%d", sid, wi.Ordinal, wi.BitLength, k)
		}
	}
	for sid, e := range exp {
		if und[sid] {
			continue
		}
		if _, ok := got[sid]; !ok {
			x.viol(c, "C11/startup/not-indexed/"+e.Kind, "space %s (%s in d%d) is well-formed, matches its name and belongs to the wallet but is not indexed (entries: %s)", sid, e.Kind, e.Dir+1, c11KindsOf(c, sid, -1))
		}
	}
	for _, p := range c.Placed {
		if e := c11Menu[c11MenuIdx[p.Kind]]; e.Index == c11No && e.SID != "" {
			if _, ok := got[e.SID]; !ok {
				r.Add("startup_bad_entry_not_indexed", 1)
			}
		}
	}

	// ---- proofs: only from spaces of the expected set
	if serr := sk.Start(); serr != nil {
		x.viol(c, "C11/startup/start-error", "keeper does not start: %v", serr)
		return "start-error"
	}
	chKeys := map[int]bool{}
	sids := map[string]bool{}
	for _, p := range c.Placed {
		e := c11Menu[c11MenuIdx[p.Kind]]
		if e.ProofKey >= 0 {
			chKeys[e.ProofKey] = true
		}
		if e.SID != "" {
			sids[e.SID] = true
		}
	}
	for sid := range got {
		sids[sid] = true
	}
	judge := func(wsp *engine.WorkSpaceProof, k int, via string) {
		if wsp == nil || wsp.Proof == nil || wsp.Error != nil {
			r.Add("startup_proof_requests_unserved", 1)
			return
		}
		e, ok := exp[wsp.SpaceID]
		if ok && e.Proof == k {
			r.Add("startup_proofs_served_by_valid_files", 1)
			return
		}
		kind := c11KindsOf(c, wsp.SpaceID, -1)
		if d, known := where[wsp.SpaceID]; known {
			kind = c11OpenedKind(c, owner, wsp.SpaceID, d)
		}
		x.viol(c, "C11/startup/proof-served/"+kind, "%s served a proof for space %s (challenge of key #%d) which is not backed by a valid file (entries: %s)",
			via, wsp.SpaceID, k, c11KindsOf(c, wsp.SpaceID, -1))
	}
	ctx := context.Background()
	for k := range chKeys {
		ch := c11Proofs[k].Challenge
		ps, perr := sk.GetProofs(ctx, engine.SFAll, ch, false)
		if perr != nil {
			x.viol(c, "C11/startup/getproofs-error", "GetProofs failed: %v", perr)
		}
		served := map[string]bool{}
		for _, wsp := range ps {
			judge(wsp, k, "GetProofs")
			served[wsp.SpaceID] = wsp.Proof != nil && wsp.Error == nil
		}
		for sid := range sids {
			wsp, gerr := sk.GetProof(ctx, sid, ch, false)
			if gerr != nil {
				r.Add("startup_proof_requests_unserved", 1)
				continue
			}
			judge(wsp, k, "GetProof")
		}
		for sid, e := range exp {
			if !und[sid] && e.Proof == k && !served[sid] {
				r.Add("diagnostic:valid-ready-file-served-no-proof", 1)
			}
		}
	}
	if serr := sk.Stop(); serr != nil {
		x.viol(c, "C11/startup/stop-error", "keeper does not stop: %v", serr)
	}
	final := c11Snap(dirs)
	if d := c11Diff(after, final); d != "" {
		x.viol(c, "C11/startup/file-change-after-startup", "configure/start/GetProofs/stop changed the directories: %s", d)
	}
	sort.Strings(outs)
	return fmt.Sprintf("indexed[%s] created=%d", strings.Join(outs, " "), created)
}

func c11Diff(a, b map[string]c11Stat) string {
	var out []string
	for k, v := range a {
		if w, ok := b[k]; !ok {
			out = append(out, "removed "+k)
		} else if w != v {
			out = append(out, "modified "+k)
		}
	}
	for k := range b {
		if _, ok := a[k]; !ok {
			out = append(out, "created "+k)
		}
	}
	sort.Strings(out)
	return strings.Join(out, "; ")
}

// ------------------------------------------------------------------ part (b): histories

// c11DB wraps the real massdb.v1 instance of a space: Plot returns at once without plotting.
type c11DB struct{ massdb.MassDB }

func (d *c11DB) Plot() chan error {
	ch := make(chan error, 1)
	ch <- nil
	return ch
}
func (d *c11DB) StopPlot() chan error {
	ch := make(chan error, 1)
	ch <- nil
	return ch
}

type c11Ctl struct {
	arrive chan string
	resume chan struct{}
	free   int32
}

var c11Ctls sync.Map // *SpaceKeeper -> *c11Ctl

func c11Gate(sk *SpaceKeeper, name string) {
	v, ok := c11Ctls.Load(sk)
	if !ok {
		return
	}
	ctl := v.(*c11Ctl)
	if atomic.LoadInt32(&ctl.free) == 1 || (name != "step1.done" && name != "idle") {
		return
	}
	ctl.arrive <- name
	<-ctl.resume
}

type c11HSpace struct {
	Key, BL int
	Ready   bool
	Dir     int
}

type c11HCfg struct {
	Name    string
	Targets []c11HSpace
}

var c11HCfgs = []c11HCfg{
	{"R", []c11HSpace{{0, 24, false, 0}}},
	{"Y", []c11HSpace{{1, 24, true, 0}}},
	{"RY", []c11HSpace{{0, 24, false, 0}, {1, 24, true, 0}}},
	{"RR", []c11HSpace{{0, 24, false, 0}, {1, 24, false, 1}}},
	{"YY", []c11HSpace{{0, 24, true, 0}, {1, 24, true, 1}}},
}

type c11MSpace struct {
	SID                    string
	Ready                  bool
	Using, Deleted, Mining bool
	Files                  []string // listing keys
}

type c11Hist struct {
	x       *c11Runner
	c       c11Case
	sk      *SpaceKeeper
	ctl     *c11Ctl
	parked  string
	plotSID string
	spaces  []*c11MSpace
	class   map[string]string // listing key -> class of the file (for fingerprints)
	dirs    [2]string
}

func (h *c11Hist) await() {
	select {
	case n := <-h.ctl.arrive:
		h.parked = n
		h.plotSID = ""
		if n == "step1.done" {
			h.plotSID = h.sk.queue.PoppedItem().ws.id.String()
			h.x.r.Add("history_plotting_holds", 1)
		}
	case <-time.After(120 * time.Second):
		vk.Fatalf("C11 plotter did not reach a gate within 120 s (harness cap, not a verdict); case %s", h.c.String())
	}
}

func (h *c11Hist) resume() {
	h.parked = ""
	h.ctl.resume <- struct{}{}
	h.await()
}

// drain lets the parked-at-idle plotter take what the last action queued
func (h *c11Hist) drain() bool {
	ran := false
	for h.parked == "idle" && len(h.sk.newQueuedWorkSpaceCh) > 0 {
		h.resume()
		ran = true
	}
	return ran
}

func (h *c11Hist) state(s *c11MSpace) string {
	switch {
	case s.Deleted:
		return "deleted"
	case s.Ready && s.Mining:
		return "mining"
	case s.Ready:
		return "ready"
	case h.parked == "step1.done" && h.plotSID == s.SID:
		return "plotting"
	}
	return "registered"
}

var c11ActByName = map[string]engine.ActionType{"plot": engine.Plot, "mine": engine.Mine, "stop": engine.Stop, "remove": engine.Remove, "delete": engine.Delete}
var c11FlagsByName = map[string]engine.WorkSpaceStateFlags{"all": engine.SFAll, "still": engine.SFRegistered | engine.SFReady, "busy": engine.SFPlotting | engine.SFMining}
var c11FlagStates = map[string]map[string]bool{
	"all":   {"registered": true, "plotting": true, "ready": true, "mining": true},
	"still": {"registered": true, "ready": true},
	"busy":  {"plotting": true, "mining": true},
}

// checkFS compares two listings against the set of files the action was allowed to remove.
func (h *c11Hist) checkFS(act string, before, after map[string]c11Stat, allowed map[string]bool) {
	for k, v := range before {
		a, ok := after[k]
		switch {
		case !ok && allowed[k]:
			h.x.r.Add("history_files_deleted_on_request", 1)
		case !ok:
			h.x.viol(h.c, "C11/history/file-removed-unrequested/"+act+"/"+h.class[k], "action %q removed %s (%s) which it was not asked to delete", act, k, h.class[k])
		case a != v:
			h.x.viol(h.c, "C11/history/file-modified/"+act+"/"+h.class[k], "action %q changed %s (%s): size %d -> %d", act, k, h.class[k], v.Size, a.Size)
		}
	}
	for k := range allowed {
		if _, ok := after[k]; ok {
			h.x.viol(h.c, "C11/history/delete-incomplete/"+h.class[k], "accepted delete left %s (%s) behind", k, h.class[k])
		}
	}
	for k := range after {
		if _, ok := before[k]; !ok {
			h.x.viol(h.c, "C11/history/file-created/"+act, "action %q created %s", act, k)
		}
	}
}

func (x *c11Runner) runHistory(c c11Case, root string) (outcome string) {
	r := x.r
	var cfg *c11HCfg
	for i := range c11HCfgs {
		if c11HCfgs[i].Name == c.Cfg {
			cfg = &c11HCfgs[i]
		}
	}
	if cfg == nil {
		vk.Fatalf("C11 unknown history configuration %q", c.Cfg)
	}
	dirs := [2]string{filepath.Join(root, "d1"), filepath.Join(root, "d2")}
	c11Wipe(dirs)
	h := &c11Hist{x: x, c: c, class: map[string]string{}, dirs: dirs}
	put := func(dir int, name string, data []byte, class string) string {
		c11Write(dirs[dir], c11File{Name: name, Data: data})
		key := strconv.Itoa(dir) + "/" + name
		h.class[key] = class
		return key
	}
	content := func(s c11HSpace) (b, a []byte) {
		if s.Ready {
			return c11ReadyB(s.Key, s.BL), nil
		}
		t := c11T[[2]int{s.Key, s.BL}]
		return t.B, t.A
	}
	for i, s := range cfg.Targets {
		m := &c11MSpace{SID: c11SID(s.Key, s.BL), Ready: s.Ready, Using: true}
		b, a := content(s)
		m.Files = append(m.Files, put(s.Dir, c11BName(s.Key, s.Key, s.BL), b, fmt.Sprintf("target%d-B", i)))
		if a != nil {
			m.Files = append(m.Files, put(s.Dir, c11AName(s.Key, s.Key, s.BL), a, fmt.Sprintf("target%d-A", i)))
		}
		h.spaces = append(h.spaces, m)
		if s.Dir == 0 {
			// the same space id once more in the second directory (the first directory wins at start-up)
			put(1, c11BName(s.Key, s.Key, s.BL), b, "same-space-in-other-directory-B")
			if a != nil {
				put(1, c11AName(s.Key, s.Key, s.BL), a, "same-space-in-other-directory-A")
			}
		}
		// files with similar names next to it
		put(s.Dir, c11BName(s.Key+1, s.Key, s.BL), b, "same-key-other-ordinal-B")
		if a != nil {
			put(s.Dir, c11AName(s.Key+1, s.Key, s.BL), a, "same-key-other-ordinal-A")
		}
		put(s.Dir, c11BName(s.Key, s.Key, s.BL)+".bak", b, "backup-copy")
		put(s.Dir, "x"+c11BName(s.Key, s.Key, s.BL), b, "prefixed-copy")
	}
	// a third space in use (key #2, bl 26, ready, header-only) that no single-space action addresses
	extra := &c11MSpace{SID: c11SID(2, 26), Ready: true, Using: true}
	extra.Files = append(extra.Files, put(1, c11BName(2, 2, 26), c11ReadyB(2, 26), "third-space-B"))
	h.spaces = append(h.spaces, extra)
	put(0, c11BName(0, c11Foreign, 24), c11ReadyB(c11Foreign, 24), "foreign-key-file")
	put(0, "notes.txt", []byte("hello"), "unrelated")
	put(1, c11Hex[c11Foreign]+"-24-B.massdb", c11ReadyB(c11Foreign, 24), "legacy-foreign-file")

	snap := c11Snap(dirs)
	sk, err, pan := c11NewKeeper([]string{dirs[0], dirs[1]})
	if pan != "" || err != nil {
		x.viol(c, "C11/history/setup-keeper", "keeper construction failed: %v %s", err, pan)
		return "setup-failed"
	}
	defer c11CloseKeeper(sk)
	infos, cerr := sk.ConfigureByFlags(engine.SFAll, false, false)
	ok := cerr == nil && len(infos) == len(h.spaces)
	for _, s := range h.spaces {
		found := false
		for _, wi := range infos {
			want := engine.Registered
			if s.Ready {
				want = engine.Ready
			}
			found = found || (wi.SpaceID == s.SID && wi.State == want)
		}
		ok = ok && found
	}
	if !ok {
		x.viol(c, "C11/history/setup-index-mismatch", "the keeper did not index exactly the %d prepared spaces: %v (err %v)", len(h.spaces), infos, cerr)
		return "setup-failed"
	}
	for _, ws := range sk.workSpaceIndex[allState].Items() {
		ws.db = &c11DB{MassDB: ws.db}
	}
	h.sk = sk
	h.ctl = &c11Ctl{arrive: make(chan string), resume: make(chan struct{})}
	c11Ctls.Store(sk, h.ctl)
	defer c11Ctls.Delete(sk)
	if serr := sk.Start(); serr != nil {
		x.viol(c, "C11/history/start-error", "keeper does not start: %v", serr)
		return "setup-failed"
	}
	stopped := false
	teardown := func() {
		if stopped {
			return
		}
		stopped = true
		atomic.StoreInt32(&h.ctl.free, 1)
		if h.parked != "" {
			h.parked = ""
			h.ctl.resume <- struct{}{}
		}
		sk.Stop()
	}
	defer teardown()
	h.await()
	if h.parked != "idle" {
		vk.Fatalf("C11 plotter parked at %q right after start", h.parked)
	}
	if s2 := c11Snap(dirs); c11Diff(snap, s2) != "" {
		x.viol(c, "C11/history/file-change-by-startup", "start-up changed the directories: %s", c11Diff(snap, s2))
		snap = s2
	}

	var outs []string
	for ai, a := range c.Actions {
		r.Eval(1)
		if a == "release" {
			if h.parked != "step1.done" {
				outs = append(outs, "release(-)")
				r.Add("history_release_not_enabled", 1)
				continue
			}
			h.resume()
			h.drain()
			after := c11Snap(dirs)
			h.checkFS("release", snap, after, nil)
			snap = after
			outs = append(outs, "release")
			r.Add("history_releases", 1)
			if !h.crossCheck(a) {
				return strings.Join(outs, " ") + " DIVERGED"
			}
			continue
		}
		parts := strings.SplitN(a, ":", 2)
		act, tgt := parts[0], parts[1]
		at, okA := c11ActByName[act]
		if !okA {
			vk.Fatalf("C11 unknown action %q", a)
		}
		// the spaces the action addresses, and what is expected of each
		var addressed []*c11MSpace
		bulk := false
		if fl, isBulk := c11FlagStates[tgt]; isBulk {
			bulk = true
			for _, s := range h.spaces {
				if s.Using && !s.Deleted && fl[h.state(s)] {
					addressed = append(addressed, s)
				}
			}
		} else {
			ti, cerr := strconv.Atoi(tgt)
			if cerr != nil || ti >= len(cfg.Targets) {
				vk.Fatalf("C11 bad target in %q", a)
			}
			addressed = []*c11MSpace{h.spaces[ti]}
		}
		pre := map[string]string{}
		for _, s := range addressed {
			pre[s.SID] = h.state(s)
		}
		var errs map[string]error
		pan := vk.Catch(func() {
			if bulk {
				var e2 error
				errs, e2 = sk.ActOnWorkSpaces(c11FlagsByName[tgt], at)
				if e2 != nil {
					vk.Fatalf("C11 ActOnWorkSpaces: %v", e2)
				}
			} else {
				errs = map[string]error{addressed[0].SID: sk.ActOnWorkSpace(addressed[0].SID, at)}
			}
		})
		if pan != "" {
			x.viol(c, "C11/history/panic/"+act+"/"+vk.PanicSite(pan), "action %d %q panicked: %s", ai, a, pan)
			return strings.Join(outs, " ") + " PANIC"
		}
		allowed := map[string]bool{}
		var res []string
		for _, s := range addressed {
			st := pre[s.SID]
			e, reported := errs[s.SID]
			if bulk && !reported {
				x.viol(c, "C11/history/bulk-skipped-space/"+act+"/"+st, "action %d %q reports nothing for the %s space %s", ai, a, st, s.SID)
			}
			res = append(res, fmt.Sprintf("%s=%v", st, e))
			absent := !s.Using || s.Deleted
			if act != "remove" && act != "delete" {
				if !absent && s.Ready && act == "mine" {
					s.Mining = true
				}
				if !absent && s.Ready && act == "stop" {
					s.Mining = false
				}
				continue
			}
			switch {
			case absent:
				r.Add("history_"+act+"_on_absent_space", 1)
				if e == nil {
					x.viol(c, "C11/history/"+act+"-accepted-on-absent-space", "action %d %q accepted for space %s which is removed/deleted", ai, a, s.SID)
				}
			case st == "plotting" || st == "mining":
				r.Add("history_"+act+"_refused_"+st, 1)
				if e == nil {
					x.viol(c, "C11/history/"+act+"-not-refused/"+st, "action %d %q: space %s is %s but the %s was accepted", ai, a, s.SID, st, act)
					// the model follows the code so that later steps stay comparable
					s.Using = false
					s.Deleted = act == "delete"
				} else if e != ErrWorkSpaceIsNotStill {
					x.viol(c, "C11/history/"+act+"-refusal-error/"+st, "action %d %q: refused with %q, documented error is %q", ai, a, e, ErrWorkSpaceIsNotStill)
				}
			default:
				if e != nil {
					x.viol(c, "C11/history/"+act+"-refused-while-still/"+st, "action %d %q: space %s is %s but the %s was refused: %v", ai, a, s.SID, st, act, e)
					continue
				}
				r.Add("history_"+act+"_accepted_"+st, 1)
				s.Using = false
				if act == "delete" {
					s.Deleted = true
					for _, f := range s.Files {
						allowed[f] = true
					}
				}
			}
		}
		after := c11Snap(dirs)
		fsName := act
		if bulk {
			fsName = act + "-bulk"
		}
		h.checkFS(fsName, snap, after, allowed)
		snap = after
		if h.drain() {
			after = c11Snap(dirs)
			h.checkFS("plotter-after-"+act, snap, after, nil)
			snap = after
		}
		outs = append(outs, fmt.Sprintf("%s(%s)", a, strings.Join(res, ",")))
		if !h.crossCheck(a) {
			return strings.Join(outs, " ") + " DIVERGED"
		}
	}
	// reading proofs and stopping the keeper delete nothing either
	if _, perr := sk.GetProofs(context.Background(), engine.SFAll, c11Proofs[1].Challenge, false); perr != nil {
		x.viol(c, "C11/history/getproofs-error", "GetProofs failed: %v", perr)
	}
	teardown()
	after := c11Snap(dirs)
	h.checkFS("getproofs+keeper-stop", snap, after, nil)
	return strings.Join(outs, " ")
}

// crossCheck compares the states the keeper reports with the harness model (false: diverged, run abandoned).
func (h *c11Hist) crossCheck(a string) bool {
	infos, _ := h.sk.WorkSpaceInfos(engine.SFAll)
	got := map[string]string{}
	for _, wi := range infos {
		got[wi.SpaceID] = wi.State.String()
	}
	want := map[string]string{}
	for _, s := range h.spaces {
		if s.Using && !s.Deleted {
			want[s.SID] = h.state(s)
		}
	}
	same := len(got) == len(want)
	for k, v := range want {
		same = same && got[k] == v
	}
	if !same {
		act := strings.SplitN(a, ":", 2)[0]
		h.x.viol(h.c, "C11/history/state-divergence/"+act, "after %q the keeper reports %v, the reference model says %v", a, got, want)
	}
	return same
}

// ------------------------------------------------------------------ enumeration

type c11Slot struct {
	Entry int
	Dir   int
	Paths []string
}

func c11Slots() []c11Slot {
	var out []c11Slot
	for ei, e := range c11Menu {
		for d := 0; d < 2; d++ {
			s := c11Slot{Entry: ei, Dir: d}
			for _, f := range e.Files {
				s.Paths = append(s.Paths, strconv.Itoa(d)+"/"+f.Name)
			}
			out = append(out, s)
		}
	}
	return out
}

// c11Combos: every set of 1..maxN slots without two entries writing the same path.
func c11Combos(slots []c11Slot, maxN int) (combos [][]uint8, conflicts int) {
	var rec func(start int, cur []uint8, paths map[string]bool)
	rec = func(start int, cur []uint8, paths map[string]bool) {
		if len(cur) > 0 {
			combos = append(combos, append([]uint8{}, cur...))
		}
		if len(cur) == maxN {
			return
		}
	next:
		for i := start; i < len(slots); i++ {
			for _, p := range slots[i].Paths {
				if paths[p] {
					conflicts++
					continue next
				}
			}
			for _, p := range slots[i].Paths {
				paths[p] = true
			}
			rec(i+1, append(cur, uint8(i)), paths)
			for _, p := range slots[i].Paths {
				delete(paths, p)
			}
		}
	}
	rec(0, nil, map[string]bool{})
	return
}

func c11HistAlphabet(cfg c11HCfg, thorough bool) []string {
	var out []string
	for _, act := range []string{"plot", "mine", "stop", "remove", "delete"} {
		for i := range cfg.Targets {
			out = append(out, act+":"+strconv.Itoa(i))
		}
		out = append(out, act+":all")
		if thorough && (act == "remove" || act == "delete") {
			out = append(out, act+":still", act+":busy")
		}
	}
	return append(out, "release")
}

// ------------------------------------------------------------------ test

func TestVerifC11(t *testing.T) {
	r := vk.Start("C11", "exploration")
	scratch := os.Getenv("VERIF_SCRATCH")
	if scratch == "" {
		scratch = t.TempDir()
	}
	logging.Init(filepath.Join(scratch, "log"), "x", "fatal", 1, true)
	base := filepath.Join(scratch, "c11")
	if err := os.MkdirAll(base, 0o755); err != nil {
		vk.Fatalf("C11 mkdir: %v", err)
	}
	// the scratch file system must distinguish case (the case-variant entries rely on it)
	os.WriteFile(filepath.Join(base, "casetest"), []byte("a"), 0o644)
	if _, err := os.Stat(filepath.Join(base, "CASETEST")); err == nil {
		vk.Fatalf("C11 scratch file system is case-insensitive")
	}
	c11InitKeys()
	c11MakeTemplates(filepath.Join(base, "tmpl"))
	var pmu sync.Mutex
	pk := []int{0, 1, 2, c11Foreign}
	vk.ParallelFor(len(pk), func(i int) {
		p := c11FindProof(pk[i])
		pmu.Lock()
		c11Proofs[pk[i]] = p
		pmu.Unlock()
	})
	c11BuildMenu()
	VerifGate = c11Gate
	defer func() { VerifGate = nil }()
	r.Assume(
		"fake wallet: keys #0..#2 are issued with ordinals 0..2, key #5 is foreign; never locked",
		"plot files are header-only (4096 bytes) except that a 'ready' bl-24 file ends with the one valid proof record of its key (a few KiB); valid files are written by the real massdb.v1 CreateDB and patched at the header offsets of hashmap.go",
		"part (b): massdb Plot()/StopPlot() are replaced by a wrapper that returns at once (no real plotting, so a registered space never becomes ready); state plotting is held by parking the plotter at gate step1.done; Delete/Close/GetProof go to the real massdb.v1",
		"case-variant names, a registered B file without its A file and a leading-zero ordinal are not decided by the property text: for them only 'nothing lost' and 'no proofs' are checked; files created by start-up are counted as diagnostics",
	)
	x := &c11Runner{r: r}
	pool := make(chan string, vk.Workers())
	for i := 0; i < vk.Workers(); i++ {
		pool <- filepath.Join(base, "w"+strconv.Itoa(i))
	}

	if p := r.ReplayPath(); p != "" {
		var c c11Case
		vk.LoadReplay(p, &c)
		var out string
		if c.Part == "history" {
			out = x.runHistory(c, filepath.Join(base, "replay"))
		} else {
			out = x.runStartup(c, filepath.Join(base, "replay"))
		}
		fmt.Printf("VERIF-REPLAY case %s -> %s\n", c.String(), out)
		r.DistinctN(2)
		r.Sample(map[string]interface{}{"case": c, "outcome": out})
		r.Finish("replay of one recorded case")
		return
	}

	thorough := r.Thorough()
	// ---------------------------------------------------------------- part (a)
	slots := c11Slots()
	maxN := vk.Pick(r, 3, 4)
	combos, conflicts := c11Combos(slots, maxN)
	var cases []c11Case
	for _, cb := range combos {
		c := c11Case{Part: "startup"}
		both := [2]bool{}
		for _, si := range cb {
			s := slots[si]
			c.Placed = append(c.Placed, c11Placed{Kind: c11Menu[s.Entry].Kind, Dir: s.Dir})
			both[s.Dir] = true
		}
		switch {
		case !both[1]:
			c.Mode = "1"
			cases = append(cases, c)
			if len(cb) <= 2 {
				c.Mode = "12" // with an empty second directory
				cases = append(cases, c)
			}
		default:
			c.Mode = "12"
			cases = append(cases, c)
			if len(cb) <= 2 || (thorough && len(cb) <= 3) {
				c.Mode = "21"
				cases = append(cases, c)
			}
			if len(cb) <= 2 {
				c.Mode = "1" // the second directory is not a proof_dir: its files must be ignored
				cases = append(cases, c)
			}
		}
	}
	// smallest combinations first: the first witness recorded for a fingerprint is a small one
	sort.SliceStable(cases, func(i, j int) bool { return len(cases[i].Placed) < len(cases[j].Placed) })
	r.Set("startup_menu_entries", len(c11Menu))
	r.Set("startup_combinations", len(combos))
	r.Set("startup_cases", len(cases))
	r.Set("startup_conflicting_placements_skipped", conflicts)
	var nontrivial int64
	vk.ParallelFor(len(cases), func(i int) {
		if r.Expired() {
			r.Cap("deadline reached in part (a)")
			return
		}
		root := <-pool
		defer func() { pool <- root }()
		out := x.runStartup(cases[i], root)
		if strings.Contains(out, "indexed[") && !strings.Contains(out, "indexed[]") {
			atomic.AddInt64(&nontrivial, 1)
		}
		if i%(len(cases)/4+1) == len(cases)/9 {
			r.Sample(map[string]interface{}{"case": cases[i], "outcome": out})
		}
	})
	r.DistinctN(int(nontrivial))
	r.Set("startup_cases_with_indexed_spaces", nontrivial)

	// ---------------------------------------------------------------- part (b)
	depth := vk.Pick(r, 3, 4)
	type hjob struct {
		cfg int
		seq int
	}
	var jobs []hjob
	alph := make([][]string, len(c11HCfgs))
	for ci, cfg := range c11HCfgs {
		alph[ci] = c11HistAlphabet(cfg, thorough)
		n := 1
		for d := 0; d < depth; d++ {
			n *= len(alph[ci])
		}
		for s := 0; s < n; s++ {
			jobs = append(jobs, hjob{ci, s})
		}
		r.Set("history_alphabet_"+cfg.Name, len(alph[ci]))
	}
	r.Set("history_depth", depth)
	r.Set("history_sequences", len(jobs))
	var hnon int64
	vk.ParallelFor(len(jobs), func(i int) {
		if r.Expired() {
			r.Cap("deadline reached in part (b)")
			return
		}
		root := <-pool
		defer func() { pool <- root }()
		j := jobs[i]
		c := c11Case{Part: "history", Cfg: c11HCfgs[j.cfg].Name}
		s := j.seq
		for d := 0; d < depth; d++ {
			c.Actions = append(c.Actions, alph[j.cfg][s%len(alph[j.cfg])])
			s /= len(alph[j.cfg])
		}
		out := x.runHistory(c, root)
		if strings.Contains(out, "delete") || strings.Contains(out, "remove") {
			atomic.AddInt64(&hnon, 1)
		}
		if i%(len(jobs)/4+1) == len(jobs)/7 {
			r.Sample(map[string]interface{}{"case": c, "outcome": out})
		}
	})
	r.DistinctN(int(hnon))
	r.Set("history_sequences_with_remove_or_delete", hnon)

	r.Finish(fmt.Sprintf("(a) every conflict-free combination of <=%d of %d menu entries x {d1,d2} under proof_dir lists [d1,d2] / [d2,d1] / [d1]: index set, state, directory, proofs, files unchanged; "+
		"(b) every sequence of %d actions of {plot,mine,stop,remove,delete}x{space,bulk}+release over %d configurations of registered/ready spaces, directory listing compared after every action", maxN, len(c11Menu), depth, len(c11HCfgs)))
}
