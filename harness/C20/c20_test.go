//go:build go1.21

package api

// C20 — HTTP API admits only configured origins and reports exact values.
//
// Three bounded-exhaustive parts on the real code of package api, each against
// a reference written here:
//
//   1. c20_allow_test.go   allow-list decision (getIPAccessControlFunc) and the
//      403 wrapper (accessControlHandler), every configuration x every remote
//      address of a stated finite set, against a decision written with
//      net/netip; the wrapper as installed by Run() and the gRPC listener of
//      Server.Start() are exercised once over real sockets.
//   2. c20_amount_test.go  AmountToString / StringToAmount for every integer of
//      a dense range plus structured sets, against integer division rendered
//      canonically; every short string over a small alphabet for the parser.
//   3. c20_spaces_test.go  address / binding target of every workspace listed by
//      GetCapacitySpaces(.V2) & co. against mass-core (massutil) and against a
//      base58check codec written here.

import (
	"os"
	"path/filepath"
	"testing"
	"time"

	"github.com/massnetorg/mass-core/logging"
	"massnet.org/mass/zz_verif/vk"
)

// c20Case is the replay record of one failing input.
type c20Case struct {
	Part      string   `json:"part"` // allow | amount | parse | space1 | space2
	Whitelist []string `json:"whitelist,omitempty"`
	Lan       []string `json:"allowed_lan,omitempty"`
	Remote    string   `json:"remote_addr,omitempty"`
	Amount    int64    `json:"amount,omitempty"`
	Text      string   `json:"text,omitempty"`
	KeyHex    string   `json:"key_hex,omitempty"` // compressed public key or plot id
	Size      int      `json:"size,omitempty"`
}

func TestVerifC20(t *testing.T) {
	r := vk.Start("C20", "exploration")
	scratch := os.Getenv("VERIF_SCRATCH")
	if scratch == "" {
		scratch = os.TempDir()
	}
	logging.Init(filepath.Join(scratch, "c20logs"), "c20", "fatal", 1, true)

	if p := r.ReplayPath(); p != "" {
		var c c20Case
		vk.LoadReplay(p, &c)
		switch c.Part {
		case "allow":
			c20AllowOne(r, &c20AllowStats{}, c20Cfg{c.Whitelist, c.Lan}, []c20Remote{{s: c.Remote}}, true)
		case "amount":
			c20AmountOne(r, c.Amount)
		case "parse":
			c20ParseOne(r, c.Text, nil)
		case "space1", "space2":
			c20SpaceReplay(r, c)
		default:
			vk.Fatalf("unknown replay part %q", c.Part)
		}
		r.Finish("replay of one recorded case")
	}

	for _, part := range []struct {
		name string
		fn   func(*vk.Run)
	}{{"allow", c20Allow}, {"gateway", c20Gateway}, {"amounts", c20Amounts}, {"spaces", c20Spaces}} {
		t0 := time.Now()
		part.fn(r)
		r.Set("wall_s_"+part.name, float64(int(time.Since(t0).Seconds()*10))/10) // informational only
	}

	r.Assume(
		"remote addresses whose host part is a *name* (anything that passes net.SplitHostPort but is not an IP literal) are out of the enumerated domain: net.ResolveTCPAddr would hand them to the environment's resolver, and net/http only ever stores literal ip:port in Request.RemoteAddr",
		"the reference decision is deliberately the weakest one compatible with the statement: an admission is justified if ANY reading of the string (whole string, bracket content, text before the last colon; zone stripped; IPv4-mapped unmapped) is an IP that is loopback (127.0.0.0/8 or ::1), equals a whitelisted IP, or lies in an enabled RFC 1918 prefix, or if \"*\" is configured",
		"SHA-256, RIPEMD-160 and secp256k1 scalar multiplication are shared by implementation and reference",
	)
	r.Finish("every (configuration, remote address) pair of the stated sets is decided by the real allow-list function and by the real 403 wrapper and compared with a net/netip decision; every amount of the dense range and of the structured sets is rendered by AmountToString, compared with integer division rendered canonically and parsed back by StringToAmount; every string of the stated alphabets is given to StringToAmount; every (key, size) of the stated sets is listed through the real API methods on a stub space keeper and compared with mass-core and with an independent base58check codec; distinct_nontrivial counts distinct inputs (distinct (config,address) pairs, distinct integers, distinct strings, distinct (key,size) pairs)")
}
