//go:build go1.21

package api

// C20 part 2: exact decimal rendering and parsing of coin amounts.

import (
	"fmt"
	"math"
	"math/big"
	"regexp"
	"strconv"
	"strings"
	"sync"
	"sync/atomic"

	"github.com/massnetorg/mass-core/consensus"
	"massnet.org/mass/zz_verif/vk"
)

const c20E8 = 100000000

var (
	c20BigE8     = big.NewInt(c20E8)
	c20MaxAmount = int64(consensus.MaxMass) * c20E8
	c20Canon     = regexp.MustCompile(`^(0|[1-9][0-9]*)(\.[0-9]*[1-9])?$`)
	c20Plain     = regexp.MustCompile(`^[0-9]*(\.[0-9]*)?$`)
)

// c20RefBig: m / 10^8 by big.Int long division, rendered canonically.
func c20RefBig(m int64) string {
	b := big.NewInt(m)
	neg := b.Sign() < 0
	b.Abs(b)
	q, rem := new(big.Int).QuoRem(b, c20BigE8, new(big.Int))
	s := q.String()
	if rem.Sign() != 0 {
		f := rem.String()
		f = strings.Repeat("0", 8-len(f)) + f
		s += "." + strings.TrimRight(f, "0")
	}
	if neg {
		s = "-" + s
	}
	return s
}

// c20RefFast: the same for 0 <= m with machine division (dense loop); it is
// cross-checked against c20RefBig on every structured value and on a stride.
func c20RefFast(m int64, buf []byte) []byte {
	q, rem := uint64(m)/c20E8, uint64(m)%c20E8
	buf = strconv.AppendUint(buf[:0], q, 10)
	if rem == 0 {
		return buf
	}
	var d [8]byte
	for i := 7; i >= 0; i-- {
		d[i] = byte('0' + rem%10)
		rem /= 10
	}
	n := 8
	for d[n-1] == '0' {
		n--
	}
	buf = append(buf, '.')
	return append(buf, d[:n]...)
}

// c20AmountOne checks one integer; returns (hadFraction, wasError).
func c20AmountOne(r *vk.Run, m int64) (frac bool, rejected bool) {
	want := c20RefBig(m)
	cs := c20Case{Part: "amount", Amount: m}
	var got string
	var err error
	if p := vk.Catch(func() { got, err = AmountToString(m) }); p != "" {
		r.Violation("C20/amount/panic/"+vk.PanicSite(p), fmt.Sprintf("AmountToString(%d): %s", m, p), cs)
		return
	}
	inRange := m >= 0 && m <= c20MaxAmount
	if err != nil {
		if inRange {
			r.Violation("C20/amount/render-rejected", fmt.Sprintf("AmountToString(%d): %v", m, err), cs)
		}
		return false, true
	}
	if got != want {
		r.Violation("C20/amount/render-inexact/"+c20AmountClass(m), fmt.Sprintf("AmountToString(%d) = %q, exact canonical value is %q", m, got, want), cs)
		return
	}
	if inRange {
		if !c20Canon.MatchString(want) {
			vk.Fatalf("reference rendering %q of %d is not canonical", want, m)
		}
		c20RoundTrip(r, m, got)
	}
	return strings.Contains(want, "."), false
}

func c20AmountClass(m int64) string {
	switch {
	case m < 0:
		return "negative"
	case m > c20MaxAmount:
		return "above-max"
	case m%c20E8 == 0:
		return "integral"
	case m < c20E8:
		return "below-one"
	default:
		return "mixed"
	}
}

func c20RoundTrip(r *vk.Run, m int64, s string) {
	cs := c20Case{Part: "amount", Amount: m}
	var p string
	var back uint64
	var err error
	p = vk.Catch(func() {
		a, e := StringToAmount(s)
		err = e
		if e == nil {
			back = a.UintValue()
		}
	})
	if p != "" {
		r.Violation("C20/amount/panic/"+vk.PanicSite(p), fmt.Sprintf("StringToAmount(%q): %s", s, p), cs)
		return
	}
	if err != nil {
		r.Violation("C20/amount/roundtrip-rejected/"+c20AmountClass(m), fmt.Sprintf("StringToAmount(%q) (rendering of %d): %v", s, m, err), cs)
	} else if back != uint64(m) {
		r.Violation("C20/amount/roundtrip-differs/"+c20AmountClass(m), fmt.Sprintf("StringToAmount(%q) = %d, rendered from %d", s, back, m), cs)
	}
}

// c20ParseOne gives one string to the parser. accepted (optional) collects
// accepted strings that are not plain decimals (reported, not judged).
func c20ParseOne(r *vk.Run, s string, accepted *sync.Map) (ok bool) {
	cs := c20Case{Part: "parse", Text: s}
	var v uint64
	var err error
	if p := vk.Catch(func() {
		a, e := StringToAmount(s)
		err = e
		if e == nil {
			v = a.UintValue()
		}
	}); p != "" {
		r.Violation("C20/parse/panic/"+vk.PanicSite(p), fmt.Sprintf("StringToAmount(%q): %s", s, p), cs)
		return false
	}
	if err == nil && v > uint64(c20MaxAmount) {
		r.Violation("C20/parse/above-max-accepted", fmt.Sprintf("StringToAmount(%q) = %d > maximum amount", s, v), cs)
		return true
	}
	if c20Plain.MatchString(s) {
		// exact value of a plain decimal
		ip, fp := s, ""
		if i := strings.IndexByte(s, '.'); i >= 0 {
			ip, fp = s[:i], s[i+1:]
		}
		fp = strings.TrimRight(fp, "0")
		exact := new(big.Int)
		if ip != "" {
			exact.SetString(ip, 10)
		}
		exact.Mul(exact, c20BigE8)
		representable := len(fp) <= 8
		if representable && fp != "" {
			f, _ := new(big.Int).SetString(fp+strings.Repeat("0", 8-len(fp)), 10)
			exact.Add(exact, f)
		}
		switch {
		case err == nil && !representable:
			r.Violation("C20/parse/inexact/excess-precision", fmt.Sprintf("StringToAmount(%q) = %d: the string has more than 8 significant fractional digits", s, v), cs)
		case err == nil && exact.Cmp(new(big.Int).SetUint64(v)) != 0:
			r.Violation("C20/parse/inexact", fmt.Sprintf("StringToAmount(%q) = %d, exact value is %s", s, v, exact), cs)
		case err != nil && representable && c20Canon.MatchString(s) && exact.Cmp(big.NewInt(c20MaxAmount)) <= 0:
			r.Violation("C20/parse/canonical-rejected", fmt.Sprintf("StringToAmount(%q): %v", s, err), cs)
		}
		return err == nil
	}
	if err != nil {
		return false
	}
	// Accepted although not a plain decimal: the value must at least be a
	// legal amount whose rendering parses back to itself.
	if accepted != nil {
		accepted.Store(s, v)
	}
	rs, e := AmountToString(int64(v))
	if e != nil {
		r.Violation("C20/parse/accepted-value-unrenderable", fmt.Sprintf("StringToAmount(%q) = %d, AmountToString: %v", s, v, e), cs)
		return true
	}
	if a, e := StringToAmount(rs); e != nil || a.UintValue() != v {
		r.Violation("C20/parse/accepted-value-unstable", fmt.Sprintf("StringToAmount(%q) = %d, rendering %q parses to %v, %v", s, v, rs, a, e), cs)
	}
	return true
}

// c20Dense: the ranges (inclusive) in which every integer is checked.
func c20Dense(r *vk.Run) [][2]int64 {
	return [][2]int64{
		{0, vk.Pick(r, int64(2e7), int64(2e8))},
		{c20MaxAmount - vk.Pick(r, int64(2e6), int64(2e7)), c20MaxAmount},
	}
}

var c20DenseRanges [][2]int64

func c20InDense(r *vk.Run, m int64) bool {
	if c20DenseRanges == nil {
		c20DenseRanges = c20Dense(r)
	}
	for _, d := range c20DenseRanges {
		if m >= d[0] && m <= d[1] {
			return true
		}
	}
	return false
}

func c20Amounts(r *vk.Run) {
	c20DenseRanges = c20Dense(r)
	if consensus.MaxwellPerMass != c20E8 {
		vk.Fatalf("MaxwellPerMass = %d", consensus.MaxwellPerMass)
	}
	// ---- structured set (sorted out into a map to count distinct values)
	set := map[int64]struct{}{}
	add := func(m int64) { set[m] = struct{}{} }
	p10 := int64(1)
	for k := 0; k <= 18; k++ {
		for d := int64(1); d <= 9; d++ {
			for _, dl := range []int64{-1, 0, 1} {
				add(d*p10 + dl)
			}
		}
		if k <= 16 {
			for j := int64(-1000); j <= 1000; j++ {
				add(p10 + j)
			}
		}
		if k < 18 {
			p10 *= 10
		}
	}
	for j := int64(0); j <= 1000; j++ {
		add(c20MaxAmount - j)
		add(c20MaxAmount + j)
	}
	for _, q := range []int64{0, 1, 2, 9, 10, 11, 99, 100, 101, 999, 1000, 1001, 123456789, 100000000, 99999999, 206438399, 206438400, 206438401, 1000000000} {
		for _, f := range []int64{0, 1, 9, 10, 11, 90, 100, 12345678, 10000000, 90000000, 99999990, 99999999, 1000000, 50000000, 5, 500} {
			add(q*c20E8 + f)
			add(q*c20E8 - f)
		}
	}
	for _, m := range []int64{-1, -c20E8, -c20E8 - 1, -c20MaxAmount, math.MinInt64, math.MinInt64 + 1, math.MaxInt64, math.MaxInt64 - 1, 1 << 53, 1<<53 + 1, 1 << 32, 1<<32 - 1} {
		add(m)
	}
	var nFrac, nInt, nRej, nNeg, nAbove int64
	var buf []byte
	for m := range set {
		f, rej := c20AmountOne(r, m)
		switch {
		case rej:
			nRej++
		case f:
			nFrac++
		default:
			nInt++
		}
		if m < 0 {
			nNeg++
		} else if m > c20MaxAmount {
			nAbove++
		}
		if m >= 0 {
			buf = c20RefFast(m, buf)
			if string(buf) != c20RefBig(m) {
				vk.Fatalf("harness self-check: fast reference %q != big.Int reference %q for %d", buf, c20RefBig(m), m)
			}
		}
	}
	r.Eval(len(set))
	nOutsideDense := 0 // counted as distinct only where the dense ranges below do not contain the value
	for m := range set {
		if !c20InDense(r, m) {
			nOutsideDense++
		}
	}
	r.DistinctN(nOutsideDense)
	r.Set("amount_structured_values", len(set))
	r.Set("amount_structured_negative_or_above_max", nNeg+nAbove)
	r.Set("amount_structured_rejected_by_AmountToString", nRej)
	if r.ViolationCount() == 0 && (nRej == 0 || nFrac == 0 || nInt == 0) {
		vk.Fatalf("amount part is vacuous: frac=%d int=%d rejected=%d", nFrac, nInt, nRej)
	}
	r.Sample(map[string]interface{}{"part": "amount", "amount": 2064384000000000 * 10, "expect": "206438400 (maximum supply), parses back"})
	r.Sample(map[string]interface{}{"part": "amount", "amount": 1000000010, "expect": "10.0000001"})

	// ---- dense ranges: every integer.
	type rng struct{ lo, hi int64 } // inclusive
	var dense []rng
	for _, d := range c20Dense(r) {
		dense = append(dense, rng{d[0], d[1]})
	}
	const chunk = 1 << 16
	type job struct{ lo, hi int64 }
	var jobs []job
	var total int64
	for _, d := range dense {
		for lo := d.lo; lo <= d.hi; lo += chunk {
			hi := lo + chunk - 1
			if hi > d.hi {
				hi = d.hi
			}
			jobs = append(jobs, job{lo, hi})
		}
		total += d.hi - d.lo + 1
	}
	// ---- stride over the whole range [0, max]: one value per ~10^9 (quick) / 10^8 (thorough).
	step := vk.Pick(r, int64(1000000007), int64(100000007))
	var strideN int64
	for lo := int64(0); lo <= c20MaxAmount; lo += step * chunk {
		jobs = append(jobs, job{-lo - 1, step}) // negative lo marks a stride job starting at lo
	}
	var done, dFrac, crossed int64
	vk.ParallelFor(len(jobs), func(i int) {
		if r.Expired() {
			r.Cap("deadline during the dense amount range")
			return
		}
		j := jobs[i]
		lo, hi, st := j.lo, j.hi, int64(1)
		if j.lo < 0 {
			lo, st = -j.lo-1, j.hi
			hi = lo + (chunk-1)*st
			if hi > c20MaxAmount {
				hi = c20MaxAmount
			}
		}
		var buf []byte
		var n, nf, nx int64
		var failedAt int64 = -1
		p := vk.Catch(func() {
			for m := lo; m <= hi; m += st {
				if st != 1 && c20InDense(r, m) {
					continue // already covered by a dense range
				}
				failedAt = m
				buf = c20RefFast(m, buf)
				got, err := AmountToString(m)
				n++
				if err != nil || got != string(buf) {
					c20AmountOne(r, m) // re-judge with the big.Int reference and report
					if err == nil && got == c20RefBig(m) {
						vk.Fatalf("harness self-check: fast reference wrong for %d", m)
					}
					continue
				}
				if m%1009 == 0 {
					nx++
					if string(buf) != c20RefBig(m) {
						vk.Fatalf("harness self-check: fast reference %q wrong for %d", buf, m)
					}
				}
				if len(buf) > 0 && m%c20E8 != 0 {
					nf++
				}
				a, err := StringToAmount(got)
				if err != nil || a.UintValue() != uint64(m) {
					c20RoundTrip(r, m, got)
				}
			}
		})
		if p != "" {
			r.Violation("C20/amount/panic/"+vk.PanicSite(p), fmt.Sprintf("amount %d: %s", failedAt, p), c20Case{Part: "amount", Amount: failedAt})
		}
		r.Eval(int(n))
		atomic.AddInt64(&done, n)
		atomic.AddInt64(&dFrac, nf)
		atomic.AddInt64(&crossed, nx)
		if j.lo < 0 {
			atomic.AddInt64(&strideN, n)
		}
	})
	r.DistinctN(int(done))
	r.Set("amount_dense_ranges", fmt.Sprint(dense))
	r.Set("amount_dense_and_stride_values", done)
	r.Set("amount_stride_values", strideN)
	r.Set("amount_stride_step", step)
	r.Set("amount_values_with_fraction", dFrac+nFrac)
	r.Set("amount_fast_reference_cross_checked_against_big_int", crossed+int64(len(set)))
	if done < total {
		r.Cap("dense amount range not completed")
	}

	// ---- parser: every string over the alphabet up to the length bound.
	alpha := []byte("019.-+e ")
	maxLen := vk.Pick(r, 5, 7)
	var accepted sync.Map
	var nStr, nAcc int64
	// shard by the first two symbols
	var prefixes []string
	prefixes = append(prefixes, "")
	for _, a := range alpha {
		prefixes = append(prefixes, string(a))
	}
	var shards []string
	for _, a := range alpha {
		for _, b := range alpha {
			shards = append(shards, string([]byte{a, b}))
		}
	}
	for _, s := range prefixes {
		nStr++
		if c20ParseOne(r, s, &accepted) {
			nAcc++
		}
	}
	vk.ParallelFor(len(shards), func(i int) {
		var n, na int64
		var rec func(s []byte)
		rec = func(s []byte) {
			n++
			if c20ParseOne(r, string(s), &accepted) {
				na++
			}
			if len(s) >= maxLen {
				return
			}
			for _, a := range alpha {
				rec(append(s, a))
			}
		}
		rec([]byte(shards[i]))
		atomic.AddInt64(&nStr, n)
		atomic.AddInt64(&nAcc, na)
	})
	// ---- parser: plain decimals with long fractions and leading zeros.
	ints := []string{"", "0", "1", "00", "0001", "9", "10", "206438399", "206438400", "206438401", "0206438400", "99999999999", "9223372036854775807", "9223372036854775808", "18446744073709551616"}
	digits := []byte("019")
	fracLen := vk.Pick(r, 9, 10)
	var fr []string
	var gen func(s []byte)
	gen = func(s []byte) {
		fr = append(fr, string(s))
		if len(s) >= fracLen {
			return
		}
		for _, d := range digits {
			gen(append(s, d))
		}
	}
	gen(nil)
	var nDec, nDecAcc int64
	vk.ParallelFor(len(ints), func(i int) {
		var n, na int64
		for _, f := range fr {
			for _, s := range []string{ints[i] + "." + f} {
				n++
				if c20ParseOne(r, s, nil) {
					na++
				}
			}
		}
		atomic.AddInt64(&nDec, n)
		atomic.AddInt64(&nDecAcc, na)
	})
	r.Eval(int(nStr + nDec))
	r.DistinctN(int(nStr + nDec))
	r.Set("parse_alphabet", string(alpha))
	r.Set("parse_max_length", maxLen)
	r.Set("parse_strings_alphabet", nStr)
	r.Set("parse_strings_alphabet_accepted", nAcc)
	r.Set("parse_long_decimals", nDec)
	r.Set("parse_long_decimals_accepted", nDecAcc)
	var odd []string
	nOdd := 0
	accepted.Range(func(k, v interface{}) bool {
		nOdd++
		if len(k.(string)) <= 3 {
			odd = append(odd, fmt.Sprintf("%q=%d", k, v))
		}
		return true
	})
	sortStrings(odd)
	if len(odd) > 40 {
		odd = odd[:40]
	}
	r.Set("parse_accepted_although_not_a_plain_decimal", nOdd)
	r.Set("parse_accepted_although_not_a_plain_decimal_examples", odd)
	r.Sample(map[string]interface{}{"part": "parse", "text": "0.000000019", "expect": "error (9 significant fractional digits), never a rounded value"})
	if r.ViolationCount() == 0 && (nAcc == 0 || nAcc == nStr || nDecAcc == 0 || nDecAcc == nDec) {
		vk.Fatalf("parser part is vacuous: %d/%d, %d/%d accepted", nAcc, nStr, nDecAcc, nDec)
	}
}

func sortStrings(s []string) {
	for i := 1; i < len(s); i++ {
		for j := i; j > 0 && s[j] < s[j-1]; j-- {
			s[j], s[j-1] = s[j-1], s[j]
		}
	}
}
