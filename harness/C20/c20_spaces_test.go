//go:build go1.21

package api

// C20 part 3: address and binding target of the workspaces the API lists.

import (
	"bytes"
	"crypto/sha256"
	"encoding/binary"
	"encoding/hex"
	"fmt"
	"math/big"
	"strconv"
	"sync/atomic"

	"github.com/golang/protobuf/ptypes/empty"
	coreconfig "github.com/massnetorg/mass-core/config"
	"github.com/massnetorg/mass-core/massutil"
	"github.com/massnetorg/mass-core/poc"
	"github.com/massnetorg/mass-core/poc/chiapos"
	"github.com/massnetorg/mass-core/poc/pocutil"
	"github.com/massnetorg/mass-core/pocec"
	"golang.org/x/crypto/ripemd160"
	pb "massnet.org/mass/api/proto"
	"massnet.org/mass/mining"
	"massnet.org/mass/poc/engine"
	engine_v2 "massnet.org/mass/poc/engine.v2"
	"massnet.org/mass/zz_verif/vk"
)

// ---------------------------------------------------------------- reference

const c20B58 = "123456789ABCDEFGHJKLMNPQRSTUVWXYZabcdefghijkmnopqrstuvwxyz"

func c20Base58Check(version byte, payload []byte) string {
	b := append([]byte{version}, payload...)
	h1 := sha256.Sum256(b)
	h2 := sha256.Sum256(h1[:])
	b = append(b, h2[:4]...)
	x := new(big.Int).SetBytes(b)
	var out []byte
	rem := new(big.Int)
	base := big.NewInt(58)
	for x.Sign() > 0 {
		x.DivMod(x, base, rem)
		out = append(out, c20B58[rem.Int64()])
	}
	for _, c := range b {
		if c != 0 {
			break
		}
		out = append(out, '1')
	}
	for i, j := 0, len(out)-1; i < j; i, j = i+1, j-1 {
		out[i], out[j] = out[j], out[i]
	}
	return string(out)
}

// c20Base58CheckDecode: (version, payload, ok).
func c20Base58CheckDecode(s string) (byte, []byte, bool) {
	x := new(big.Int)
	base := big.NewInt(58)
	for i := 0; i < len(s); i++ {
		k := bytes.IndexByte([]byte(c20B58), s[i])
		if k < 0 {
			return 0, nil, false
		}
		x.Mul(x, base)
		x.Add(x, big.NewInt(int64(k)))
	}
	b := x.Bytes()
	for i := 0; i < len(s) && s[i] == '1'; i++ {
		b = append([]byte{0}, b...)
	}
	if len(b) < 5 {
		return 0, nil, false
	}
	body, sum := b[:len(b)-4], b[len(b)-4:]
	h1 := sha256.Sum256(body)
	h2 := sha256.Sum256(h1[:])
	if !bytes.Equal(h2[:4], sum) {
		return 0, nil, false
	}
	return body[0], body[1:], true
}

func c20Hash160(b []byte) []byte {
	h := sha256.Sum256(b)
	rm := ripemd160.New()
	rm.Write(h[:])
	return rm.Sum(nil)
}

type c20Expect struct {
	address, target string // "" target: the chain library refuses this (key, size)
}

// c20RefV1: what mass-core defines for a native plot key and bit length, with
// the independent codec cross-checked against it.
func c20RefV1(pk *pocec.PublicKey, bl int) c20Expect {
	ser := pk.SerializeCompressed()
	h := c20Hash160(ser)
	netID := coreconfig.ChainParams.PubKeyHashAddrID
	var e c20Expect
	a, err := massutil.NewAddressPubKeyHash(massutil.Hash160(ser), &coreconfig.ChainParams)
	if err != nil {
		vk.Fatalf("NewAddressPubKeyHash: %v", err)
	}
	e.address = a.EncodeAddress()
	if own := c20Base58Check(netID, h); own != e.address {
		vk.Fatalf("harness self-check: own base58check address %s != mass-core %s", own, e.address)
	}
	t, err := massutil.GetMassDBBindingTarget(pk, bl)
	if err == nil {
		e.target = t
		if own := c20Base58Check(netID, append(append([]byte{}, h...), byte(poc.ProofTypeDefault), byte(bl))); own != t {
			vk.Fatalf("harness self-check: own binding target %s != mass-core %s (bl %d)", own, t, bl)
		}
	}
	return e
}

func c20RefV2(id pocutil.Hash, k int) c20Expect {
	var e c20Expect
	t, err := massutil.GetChiaPlotBindingTarget(id, k)
	if err == nil {
		e.target = t
		own := c20Base58Check(coreconfig.ChainParams.PubKeyHashAddrID, append(c20Hash160(id[:]), byte(poc.ProofTypeChia), byte(k)))
		if own != t {
			vk.Fatalf("harness self-check: own chia binding target %s != mass-core %s (k %d)", own, t, k)
		}
	}
	return e
}

// c20DecodeBack: the listed strings decode to hash160 || type || size and to
// the pay-to-pubkey-hash of the key.
func c20DecodeBack(r *vk.Run, what string, preimage []byte, typ poc.ProofType, size int, address, target string, cs c20Case) {
	h := c20Hash160(preimage)
	netID := coreconfig.ChainParams.PubKeyHashAddrID
	ver, payload, ok := c20Base58CheckDecode(target)
	want := append(append([]byte{}, h...), byte(typ), byte(size))
	if !ok || ver != netID || !bytes.Equal(payload, want) {
		r.Violation("C20/space/binding-target-decodes-differently/"+what, fmt.Sprintf("binding target %q of %x size %d decodes to version %d payload %x (ok=%v), want %d %x", target, preimage, size, ver, payload, ok, netID, want), cs)
	}
	if d, err := massutil.DecodeAddress(target, &coreconfig.ChainParams); err != nil {
		r.Violation("C20/space/binding-target-not-decodable/"+what, fmt.Sprintf("mass-core DecodeAddress(%q): %v", target, err), cs)
	} else if _, isBT := d.(*massutil.AddressBindingTarget); !isBT || !bytes.Equal(d.ScriptAddress(), want) {
		r.Violation("C20/space/binding-target-decodes-differently/"+what, fmt.Sprintf("mass-core decodes %q to %T %x", target, d, d.ScriptAddress()), cs)
	}
	if what == "v1" {
		ver, payload, ok := c20Base58CheckDecode(address)
		if !ok || ver != netID || !bytes.Equal(payload, h) {
			r.Violation("C20/space/address-decodes-differently", fmt.Sprintf("address %q of key %x decodes to version %d payload %x (ok=%v)", address, preimage, ver, payload, ok), cs)
		}
		if d, err := massutil.DecodeAddress(address, &coreconfig.ChainParams); err != nil || !massutil.IsAddressPubKeyHash(d) || !bytes.Equal(d.ScriptAddress(), h) {
			r.Violation("C20/space/address-decodes-differently", fmt.Sprintf("mass-core DecodeAddress(%q) = %v, %v", address, d, err), cs)
		}
	}
}

// ---------------------------------------------------------------- stubs

type c20SK1 struct {
	*mining.MockedSpaceKeeperV1
	infos []engine.WorkSpaceInfo
	calls int64
}

func (f *c20SK1) Configured() bool { return true }
func (f *c20SK1) WorkSpaceInfos(flags engine.WorkSpaceStateFlags) ([]engine.WorkSpaceInfo, error) {
	atomic.AddInt64(&f.calls, 1)
	return f.infos, nil
}
func (f *c20SK1) WorkSpaceInfosByDirs() ([]string, [][]engine.WorkSpaceInfo, error) {
	atomic.AddInt64(&f.calls, 1)
	return []string{"/c20"}, [][]engine.WorkSpaceInfo{f.infos}, nil
}

type c20SK2 struct {
	*mining.MockedSpaceKeeperV2
	infos []engine_v2.WorkSpaceInfo
	calls int64
}

func (f *c20SK2) WorkSpaceInfos(flags engine_v2.WorkSpaceStateFlags) ([]engine_v2.WorkSpaceInfo, error) {
	atomic.AddInt64(&f.calls, 1)
	return f.infos, nil
}

var (
	_ mining.SpaceKeeperV1 = (*c20SK1)(nil)
	_ mining.SpaceKeeperV2 = (*c20SK2)(nil)
)

func c20Key(i int) *pocec.PublicKey {
	N := pocec.S256().N
	var k *big.Int
	switch {
	case i < 4:
		k = big.NewInt(int64(i + 1))
	case i < 8:
		k = new(big.Int).Sub(N, big.NewInt(int64(i-3)))
	default:
		h := sha256.Sum256([]byte("C20 plot key " + strconv.Itoa(i)))
		k = new(big.Int).SetBytes(h[:])
		k.Mod(k, new(big.Int).Sub(N, big.NewInt(1)))
		k.Add(k, big.NewInt(1))
	}
	b := make([]byte, 32)
	k.FillBytes(b)
	_, pub := pocec.PrivKeyFromBytes(pocec.S256(), b)
	return pub
}

// c20Plot: i-th (pool key, plot key) pair -> (plot key, plot id) as chia
// defines it: sha256(pool_pk || plot_pk). The 48-byte strings need not be
// curve points for this property (the API only hashes the id).
func c20Plot(i int) (*chiapos.G1Element, pocutil.Hash) {
	var pool, plot chiapos.G1Element
	for j := 0; j < 2; j++ {
		var ctr [8]byte
		binary.BigEndian.PutUint64(ctr[:], uint64(2*i+j))
		a := sha256.Sum256(append([]byte("C20 chia key a"), ctr[:]...))
		b := sha256.Sum256(append([]byte("C20 chia key b"), ctr[:]...))
		dst := &pool
		if j == 1 {
			dst = &plot
		}
		copy(dst[:32], a[:])
		copy(dst[32:], b[:16])
	}
	var id pocutil.Hash
	switch i {
	case 0: // all-zero and all-ones ids as edge cases
	case 1:
		for j := range id {
			id[j] = 0xff
		}
	default:
		id = sha256.Sum256(append(append([]byte{}, pool[:]...), plot[:]...))
	}
	return &plot, id
}

func c20SID1(pk *pocec.PublicKey, bl int) string {
	return hex.EncodeToString(pk.SerializeCompressed()) + "-" + strconv.Itoa(bl)
}
func c20SID2(id pocutil.Hash, k int) string { return id.String() + "-" + strconv.Itoa(k) }

var c20StubExpect = map[string]c20Expect{}

// c20StubKeepers: keepers listing n keys / plots at one supported size each
// (back end of the real-socket run).
func c20StubKeepers(n int) (*c20SK1, *c20SK2) {
	s1 := &c20SK1{MockedSpaceKeeperV1: mining.NewMockedSpaceKeeperV1()}
	s2 := &c20SK2{MockedSpaceKeeperV2: mining.NewMockedSpaceKeeperV2()}
	for i := 0; i < n; i++ {
		pk, bl := c20Key(8+i), 24+2*i
		s1.infos = append(s1.infos, engine.WorkSpaceInfo{SpaceID: c20SID1(pk, bl), PublicKey: pk, Ordinal: int64(i), BitLength: bl, State: engine.Ready})
		c20StubExpect[c20SID1(pk, bl)] = c20RefV1(pk, bl)
		g, id := c20Plot(2 + i)
		k := 32 + i
		s2.infos = append(s2.infos, engine_v2.WorkSpaceInfo{SpaceID: c20SID2(id, k), PlotID: id, PublicKey: g, BitLength: k})
		c20StubExpect[c20SID2(id, k)] = c20RefV2(id, k)
	}
	return s1, s2
}

// ---------------------------------------------------------------- check

var (
	c20BLSupported  = []int{24, 26, 28, 30, 32, 34, 36, 38, 40}
	c20BLOther      = []int{-1, 0, 1, 19, 20, 21, 22, 23, 25, 39, 41, 42, 50, 128, 199, 200, 201, 255, 256, 256 + 24, 256 + 19, 65536 + 32}
	c20KSupported   = []int{32, 33, 34, 35, 36, 37, 38, 39, 40, 41, 42, 43, 44, 45, 46, 47, 48, 49, 50}
	c20KOther       = []int{-1, 0, 19, 20, 25, 31, 51, 200, 201, 255, 256 + 32, 256 + 5}
	c20SpaceStatsOK int64
	c20SpaceStatsER int64
)

func c20CmpV1(r *vk.Run, via string, ws *pb.WorkSpace, pk *pocec.PublicKey, bl int) {
	r.Eval(1)
	ser := pk.SerializeCompressed()
	cs := c20Case{Part: "space1", KeyHex: hex.EncodeToString(ser), Size: bl}
	want := c20RefV1(pk, bl)
	if ws == nil {
		r.Violation("C20/space/v1-missing/"+via, fmt.Sprintf("%s: workspace %s not returned", via, c20SID1(pk, bl)), cs)
		return
	}
	if ws.Address != want.address {
		r.Violation("C20/space/v1-address-differs/"+via, fmt.Sprintf("%s: key %x: address %q, chain library defines %q", via, ser, ws.Address, want.address), cs)
	}
	if ws.BindingTarget != want.target {
		r.Violation("C20/space/v1-binding-target-differs/"+via, fmt.Sprintf("%s: key %x bit length %d: binding target %q, chain library defines %q", via, ser, bl, ws.BindingTarget, want.target), cs)
	}
	if ws.PublicKey != hex.EncodeToString(ser) || int(ws.BitLength) != bl || ws.SpaceId != c20SID1(pk, bl) {
		r.Violation("C20/space/v1-identity-differs/"+via, fmt.Sprintf("%s: listed (%s,%s,%d) for key %x bl %d", via, ws.SpaceId, ws.PublicKey, ws.BitLength, ser, bl), cs)
	}
	c20DecodeBack(r, "v1", ser, poc.ProofTypeDefault, bl, ws.Address, ws.BindingTarget, cs)
	atomic.AddInt64(&c20SpaceStatsOK, 1)
}

func c20CmpV2(r *vk.Run, via string, ws *pb.WorkSpaceV2, g *chiapos.G1Element, id pocutil.Hash, k int) {
	r.Eval(1)
	cs := c20Case{Part: "space2", KeyHex: id.String(), Size: k}
	want := c20RefV2(id, k)
	if ws == nil {
		r.Violation("C20/space/v2-missing/"+via, fmt.Sprintf("%s: workspace %s not returned", via, c20SID2(id, k)), cs)
		return
	}
	if ws.BindingTarget != want.target {
		r.Violation("C20/space/v2-binding-target-differs/"+via, fmt.Sprintf("%s: plot id %s k %d: binding target %q, chain library defines %q", via, id, k, ws.BindingTarget, want.target), cs)
	}
	if ws.PlotId != id.String() || int(ws.K) != k || ws.SpaceId != c20SID2(id, k) || ws.PublicKey != hex.EncodeToString(g[:]) {
		r.Violation("C20/space/v2-identity-differs/"+via, fmt.Sprintf("%s: listed (%s,%s,%d,%s) for plot %s k %d", via, ws.SpaceId, ws.PlotId, ws.K, ws.PublicKey, id, k), cs)
	}
	c20DecodeBack(r, "v2", id[:], poc.ProofTypeChia, k, "", ws.BindingTarget, cs)
	atomic.AddInt64(&c20SpaceStatsOK, 1)
}

// c20SpaceKeyV1: one key, all sizes, through every listing method.
func c20SpaceKeyV1(r *vk.Run, pk *pocec.PublicKey) {
	sk := &c20SK1{MockedSpaceKeeperV1: mining.NewMockedSpaceKeeperV1()}
	for i, bl := range c20BLSupported {
		sk.infos = append(sk.infos, engine.WorkSpaceInfo{SpaceID: c20SID1(pk, bl), PublicKey: pk, Ordinal: int64(i), BitLength: bl, State: engine.Ready, Progress: 100})
	}
	s := &Server{spaceKeeperV1: sk}
	ser := pk.SerializeCompressed()
	cs := c20Case{Part: "space1", KeyHex: hex.EncodeToString(ser)}
	find := func(l []*pb.WorkSpace, sid string) *pb.WorkSpace {
		for _, w := range l {
			if w != nil && w.SpaceId == sid {
				return w
			}
		}
		return nil
	}
	// GetCapacitySpaces
	var resp *pb.WorkSpacesResponse
	var err error
	if p := vk.Catch(func() { resp, err = s.GetCapacitySpaces(nil, &empty.Empty{}) }); p != "" || err != nil {
		r.Violation("C20/space/v1-listing-failed/GetCapacitySpaces", fmt.Sprintf("key %x: %v %s", ser, err, p), cs)
	} else {
		if int(resp.SpaceCount) != len(sk.infos) || len(resp.Spaces) != len(sk.infos) {
			r.Violation("C20/space/v1-count/GetCapacitySpaces", fmt.Sprintf("key %x: %d/%d spaces listed for %d", ser, resp.SpaceCount, len(resp.Spaces), len(sk.infos)), cs)
		}
		for _, bl := range c20BLSupported {
			c20CmpV1(r, "GetCapacitySpaces", find(resp.Spaces, c20SID1(pk, bl)), pk, bl)
		}
	}
	// GetCapacitySpacesByDirs
	var respD *pb.WorkSpacesByDirsResponse
	if p := vk.Catch(func() { respD, err = s.GetCapacitySpacesByDirs(nil, &empty.Empty{}) }); p != "" || err != nil || len(respD.Allocations) != 1 {
		r.Violation("C20/space/v1-listing-failed/GetCapacitySpacesByDirs", fmt.Sprintf("key %x: %v %s", ser, err, p), cs)
	} else {
		for _, bl := range c20BLSupported {
			c20CmpV1(r, "GetCapacitySpacesByDirs", find(respD.Allocations[0].Spaces, c20SID1(pk, bl)), pk, bl)
		}
	}
	// GetCapacitySpace, one by one
	for _, bl := range c20BLSupported {
		var one *pb.WorkSpaceResponse
		if p := vk.Catch(func() { one, err = s.GetCapacitySpace(nil, &pb.WorkSpaceRequest{SpaceId: c20SID1(pk, bl)}) }); p != "" || err != nil {
			r.Violation("C20/space/v1-listing-failed/GetCapacitySpace", fmt.Sprintf("key %x bl %d: %v %s", ser, bl, err, p), cs)
			continue
		}
		c20CmpV1(r, "GetCapacitySpace", one.Space, pk, bl)
	}
	// other sizes: the API answers exactly when the chain library defines a target.
	for _, bl := range c20BLOther {
		r.Eval(1)
		cs := c20Case{Part: "space1", KeyHex: hex.EncodeToString(ser), Size: bl}
		sk.infos = []engine.WorkSpaceInfo{{SpaceID: c20SID1(pk, bl), PublicKey: pk, BitLength: bl}}
		want := c20RefV1(pk, bl)
		var resp *pb.WorkSpacesResponse
		var err error
		if p := vk.Catch(func() { resp, err = s.GetCapacitySpaces(nil, &empty.Empty{}) }); p != "" {
			r.Violation("C20/space/panic/"+vk.PanicSite(p), fmt.Sprintf("key %x bl %d: %s", ser, bl, p), cs)
			continue
		}
		switch {
		case err != nil && want.target != "":
			r.Violation("C20/space/v1-listing-failed/other-size", fmt.Sprintf("key %x bl %d: %v, chain library defines %s", ser, bl, err, want.target), cs)
		case err == nil && want.target == "":
			r.Violation("C20/space/v1-undefined-target-listed", fmt.Sprintf("key %x bl %d: listed %q although the chain library defines no target", ser, bl, resp.Spaces[0].BindingTarget), cs)
		case err == nil:
			if w := resp.Spaces[0]; w.BindingTarget != want.target || w.Address != want.address {
				r.Violation("C20/space/v1-binding-target-differs/other-size", fmt.Sprintf("key %x bl %d: (%q,%q), chain library defines %+v", ser, bl, w.Address, w.BindingTarget, want), cs)
			}
			atomic.AddInt64(&c20SpaceStatsOK, 1)
		default:
			atomic.AddInt64(&c20SpaceStatsER, 1)
		}
	}
}

func c20SpacePlotV2(r *vk.Run, g *chiapos.G1Element, id pocutil.Hash) {
	sk := &c20SK2{MockedSpaceKeeperV2: mining.NewMockedSpaceKeeperV2()}
	for _, k := range c20KSupported {
		sk.infos = append(sk.infos, engine_v2.WorkSpaceInfo{SpaceID: c20SID2(id, k), PlotID: id, PublicKey: g, BitLength: k})
	}
	s := &Server{spaceKeeperV2: sk}
	cs := c20Case{Part: "space2", KeyHex: id.String()}
	var resp *pb.WorkSpacesResponseV2
	var err error
	if p := vk.Catch(func() { resp, err = s.GetCapacitySpacesV2(nil, &empty.Empty{}) }); p != "" || err != nil {
		r.Violation("C20/space/v2-listing-failed/GetCapacitySpacesV2", fmt.Sprintf("plot %s: %v %s", id, err, p), cs)
	} else {
		if int(resp.SpaceCount) != len(sk.infos) || len(resp.Spaces) != len(sk.infos) {
			r.Violation("C20/space/v2-count/GetCapacitySpacesV2", fmt.Sprintf("plot %s: %d/%d listed for %d", id, resp.SpaceCount, len(resp.Spaces), len(sk.infos)), cs)
		}
		for _, k := range c20KSupported {
			var w *pb.WorkSpaceV2
			for _, x := range resp.Spaces {
				if x != nil && x.SpaceId == c20SID2(id, k) {
					w = x
				}
			}
			c20CmpV2(r, "GetCapacitySpacesV2", w, g, id, k)
		}
	}
	for _, k := range c20KSupported {
		var one *pb.WorkSpaceResponseV2
		if p := vk.Catch(func() { one, err = s.GetCapacitySpaceV2(nil, &pb.WorkSpaceRequest{SpaceId: c20SID2(id, k)}) }); p != "" || err != nil {
			r.Violation("C20/space/v2-listing-failed/GetCapacitySpaceV2", fmt.Sprintf("plot %s k %d: %v %s", id, k, err, p), cs)
			continue
		}
		c20CmpV2(r, "GetCapacitySpaceV2", one.Space, g, id, k)
	}
	for _, k := range c20KOther {
		r.Eval(1)
		cs := c20Case{Part: "space2", KeyHex: id.String(), Size: k}
		sk.infos = []engine_v2.WorkSpaceInfo{{SpaceID: c20SID2(id, k), PlotID: id, PublicKey: g, BitLength: k}}
		want := c20RefV2(id, k)
		var resp *pb.WorkSpacesResponseV2
		var err error
		if p := vk.Catch(func() { resp, err = s.GetCapacitySpacesV2(nil, &empty.Empty{}) }); p != "" {
			r.Violation("C20/space/panic/"+vk.PanicSite(p), fmt.Sprintf("plot %s k %d: %s", id, k, p), cs)
			continue
		}
		switch {
		case err != nil && want.target != "":
			r.Violation("C20/space/v2-listing-failed/other-size", fmt.Sprintf("plot %s k %d: %v, chain library defines %s", id, k, err, want.target), cs)
		case err == nil && want.target == "":
			r.Violation("C20/space/v2-undefined-target-listed", fmt.Sprintf("plot %s k %d: listed %q although the chain library defines no target", id, k, resp.Spaces[0].BindingTarget), cs)
		case err == nil:
			if resp.Spaces[0].BindingTarget != want.target {
				r.Violation("C20/space/v2-binding-target-differs/other-size", fmt.Sprintf("plot %s k %d: %q, chain library defines %q", id, k, resp.Spaces[0].BindingTarget, want.target), cs)
			}
			atomic.AddInt64(&c20SpaceStatsOK, 1)
		default:
			atomic.AddInt64(&c20SpaceStatsER, 1)
		}
	}
}

func c20SpaceReplay(r *vk.Run, c c20Case) {
	b, err := hex.DecodeString(c.KeyHex)
	if err != nil {
		vk.Fatalf("replay key: %v", err)
	}
	if c.Part == "space1" {
		pk, err := pocec.ParsePubKey(b, pocec.S256())
		if err != nil {
			vk.Fatalf("replay key: %v", err)
		}
		c20SpaceKeyV1(r, pk)
		return
	}
	var id pocutil.Hash
	copy(id[:], b)
	g, _ := c20Plot(2)
	c20SpacePlotV2(r, g, id)
}

func c20Spaces(r *vk.Run) {
	nKeys := vk.Pick(r, 64, 1024)
	nPlots := vk.Pick(r, 64, 1024)
	r.Sample(map[string]interface{}{"part": "space1", "key_hex": hex.EncodeToString(c20Key(0).SerializeCompressed()), "sizes": c20BLSupported, "expect": "address and binding target as massutil defines them; decode back to hash160||0||bl"})
	_, id5 := c20Plot(5)
	r.Sample(map[string]interface{}{"part": "space2", "plot_id": id5.String(), "sizes": "k 32..50", "expect": "binding target = massutil.GetChiaPlotBindingTarget; decodes back to hash160||1||k"})
	vk.ParallelFor(nKeys+nPlots, func(i int) {
		if i < nKeys {
			c20SpaceKeyV1(r, c20Key(i))
			return
		}
		g, id := c20Plot(i - nKeys)
		c20SpacePlotV2(r, g, id)
	})
	r.DistinctN(nKeys*(len(c20BLSupported)+len(c20BLOther)) + nPlots*(len(c20KSupported)+len(c20KOther)))
	r.Set("space_keys_v1", nKeys)
	r.Set("space_plot_ids_v2", nPlots)
	r.Set("space_sizes_v1", fmt.Sprint(c20BLSupported, " other: ", c20BLOther))
	r.Set("space_sizes_v2", fmt.Sprint(c20KSupported, " other: ", c20KOther))
	r.Set("space_listings_compared", atomic.LoadInt64(&c20SpaceStatsOK))
	r.Set("space_sizes_refused_by_both", atomic.LoadInt64(&c20SpaceStatsER))
	if r.ViolationCount() == 0 && (c20SpaceStatsOK == 0 || c20SpaceStatsER == 0) {
		vk.Fatalf("space part is vacuous: ok=%d refused=%d", c20SpaceStatsOK, c20SpaceStatsER)
	}
}
