//go:build go1.21

package api

// C20 part 1: allow-list decision and 403 wrapper.

import (
	"encoding/json"
	"fmt"
	"io"
	"net"
	"net/http"
	"net/http/httptest"
	"net/netip"
	"os"
	"strconv"
	"strings"
	"sync"
	"sync/atomic"
	"time"

	"massnet.org/mass/config"
	"massnet.org/mass/zz_verif/vk"
)

// ---------------------------------------------------------------- reference

type c20Cfg struct{ wl, lan []string }

type c20Ref struct {
	wildcard bool
	ips      []netip.Addr
	pfx      []netip.Prefix
	badWL    bool // some whitelist entry is neither "*" nor an IP literal
}

var c20Prefix = map[string]netip.Prefix{
	"10":  netip.MustParsePrefix("10.0.0.0/8"),
	"172": netip.MustParsePrefix("172.16.0.0/12"),
	"192": netip.MustParsePrefix("192.168.0.0/16"),
}

func c20NewRef(c c20Cfg) c20Ref {
	var ref c20Ref
	for _, w := range c.wl {
		if w == "*" {
			ref.wildcard = true
			continue
		}
		a, err := netip.ParseAddr(w)
		if err != nil || a.Zone() != "" {
			ref.badWL = true
			continue
		}
		ref.ips = append(ref.ips, a.Unmap())
	}
	for _, l := range c.lan {
		if p, ok := c20Prefix[l]; ok {
			ref.pfx = append(ref.pfx, p)
		}
	}
	return ref
}

// c20Readings returns every IP a remote-address string could reasonably be
// read as (weakest oracle: the admission is justified if any of them is).
func c20Readings(s string) []netip.Addr {
	hosts := []string{s}
	if strings.HasPrefix(s, "[") {
		if j := strings.IndexByte(s, ']'); j > 0 {
			hosts = append(hosts, s[1:j])
		}
	}
	if j := strings.LastIndexByte(s, ':'); j >= 0 {
		h := s[:j]
		hosts = append(hosts, h)
		if len(h) >= 2 && h[0] == '[' && h[len(h)-1] == ']' {
			hosts = append(hosts, h[1:len(h)-1])
		}
	}
	var out []netip.Addr
	for _, h := range hosts {
		if k := strings.IndexByte(h, '%'); k >= 0 {
			h = h[:k]
		}
		if a, err := netip.ParseAddr(h); err == nil {
			out = append(out, a)
		}
	}
	return out
}

// ipClass: why the configuration covers ip ("" = it does not).
func (ref c20Ref) ipClass(ip netip.Addr, strictLoopback bool) string {
	ip = ip.Unmap().WithZone("")
	if strictLoopback {
		if ip == netip.MustParseAddr("127.0.0.1") || ip == netip.MustParseAddr("::1") {
			return "loopback"
		}
	} else if ip.IsLoopback() {
		return "loopback"
	}
	for _, w := range ref.ips {
		if w == ip {
			return "whitelist"
		}
	}
	for _, p := range ref.pfx {
		if p.Contains(ip) {
			return "lan"
		}
	}
	return ""
}

// justified: may the gateway serve a request with this RemoteAddr?
func (ref c20Ref) justified(s string) (bool, string) {
	if ref.wildcard {
		return true, "wildcard"
	}
	for _, a := range c20Readings(s) {
		if c := ref.ipClass(a, false); c != "" {
			return true, c
		}
	}
	return false, ""
}

func c20AddrClass(s string) string {
	rd := c20Readings(s)
	if len(rd) == 0 {
		return "malformed"
	}
	switch a := rd[0]; {
	case a.Is4():
		return "ipv4"
	case a.Is4In6():
		return "ipv4-mapped"
	default:
		return "ipv6"
	}
}

// ---------------------------------------------------------------- domain

// c20Remote: one RemoteAddr string. wf: it is the literal "ip:port" /
// "[ip]:port" form with a numeric port in 0..65535 that net/http produces; ip
// is then the address it denotes (used only for the converse clause).
type c20Remote struct {
	s  string
	wf bool
	ip netip.Addr
}

const (
	c20W4 = "203.0.113.7"
	c20W6 = "2001:db8::7"
)

var c20Whitelists = [][]string{
	{},
	{"*"},
	{c20W4},
	{c20W6},
	{"::ffff:" + c20W4},
	{c20W4, "*"},
	{"bad"},
	{c20W4, c20W6},
	{"2001:0db8:0000:0000:0000:0000:0000:0007"},
	{"::ffff:cb00:7107"},
}

var c20LanMenu = []string{"10", "172", "192", "11"}

// extra LAN settings tried with the empty whitelist only.
var c20LanOdd = [][]string{{"*"}, {"10.0.0.0/8"}, {"192", "192"}, {""}, {"172.16"}, {" 10"}}

var c20V4 = []string{
	// range edges: first-1, first, last, last+1
	"9.255.255.255", "10.0.0.0", "10.255.255.255", "11.0.0.0",
	"172.15.255.255", "172.16.0.0", "172.31.255.255", "172.32.0.0",
	"192.167.255.255", "192.168.0.0", "192.168.255.255", "192.169.0.0",
	// loopback and neighbours
	"127.0.0.1", "127.0.0.2", "127.0.0.0", "127.255.255.255", "126.255.255.255", "128.0.0.0",
	"0.0.0.0", "0.0.0.1", "255.255.255.255", "1.0.0.127",
	// whitelisted +-1 and look-alikes
	"203.0.113.6", "203.0.113.7", "203.0.113.8", "203.0.113.70", "203.0.113.77", "203.0.113.17", "20.30.113.7", "7.113.0.203",
	// inside / outside, other special ranges
	"10.1.2.3", "11.0.0.1", "172.20.1.1", "172.1.1.1", "172.168.0.1", "192.168.1.1", "192.16.8.1", "192.0.2.2", "1.2.3.4",
	"169.254.1.1", "100.64.0.1", "168.192.0.1", "16.172.0.1",
}

var c20V6 = []string{
	"::1", "::2", "::", "::1:0", "1::", "1::1",
	"2001:db8::6", "2001:db8::7", "2001:db8::8", "2001:db8::70", "2001:db8:0:0:7::",
	"fe80::1", "fc00::1", "fd00::2", "ff02::1",
	"::127.0.0.1", "::10.0.0.1", "::ffff:0:127.0.0.1", "::ffff:0:10.0.0.1", "64:ff9b::10.0.0.1", "64:ff9b::7f00:1", "2002:a00:1::", "2002:7f00:1::",
	"a00:1::", "7f00:1::",
}

var c20Ports = []struct {
	suffix string
	ok     bool
}{{":0", true}, {":80", true}, {":65535", true}, {":65536", false}, {"", false}, {":x", false}, {":", false}, {":-1", false}, {":80 ", false}}

var c20Malformed = []string{
	"", ":", ":80", "1.2.3", "[::1", "::1]:80", "[]:80", "[::1]80", "[::1]::80", "1.2.3.4:80:90", "127.0.0.1:80:90",
	"[127.0.0.1:80", "127.0.0.1]:80", "[[::1]]:80", "[::1]:80]", "[10.0.0.1", "10.0.0.1]", "[", "]", "[]", "[]:", "%", "[%lo]:80",
	"[::1%lo]:80", "[fe80::1%eth0]:80", "[::ffff:10.0.0.1%eth0]:80", "[10.0.0.1%eth0]", "*", "*:80", "[*]",
}

func c20Remotes() []c20Remote {
	var out []c20Remote
	seen := map[string]bool{}
	add := func(s string, wf bool, ip netip.Addr) {
		if seen[s] {
			return
		}
		seen[s] = true
		out = append(out, c20Remote{s, wf, ip})
	}
	for _, v := range c20V4 {
		ip := netip.MustParseAddr(v)
		b := ip.As4()
		hexm := fmt.Sprintf("::ffff:%x:%x", uint16(b[0])<<8|uint16(b[1]), uint16(b[2])<<8|uint16(b[3]))
		for _, p := range c20Ports {
			add(v+p.suffix, p.ok, ip)
			add("["+v+"]"+p.suffix, false, ip)
			add("[::ffff:"+v+"]"+p.suffix, p.ok, ip)
			add("["+hexm+"]"+p.suffix, p.ok, ip)
			add("[0:0:0:0:0:FFFF:"+v+"]"+p.suffix, p.ok, ip)
			add("::ffff:"+v+p.suffix, false, ip)
			add("[::ffff:"+v+"%eth0]"+p.suffix, false, ip)
		}
	}
	for _, v := range c20V6 {
		ip := netip.MustParseAddr(v)
		for _, p := range c20Ports {
			add("["+v+"]"+p.suffix, p.ok, ip)
			add("["+ip.StringExpanded()+"]"+p.suffix, p.ok, ip)
			add("["+strings.ToUpper(v)+"]"+p.suffix, p.ok, ip)
			add(v+p.suffix, false, ip)
			add("["+v+"%eth0]"+p.suffix, false, ip)
		}
	}
	for _, m := range c20Malformed {
		add(m, false, netip.Addr{})
	}
	return out
}

func c20LanSubsets() [][]string {
	var out [][]string
	for m := 0; m < 1<<len(c20LanMenu); m++ {
		sub := []string{}
		for i, l := range c20LanMenu {
			if m&(1<<i) != 0 {
				sub = append(sub, l)
			}
		}
		out = append(out, sub)
	}
	return out
}

// ---------------------------------------------------------------- check

type c20AllowStats struct {
	pairs, admitted, refused                         int64
	byWildcard, byLoopback, byWhitelist, byLan       int64
	unjustified, mustAdmit, malformedRefused, cfgErr int64
	wrapper403                                       int64
}

func (c c20Cfg) String() string { return fmt.Sprintf("whitelist=%q allowed_lan=%q", c.wl, c.lan) }

// c20AllowOne decides every remote under one configuration with the real
// function and through the real wrapper.
//
// viaHandler=false (the /16 sweep) skips the wrapper: every refusal through it
// makes mass-core's logger take a goroutine stack dump (logging.GetGID) under
// the runtime's global print lock, which serialises the workers.
func c20AllowOne(r *vk.Run, st *c20AllowStats, cfg c20Cfg, remotes []c20Remote, viaHandler bool) {
	ref := c20NewRef(cfg)
	fn, err := getIPAccessControlFunc(cfg.wl, cfg.lan)
	if err != nil {
		// Refusing a configuration as a whole is fail-closed (Run returns the
		// error, nothing is served) - legitimate only for an unusable entry.
		atomic.AddInt64(&st.cfgErr, 1)
		r.Eval(1)
		if !ref.badWL {
			r.Violation("C20/allow/valid-config-rejected", cfg.String()+": "+strings.TrimSpace(err.Error()), c20Case{Part: "allow", Whitelist: cfg.wl, Lan: cfg.lan})
		}
		return
	}
	ran := 0
	inner := http.HandlerFunc(func(w http.ResponseWriter, q *http.Request) { ran++; w.WriteHeader(http.StatusOK) })
	h := accessControlHandler(inner, fn)
	req := httptest.NewRequest("GET", "/v1/spaces", nil)
	var nAdm, nRef, nW, nLo, nWl, nLan, nUnj, nMust, nMalRef, n403 int64
	for _, rem := range remotes {
		cs := c20Case{Part: "allow", Whitelist: cfg.wl, Lan: cfg.lan, Remote: rem.s}
		var got bool
		if p := vk.Catch(func() { got = fn(rem.s) }); p != "" {
			r.Violation("C20/allow/panic/"+vk.PanicSite(p), fmt.Sprintf("%s remote=%q: %s", cfg, rem.s, p), cs)
			continue
		}
		ran = 0
		rec := httptest.NewRecorder()
		if viaHandler {
			req.RemoteAddr = rem.s
			if p := vk.Catch(func() { h.ServeHTTP(rec, req) }); p != "" {
				r.Violation("C20/wrapper/panic/"+vk.PanicSite(p), fmt.Sprintf("%s remote=%q: %s", cfg, rem.s, p), cs)
				continue
			}
		} else if got { // stand-in so that the clauses below read the decision only
			ran, rec.Code = 1, http.StatusOK
		} else {
			rec.Code = http.StatusForbidden
		}
		just, class := ref.justified(rem.s)
		if got {
			nAdm++
			switch class {
			case "wildcard":
				nW++
			case "loopback":
				nLo++
			case "whitelist":
				nWl++
			case "lan":
				nLan++
			}
		} else {
			nRef++
			if c20AddrClass(rem.s) == "malformed" {
				nMalRef++
			}
		}
		if viaHandler && rec.Code == http.StatusForbidden && ran == 0 {
			n403++
		}
		// (a) safety: admitted only if justified.
		if !just {
			nUnj++
			if got {
				r.Violation("C20/allow/unjustified-admission/"+c20AddrClass(rem.s),
					fmt.Sprintf("%s admits RemoteAddr %q, which is not loopback, not whitelisted, in no enabled LAN range, and no wildcard is configured", cfg, rem.s), cs)
			}
			if rec.Code != http.StatusForbidden || ran != 0 {
				r.Violation("C20/wrapper/refused-origin-served/"+c20AddrClass(rem.s),
					fmt.Sprintf("%s RemoteAddr %q: status %d, inner handler ran %d time(s); want 403 and 0", cfg, rem.s, rec.Code, ran), cs)
			}
		}
		// (b) the wrapper does what the decision says, exactly once.
		if (got && (ran != 1 || rec.Code != http.StatusOK)) || (!got && (ran != 0 || rec.Code != http.StatusForbidden)) {
			r.Violation("C20/wrapper/disagrees-with-decision",
				fmt.Sprintf("%s RemoteAddr %q: decision=%v but status %d and inner handler ran %d time(s)", cfg, rem.s, got, rec.Code, ran), cs)
		}
		// (c) converse, for the literal forms net/http produces only: the
		// origins the configuration names are served (127.0.0.1, ::1, exact
		// whitelisted IP, enabled range), and everything under "*".
		if ref.wildcard || rem.wf {
			must := "wildcard"
			if !ref.wildcard {
				must = ref.ipClass(rem.ip, true)
			}
			if must != "" {
				nMust++
				if !got {
					r.Violation("C20/allow/configured-origin-refused/"+must,
						fmt.Sprintf("%s refuses RemoteAddr %q although the configuration covers it (%s)", cfg, rem.s, must), cs)
				}
			}
		}
	}
	n := int64(len(remotes))
	r.Eval(int(n))
	r.DistinctN(int(n))
	atomic.AddInt64(&st.pairs, n)
	atomic.AddInt64(&st.admitted, nAdm)
	atomic.AddInt64(&st.refused, nRef)
	atomic.AddInt64(&st.byWildcard, nW)
	atomic.AddInt64(&st.byLoopback, nLo)
	atomic.AddInt64(&st.byWhitelist, nWl)
	atomic.AddInt64(&st.byLan, nLan)
	atomic.AddInt64(&st.unjustified, nUnj)
	atomic.AddInt64(&st.mustAdmit, nMust)
	atomic.AddInt64(&st.malformedRefused, nMalRef)
	atomic.AddInt64(&st.wrapper403, n403)
}

func c20Allow(r *vk.Run) {
	remotes := c20Remotes()
	var cfgs []c20Cfg
	for _, wl := range c20Whitelists {
		for _, lan := range c20LanSubsets() {
			cfgs = append(cfgs, c20Cfg{wl, lan})
		}
	}
	for _, lan := range c20LanOdd {
		cfgs = append(cfgs, c20Cfg{[]string{}, lan})
	}
	cfgs = append(cfgs, c20Cfg{nil, nil})
	st := &c20AllowStats{}
	r.Sample(map[string]interface{}{"part": "allow", "whitelist": []string{c20W4}, "allowed_lan": []string{"172"}, "remote_addr": "[::ffff:172.32.0.0]:80", "expect": "403, inner handler not run"})
	r.Sample(map[string]interface{}{"part": "allow", "whitelist": []string{}, "allowed_lan": []string{"10", "11"}, "remote_addr": "11.0.0.0:65535", "expect": "403 (\"11\" enables nothing)"})
	c20FewWorkers(4, len(cfgs), func(i int) { c20AllowOne(r, st, cfgs[i], remotes, true) })

	// Sweep of the IPv4 space at /16 granularity: first and last address (and,
	// thorough, two inner corners) of every a.b.0.0/16, plain and IPv4-mapped,
	// under every LAN subset with an empty whitelist.
	subs := c20LanSubsets()
	corners := [][2]byte{{0, 0}, {255, 255}}
	if r.Thorough() {
		corners = append(corners, [2]byte{0, 255}, [2]byte{255, 0}, [2]byte{1, 1}, [2]byte{128, 0})
	}
	stSweep := &c20AllowStats{}
	vk.ParallelFor(len(subs)*256, func(j int) {
		if r.Expired() {
			r.Cap("deadline during the /16 sweep of the allow-list")
			return
		}
		sub, a := subs[j/256], byte(j%256)
		rem := make([]c20Remote, 0, 256*len(corners)*2)
		for b := 0; b < 256; b++ {
			for _, c := range corners {
				ip := netip.AddrFrom4([4]byte{a, byte(b), c[0], c[1]})
				rem = append(rem, c20Remote{ip.String() + ":8080", true, ip}, c20Remote{"[::ffff:" + ip.String() + "]:443", true, ip})
			}
		}
		c20AllowOne(r, stSweep, c20Cfg{[]string{}, sub}, rem, false)
	})

	r.Set("allow_configurations", len(cfgs))
	r.Set("allow_remote_strings", len(remotes))
	r.Set("allow_pairs_structured", st.pairs)
	r.Set("allow_pairs_sweep", stSweep.pairs)
	r.Set("allow_admitted", st.admitted+stSweep.admitted)
	r.Set("allow_refused", st.refused+stSweep.refused)
	r.Set("allow_admitted_by", map[string]int64{"wildcard": st.byWildcard, "loopback": st.byLoopback + stSweep.byLoopback, "whitelist": st.byWhitelist, "lan": st.byLan + stSweep.byLan})
	r.Set("allow_pairs_where_reference_demands_403", st.unjustified+stSweep.unjustified)
	r.Set("allow_pairs_where_converse_demands_admission", st.mustAdmit+stSweep.mustAdmit)
	r.Set("allow_malformed_refused", st.malformedRefused)
	r.Set("allow_configurations_rejected_as_a_whole", st.cfgErr)
	r.Set("wrapper_403_with_inner_not_run", st.wrapper403)
	if r.ViolationCount() == 0 && (st.unjustified == 0 || st.byLoopback == 0 || st.byWhitelist == 0 || st.byLan == 0 || st.byWildcard == 0 || st.malformedRefused == 0 || st.cfgErr == 0) {
		vk.Fatalf("allow-list part is vacuous: %+v", *st)
	}
}

// c20FewWorkers: like vk.ParallelFor with at most w goroutines (the refusal
// path logs under a global runtime lock; more workers only contend).
func c20FewWorkers(w, n int, fn func(i int)) {
	var next int64 = -1
	var wg sync.WaitGroup
	for k := 0; k < w; k++ {
		wg.Add(1)
		go func() {
			defer wg.Done()
			for {
				i := int(atomic.AddInt64(&next, 1))
				if i >= n {
					return
				}
				fn(i)
			}
		}()
	}
	wg.Wait()
}

// ---------------------------------------------------------------- sockets

// c20FreePorts asks the kernel for n currently unused TCP ports.
func c20FreePorts(n int) []uint16 {
	var ls []net.Listener
	var out []uint16
	for i := 0; i < n; i++ {
		l, err := net.Listen("tcp", ":0")
		if err != nil {
			break
		}
		ls = append(ls, l)
		out = append(out, uint16(l.Addr().(*net.TCPAddr).Port))
	}
	for _, l := range ls {
		l.Close()
	}
	return out
}

func c20LocalAddrs() (out []netip.Addr) {
	as, _ := net.InterfaceAddrs()
	for _, a := range as {
		if n, ok := a.(*net.IPNet); ok {
			if ip, ok := netip.AddrFromSlice(n.IP); ok {
				ip = ip.Unmap()
				if !ip.IsLoopback() && !ip.IsLinkLocalUnicast() {
					out = append(out, ip)
				}
			}
		}
	}
	return
}

// c20ProcListeners returns the local addresses of the LISTEN sockets on port
// (from /proc/net/tcp{,6}); ok=false where that is not available.
func c20ProcListeners(port uint16) (addrs []netip.Addr, ok bool) {
	for _, f := range []string{"/proc/net/tcp", "/proc/net/tcp6"} {
		b, err := os.ReadFile(f)
		if err != nil {
			continue
		}
		ok = true
		for _, line := range strings.Split(string(b), "\n")[1:] {
			fs := strings.Fields(line)
			if len(fs) < 4 || fs[3] != "0A" {
				continue
			}
			hp := strings.Split(fs[1], ":")
			if len(hp) != 2 {
				continue
			}
			p, err := strconv.ParseUint(hp[1], 16, 16)
			if err != nil || uint16(p) != port {
				continue
			}
			raw := make([]byte, len(hp[0])/2)
			for i := range raw {
				v, _ := strconv.ParseUint(hp[0][2*i:2*i+2], 16, 8)
				raw[i] = byte(v)
			}
			// the kernel prints each 32-bit word in host (little-endian) order
			for i := 0; i+4 <= len(raw); i += 4 {
				raw[i], raw[i+1], raw[i+2], raw[i+3] = raw[i+3], raw[i+2], raw[i+1], raw[i]
			}
			if a, good := netip.AddrFromSlice(raw); good {
				addrs = append(addrs, a.Unmap())
			}
		}
	}
	return
}

// c20Gateway runs the real Server.Start() and the real Run() once, on ports
// obtained from the kernel, with the most restrictive configuration, and sends
// real HTTP requests from every local source address.
//
//   - gRPC: every listening socket Start() opens is bound to a loopback address
//     and a connection to it through a non-loopback local address is refused.
//   - gateway: a request whose source the allow-list function refuses gets 403
//     and the space keeper behind the API is not touched; a request from
//     127.0.0.1 is served (and the listed workspace carries the reference
//     address / binding target).
//
// Anything the environment does not permit (no free port, no second address) is
// recorded as not exercised, never as a verdict.
func c20Gateway(r *vk.Run) {
	ports := c20FreePorts(5)
	if len(ports) < 5 {
		r.Set("gateway_socket_part", "not exercised: could not obtain 5 free TCP ports")
		return
	}
	locals := c20LocalAddrs()
	r.Set("gateway_local_non_loopback_addresses", fmt.Sprint(locals))

	// --- gRPC listen address.
	if a, err := netip.ParseAddr(GRPCListenAddress); err != nil || !a.IsLoopback() {
		r.Violation("C20/grpc/listen-address-not-loopback", fmt.Sprintf("GRPCListenAddress = %q", GRPCListenAddress), nil)
	}
	sk1, sk2 := c20StubKeepers(3)
	var srv *Server
	grpcChecked := 0
	for i, p := range ports[:4] {
		s, err := NewServer(&config.API{PortGRPC: p, PortHttp: ports[4], Whitelist: []string{}, AllowedLan: []string{}}, nil, nil, nil, nil, nil, nil, sk1, sk2, 0, func() {})
		if err != nil {
			vk.Fatalf("NewServer: %v", err)
		}
		if err := s.Start(); err != nil {
			r.Set("grpc_listen_part", fmt.Sprintf("Start() on port %d failed: %v", p, err))
			continue
		}
		r.Eval(1)
		grpcChecked++
		if la, ok := c20ProcListeners(p); ok {
			if len(la) == 0 {
				r.Set("grpc_listen_proc", "no LISTEN socket found in /proc/net/tcp for the port")
			}
			for _, a := range la {
				if !a.IsLoopback() {
					r.Violation("C20/grpc/listens-beyond-loopback", fmt.Sprintf("Server.Start() with port_grpc=%d listens on %s", p, a), nil)
				}
			}
		}
		for _, l := range locals {
			c, err := net.DialTimeout("tcp", netip.AddrPortFrom(l, p).String(), 3*time.Second)
			if err == nil {
				c.Close()
				r.Violation("C20/grpc/listens-beyond-loopback", fmt.Sprintf("Server.Start() with port_grpc=%d accepts a connection to %s", p, l), nil)
			}
		}
		if c, err := net.DialTimeout("tcp", netip.AddrPortFrom(netip.MustParseAddr("127.0.0.1"), p).String(), 3*time.Second); err != nil {
			r.Violation("C20/grpc/not-listening-on-loopback", fmt.Sprintf("port_grpc=%d: %v", p, err), nil)
		} else {
			c.Close()
		}
		if i == 0 {
			srv = s // stays up as the gateway's back end
		} else {
			s.Stop()
		}
	}
	r.Set("grpc_listeners_checked", grpcChecked)
	if srv == nil {
		r.Set("gateway_socket_part", "not exercised: gRPC server did not start")
		return
	}

	// --- gateway as installed by Run().
	cfg := srv.config
	fn, err := getIPAccessControlFunc(cfg.Whitelist, cfg.AllowedLan)
	if err != nil {
		vk.Fatalf("empty configuration rejected: %v", err)
	}
	ref := c20NewRef(c20Cfg{cfg.Whitelist, cfg.AllowedLan})
	runErr := make(chan error, 1)
	go func() { runErr <- Run(cfg) }()
	base := netip.AddrPortFrom(netip.MustParseAddr("127.0.0.1"), cfg.PortHttp)
	up := false
	for i := 0; i < 200 && !up; i++ {
		select {
		case err := <-runErr:
			r.Set("gateway_socket_part", fmt.Sprintf("not exercised: Run() returned %v", err))
			return
		default:
		}
		if c, err := net.DialTimeout("tcp", base.String(), time.Second); err == nil {
			c.Close()
			up = true
		} else {
			time.Sleep(25 * time.Millisecond)
		}
	}
	if !up {
		r.Set("gateway_socket_part", "not exercised: gateway did not come up")
		return
	}
	type src struct{ from, to netip.Addr }
	srcs := []src{
		{netip.MustParseAddr("127.0.0.1"), netip.MustParseAddr("127.0.0.1")},
		{netip.MustParseAddr("127.0.0.2"), netip.MustParseAddr("127.0.0.1")},
		{netip.MustParseAddr("127.1.2.3"), netip.MustParseAddr("127.0.0.1")},
		{netip.MustParseAddr("::1"), netip.MustParseAddr("::1")},
	}
	for _, l := range locals {
		srcs = append(srcs, src{l, l})
	}
	served, refused, skipped := 0, 0, 0
	for _, s := range srcs {
		for _, path := range []string{"/v1/spaces", "/v2/spaces", "/v1/spaces/directory", "/no/such/route"} {
			d := &net.Dialer{LocalAddr: &net.TCPAddr{IP: s.from.AsSlice()}, Timeout: 5 * time.Second}
			cl := &http.Client{Transport: &http.Transport{DialContext: d.DialContext, DisableKeepAlives: true}, Timeout: 20 * time.Second}
			before := atomic.LoadInt64(&sk1.calls) + atomic.LoadInt64(&sk2.calls)
			resp, err := cl.Get("http://" + netip.AddrPortFrom(s.to, cfg.PortHttp).String() + path)
			if err != nil {
				skipped++
				continue
			}
			body, _ := io.ReadAll(resp.Body)
			resp.Body.Close()
			after := atomic.LoadInt64(&sk1.calls) + atomic.LoadInt64(&sk2.calls)
			r.Eval(1)
			// what the server saw as RemoteAddr is s.from:<ephemeral>
			remote := netip.AddrPortFrom(s.from, 40000).String()
			allowed := fn(remote)
			just, _ := ref.justified(remote)
			what := fmt.Sprintf("real request from %s to the gateway started by Run() (whitelist=[], allowed_lan=[]) GET %s: status %d, space keeper calls %d", s.from, path, resp.StatusCode, after-before)
			if !allowed || !just {
				refused++
				if resp.StatusCode != http.StatusForbidden || after != before {
					fp := "C20/gateway/wrapper-not-in-front-of-mux"
					if !just {
						fp = "C20/gateway/refused-origin-served"
					}
					r.Violation(fp, what+"; want 403 and 0", c20Case{Part: "allow", Whitelist: cfg.Whitelist, Lan: cfg.AllowedLan, Remote: remote})
				}
				continue
			}
			served++
			if resp.StatusCode == http.StatusForbidden {
				r.Violation("C20/gateway/configured-origin-refused", what, c20Case{Part: "allow", Whitelist: cfg.Whitelist, Lan: cfg.AllowedLan, Remote: remote})
				continue
			}
			// The listing that came back over HTTP carries the reference values
			// (a listing that fails is judged by part 3, in process).
			if resp.StatusCode != http.StatusOK && path != "/no/such/route" {
				r.Set("gateway_listing_not_ok", fmt.Sprintf("GET %s: %d %s", path, resp.StatusCode, body))
			}
			if resp.StatusCode == http.StatusOK && (path == "/v1/spaces" || path == "/v2/spaces") {
				var out struct {
					Spaces []struct {
						SpaceID       string `json:"space_id"`
						Address       string `json:"address"`
						BindingTarget string `json:"binding_target"`
					} `json:"spaces"`
				}
				if err := json.Unmarshal(body, &out); err != nil || len(out.Spaces) == 0 {
					r.Violation("C20/gateway/listing-unreadable", fmt.Sprintf("%s: %v %s", what, err, body), nil)
					continue
				}
				for _, sp := range out.Spaces {
					want, ok := c20StubExpect[sp.SpaceID]
					if !ok || sp.BindingTarget != want.target || (path == "/v1/spaces" && sp.Address != want.address) {
						r.Violation("C20/space/http-listing-differs", fmt.Sprintf("%s: space %s address=%q binding_target=%q, reference %+v", path, sp.SpaceID, sp.Address, sp.BindingTarget, want), nil)
					}
				}
			}
		}
	}
	r.Set("gateway_real_requests", map[string]int{"served": served, "refused_403": refused, "not_possible_in_this_environment": skipped})
	if refused == 0 || served == 0 {
		r.Set("gateway_socket_part", fmt.Sprintf("partly exercised: served=%d refused=%d", served, refused))
	} else {
		r.Set("gateway_socket_part", "exercised")
	}
}
