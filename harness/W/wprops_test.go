//go:build go1.21

package keystore

// Property-specific alphabets and tails for the wallet harness:
// C02 (restart), C03 (passphrases / secrets in memory), C05 (signatures), C06 (plot keys, sequential part).

import (
	"encoding/hex"
	"fmt"
	"reflect"
	"testing"

	"github.com/massnetorg/mass-core/pocec"
	"github.com/massnetorg/mass-core/wire"
	"massnet.org/mass/zz_verif/vk"
)

func wParsePub(h string) *pocec.PublicKey {
	b, _ := hex.DecodeString(h)
	pk, err := pocec.ParsePubKey(b, pocec.S256())
	if err != nil {
		vk.Fatalf("parse pubkey %s: %v", h, err)
	}
	return pk
}

var wDigests = [][]byte{
	wire.HashB([]byte("digest-0")),
	wire.HashB([]byte("digest-1")),
}

// a key no wallet of the harness owns
var wForeignKey = "03da7e0c5c6ca123447d6106eabbe0db9bcd4ea1753b19b37e14113e5f709a7876"

// wSignAll: C05 oracle on the live instance. Returns "" or the first failure.
func wSignAll(c *wCtx, in *wInst, m *wModel, full bool) (clause, site, msg string) {
	type kk struct {
		seed, b int
		i    uint32
		pk   string
	}
	var keys []kk
	for seed, k := range m.Ks {
		for b := 0; b < 2; b++ {
			for i := uint32(0); i < k.Next[b]; i++ {
				keys = append(keys, kk{seed, b, i, c.obs.key(seed, b, i)})
			}
		}
	}
	for n, k := range keys {
		pk := wParsePub(k.pk)
		for di, d := range wDigests {
			if !full && di > 0 {
				break
			}
			sig, err := in.km.SignHash(pk, d)
			if !m.Unlocked {
				if err == nil {
					return "signed-while-locked", "SignHash", fmt.Sprintf("SignHash succeeded for seed%d %d/%d while the wallet is locked", k.seed, k.b, k.i)
				}
				continue
			}
			if err != nil {
				return "sign-refused", "SignHash", fmt.Sprintf("SignHash for issued key seed%d %d/%d failed while unlocked: %v", k.seed, k.b, k.i, err)
			}
			if !sig.Verify(d, pk) {
				return "bad-signature", "SignHash", fmt.Sprintf("signature for seed%d %d/%d does not verify under the requested key", k.seed, k.b, k.i)
			}
			other := keys[(n+1)%len(keys)]
			if other.pk != k.pk && sig.Verify(d, wParsePub(other.pk)) {
				return "bad-signature", "SignHash", "signature verifies under a different issued key"
			}
			if sig.Verify(wDigests[1-di], pk) {
				return "bad-signature", "SignHash", "signature verifies for a different digest"
			}
			if ok, err := in.km.VerifySig(sig, d, pk); err != nil || !ok {
				return "bad-signature", "VerifySig", fmt.Sprintf("VerifySig rejects the wallet's own signature: %v %v", ok, err)
			}
		}
		msgs := [][]byte{[]byte("m")}
		if full {
			msgs = append(msgs, []byte{})
		}
		for _, msg := range msgs {
			sig, err := in.km.SignMessage(pk, msg)
			if !m.Unlocked {
				if err == nil {
					return "signed-while-locked", "SignMessage", "SignMessage succeeded while locked"
				}
				continue
			}
			if err != nil {
				return "sign-refused", "SignMessage", fmt.Sprintf("SignMessage for issued key seed%d %d/%d failed while unlocked: %v", k.seed, k.b, k.i, err)
			}
			h := wire.HashH(msg)
			if !sig.Verify(h[:], pk) {
				return "bad-signature", "SignMessage", fmt.Sprintf("message signature for seed%d %d/%d does not verify under the requested key", k.seed, k.b, k.i)
			}
		}
		if full && m.Unlocked {
			for _, l := range []int{0, 31, 33} {
				if _, err := in.km.SignHash(pk, make([]byte, l)); err == nil {
					return "bad-digest-accepted", "SignHash", fmt.Sprintf("digest of %d bytes accepted", l)
				}
			}
		}
	}
	// keys the wallet does not own: a foreign key, keys of keystores not present
	notOwned := []string{wForeignKey}
	c.obs.mu.Lock()
	for pos, pk := range c.obs.keys {
		var seed, b int
		var i uint32
		fmt.Sscanf(pos, "%d/%d/%d", &seed, &b, &i)
		if k := m.Ks[seed]; k == nil || i >= k.Next[b] {
			notOwned = append(notOwned, pk)
		}
	}
	c.obs.mu.Unlock()
	for n, pk := range notOwned {
		if n > 6 && !full {
			break
		}
		if _, err := in.km.SignHash(wParsePub(pk), wDigests[0]); err == nil {
			return "signed-unowned-key", "SignHash", "SignHash succeeded for a key the wallet does not hold: " + pk
		}
		if _, err := in.km.SignMessage(wParsePub(pk), []byte("m")); err == nil {
			return "signed-unowned-key", "SignMessage", "SignMessage succeeded for a key the wallet does not hold: " + pk
		}
	}
	if _, err := in.km.SignHash(nil, wDigests[0]); err == nil {
		return "nil-key", "SignHash", "nil key accepted"
	}
	return "", "", ""
}

// wOrdinals: C06 lookup oracle.
func wOrdinals(c *wCtx, in *wInst, m *wModel) string {
	for seed, k := range m.Ks {
		for b := 0; b < 2; b++ {
			for i := uint32(0); i < k.Next[b]; i++ {
				pk := wParsePub(c.obs.key(seed, b, i))
				ord, ok := in.km.GetPublicKeyOrdinal(pk)
				if !ok || ord != i {
					return fmt.Sprintf("GetPublicKeyOrdinal(seed%d %d/%d) = %d,%v", seed, b, i, ord, ok)
				}
				addr, err := in.km.GetAddressByPubKey(pk)
				if err != nil || addr == "" {
					return fmt.Sprintf("GetAddressByPubKey(seed%d %d/%d): %v", seed, b, i, err)
				}
			}
		}
	}
	if _, ok := in.km.GetPublicKeyOrdinal(wParsePub(wForeignKey)); ok {
		return "GetPublicKeyOrdinal knows a foreign key"
	}
	return ""
}

// wRestartCheck: C02 oracle (destructive: restarts the instance).
func wRestartCheck(c *wCtx, in *wInst, m *wModel, hist []wOp) bool {
	site := wKindName[hist[len(hist)-1].K]
	before, _ := in.snapshot()
	if len(m.Ks) > 0 {
		raw := in.rawDump()
		for _, wp := range []int{wResolvePass(m, wWrongPub), wResolvePass(m, wCur), wBad} {
			if wp == m.Pub {
				continue
			}
			if err := in.restart(wp); err == nil {
				c.viol("wrong-public-passphrase-accepted", site, fmt.Sprintf("store opened with %q while the public passphrase is %q", wPass[wp], wPass[m.Pub]), hist)
				return false
			}
			if !reflect.DeepEqual(raw, in.rawDump()) {
				c.viol("store-altered-by-refused-open", site, "opening with a wrong public passphrase changed the store", hist)
				return false
			}
		}
	}
	if err := in.restart(m.Pub); err != nil {
		c.viol("reopen-failed", site, "reopening with the current public passphrase failed: "+err.Error(), hist)
		return false
	}
	after, e := in.snapshot()
	if e != "" {
		c.viol("snapshot-after-restart", site, e, hist)
		return false
	}
	if before.String() != after.String() {
		c.viol("restart-differs", site, fmt.Sprintf("state after restart differs: running {%s} reopened {%s}", before, after), hist)
		return false
	}
	if e := after.matchModel(m, c.obs); e != "" {
		c.viol("restart-differs-from-reference", site, e, hist)
		return false
	}
	if !in.km.IsLocked() {
		c.viol("unlocked-after-restart", site, "wallet is unlocked right after opening", hist)
		return false
	}
	if e := wOrdinals(c, in, m); e != "" {
		c.viol("ordinal-after-restart", site, e, hist)
		return false
	}
	// passphrase behaviour after restart
	if len(m.Ks) > 0 {
		for _, wp := range []int{wResolvePass(m, wWrong), wResolvePass(m, wPrevious), m.Pub, wBad, wOther} {
			if wp == m.Priv {
				continue
			}
			if err := in.km.Unlock([]byte(wPass[wp])); err == nil {
				c.viol("wrong-passphrase-unlocks-after-restart", site, fmt.Sprintf("Unlock(%q) succeeded after restart; current private passphrase is %q", wPass[wp], wPass[m.Priv]), hist)
				return false
			}
		}
		if err := in.km.Unlock([]byte(wPass[m.Priv])); err != nil {
			c.viol("current-passphrase-refused-after-restart", site, "Unlock with the current private passphrase failed after restart: "+err.Error(), hist)
			return false
		}
		mm := *m
		mm.Unlocked = true
		if cl, st, msg := wSignAll(c, in, &mm, false); msg != "" {
			c.viol(cl+"-after-restart", st, msg, hist)
			return false
		}
		in.km.Lock()
		// same next address on both branches
		for seed, k := range m.Ks {
			for b := 0; b < 2; b++ {
				mas, err := in.km.NextAddresses(c.obs.idOf(seed), b == 1, 1)
				if err != nil || len(mas) != 1 || mas[0].derivationPath.Index != k.Next[b] {
					c.viol("next-address-after-restart", site, fmt.Sprintf("NextAddresses after restart on seed%d branch %d: %v", seed, b, err), hist)
					return false
				}
				if e := c.obs.checkKey(seed, b, k.Next[b], wPub(mas[0].pubKey)); e != "" {
					c.viol("next-address-after-restart", site, e, hist)
					return false
				}
			}
		}
	}
	return true
}

func wBaseOps(seeds int, remarks bool) []wOp {
	var ops []wOp
	for s := 0; s < seeds; s++ {
		r := ""
		if s == 1 {
			r = "r1"
		}
		ops = append(ops, wOp{K: oNew, S: s, P: wCur, P2: -1, R: r})
	}
	for s := 0; s < seeds; s++ {
		ops = append(ops, wOp{K: oNext, S: s, N: 1, P2: -1})
		ops = append(ops, wOp{K: oNext, S: s, N: 2, Internal: true, P2: -1})
		ops = append(ops, wOp{K: oGen, S: s, P2: -1})
		if remarks {
			ops = append(ops, wOp{K: oRemark, S: s, R: "r2", P2: -1})
			ops = append(ops, wOp{K: oRemark, S: s, R: "", P2: -1})
		}
	}
	return ops
}

// ------------------------------------------------------------------ C02

func TestVerifC02(t *testing.T) {
	r := vk.Start("C02", "exploration")
	c := &wCtx{r: r, prop: "C02", obs: newWObs()}
	c.ops = wBaseOps(2, true)
	c.ops = append(c.ops,
		wOp{K: oUnlock, P: wCur, P2: -1}, wOp{K: oLock, P2: -1},
		wOp{K: oChPriv, P: wCur, P2: wWrong}, wOp{K: oChPub, P: wCurPub, P2: wWrongPub},
		wOp{K: oExport, S: 0, P: wCur, P2: -1, Slot: 0}, wOp{K: oDelete, S: 0, P: wCur, P2: -1},
		wOp{K: oImport, Slot: 0, P: wCur, P2: -1}, wOp{K: oImport, Slot: 0, P: wPrevious, P2: wCur},
		wOp{K: oRestart, P: wCurPub, P2: -1}, wOp{K: oRestart, P: wWrongPub, P2: -1},
	)
	c.tail = func(c *wCtx, in *wInst, m *wModel, hist []wOp, res wResult) bool {
		return wRestartCheck(c, in, m, hist)
	}
	wRunProp(c, vk.Pick(r, 5, 6),
		"BFS over wallet operation histories on the real manager+ldb store (canonical state = reference model + hidden-state fingerprint, replay per transition); in every reached state: refused open with wrong public passphrases leaves the raw store unchanged, reopen with the current one shows a snapshot (keystores, remarks, address sets with (branch,index,pubkey), next indices, ordinals) equal to the running instance and the reference, wrong/superseded/public/ill-formed private passphrases do not unlock, the current one does and every key signs, next addresses continue at the same index; distinct_nontrivial = distinct canonical states")
}

func wRunProp(c *wCtx, depth int, rule string) {
	r := c.r
	if p := r.ReplayPath(); p != "" {
		var rp wReplay
		vk.LoadReplay(p, &rp)
		c.ops = rp.Ops
		var hist []int
		for i := range rp.Ops {
			in, m, res, ok := c.run(hist, i)
			if in == nil {
				break
			}
			if ok && c.tail != nil {
				c.tail(c, in, m, rp.Ops[:i+1], res)
			}
			in.close()
			if !ok {
				break
			}
			hist = append(hist, i)
		}
		r.Finish("replay")
	}
	res := c.explore(depth)
	c.finishEvidence(res, depth)
	r.Sample(map[string]interface{}{"history": []string{c.ops[0].String(), c.ops[len(c.ops)/2].String(), c.ops[len(c.ops)-1].String()}, "note": "passphrase arguments are symbolic: -2 current private, -3 the other private candidate, -4 current public, -5 the other public candidate, -6 a superseded private passphrase"})
	r.Assume("scrypt N lowered to 16 (parameter is data, not logic)", "store = real ldb driver on goleveldb MemStorage", "seeds/passphrases/remarks from small fixed sets; keystores identified by seed index; expected ids and public keys are recorded at first observation and must be reproduced by every later observation")
	r.Finish(rule)
}

// ------------------------------------------------------------------ C05

func TestVerifC05(t *testing.T) {
	r := vk.Start("C05", "exploration")
	c := &wCtx{r: r, prop: "C05", obs: newWObs()}
	c.ops = wBaseOps(2, false)
	c.ops = append(c.ops,
		wOp{K: oUnlock, P: wCur, P2: -1}, wOp{K: oUnlock, P: wWrong, P2: -1}, wOp{K: oLock, P2: -1},
		wOp{K: oChPriv, P: wCur, P2: wWrong}, wOp{K: oChPub, P: wCurPub, P2: wWrongPub},
		wOp{K: oExport, S: 0, P: wCur, P2: -1, Slot: 0}, wOp{K: oDelete, S: 0, P: wCur, P2: -1},
		wOp{K: oImport, Slot: 0, P: wCur, P2: -1},
		wOp{K: oRestart, P: wCurPub, P2: -1},
	)
	var signed int64
	c.tail = func(c *wCtx, in *wInst, m *wModel, hist []wOp, res wResult) bool {
		if cl, st, msg := wSignAll(c, in, m, true); msg != "" {
			c.viol(cl, st, msg, hist)
			return false
		}
		if m.Unlocked {
			for _, k := range m.Ks {
				r.Add("signing_requests_verified", int64(k.Next[0]+k.Next[1])*4)
			}
			signed++
		}
		return true
	}
	wRunProp(c, vk.Pick(r, 6, 7),
		"BFS over wallet histories (create, address generation on both branches, plot-key issuance, lock/unlock, passphrase changes, export/delete/import, restart); in every reached state every key ever issued is asked to sign 2 digests and 2 messages: while unlocked the signature must verify under exactly that key and digest (not under another issued key, not for the other digest), bad digest lengths, unowned keys (foreign, deleted keystore) and every request while locked must fail; distinct_nontrivial = distinct canonical states")
}

// ------------------------------------------------------------------ C06 (sequential part)

func TestVerifC06(t *testing.T) {
	r := vk.Start("C06", "exploration")
	c := &wCtx{r: r, prop: "C06", obs: newWObs()}
	for s := 0; s < 3; s++ {
		c.ops = append(c.ops, wOp{K: oNew, S: s, P: wCur, P2: -1})
		c.ops = append(c.ops, wOp{K: oGen, S: s, P2: -1})
	}
	c.ops = append(c.ops,
		wOp{K: oNext, S: 0, N: 1, P2: -1}, wOp{K: oNext, S: 0, N: 2, P2: -1}, wOp{K: oNext, S: 0, N: 1, Internal: true, P2: -1},
		wOp{K: oUnlock, P: wCur, P2: -1}, wOp{K: oLock, P2: -1},
		wOp{K: oExport, S: 0, P: wCur, P2: -1, Slot: 0}, wOp{K: oDelete, S: 0, P: wCur, P2: -1},
		wOp{K: oImport, Slot: 0, P: wCur, P2: -1},
		wOp{K: oRestart, P: wCurPub, P2: -1},
	)
	c.tail = func(c *wCtx, in *wInst, m *wModel, hist []wOp, res wResult) bool {
		site := wKindName[hist[len(hist)-1].K]
		if e := wOrdinals(c, in, m); e != "" {
			c.viol("ordinal-lookup", site, e, hist)
			return false
		}
		// after a restart the same ordinals, and issuance continues without gap or reuse
		if err := in.restart(m.Pub); err != nil {
			c.viol("reopen-failed", site, err.Error(), hist)
			return false
		}
		if e := wOrdinals(c, in, m); e != "" {
			c.viol("ordinal-lookup-after-restart", site, e, hist)
			return false
		}
		if len(m.Ks) > 0 {
			pk, idx, err := in.km.GenerateNewPublicKey()
			if err != nil {
				c.viol("genkey-after-restart", site, err.Error(), hist)
				return false
			}
			_, addr, _ := newPoCAddress(pk, in.km.params)
			seed := -1
			for id, am := range in.km.managedKeystores {
				if _, ok := am.addrs[addr.EncodeAddress()]; ok {
					seed = c.obs.seedOf(id)
				}
			}
			if seed < 0 || m.Ks[seed] == nil || idx != m.Ks[seed].Next[0] {
				c.viol("ordinal-after-restart", site, fmt.Sprintf("GenKey after restart returned ordinal %d for keystore seed%d; reference next ordinal differs", idx, seed), hist)
				return false
			}
			if e := c.obs.checkKey(seed, 0, idx, wPub(pk)); e != "" {
				c.viol("key-reuse-after-restart", site, e, hist)
				return false
			}
			if o, ok := in.km.GetPublicKeyOrdinal(pk); !ok || o != idx {
				c.viol("ordinal-lookup-after-restart", site, "fresh key not resolvable", hist)
				return false
			}
		}
		return true
	}
	wRunProp(c, vk.Pick(r, 6, 7),
		"BFS over wallet histories with 1-3 keystores mixing GenerateNewPublicKey (map-order nondeterminism resolved by treating the observed keystore as part of the operation) with NextAddresses, lock changes, export/delete/import and restart; after every operation: the returned ordinal equals the owning keystore's next external index (consecutive, no gaps), the key was never observed at another position, GetPublicKeyOrdinal returns the same ordinal for every issued key now and after a restart, and issuance after the restart continues at the next ordinal; distinct_nontrivial = distinct canonical states. The concurrent part of C06 is decided by the C14 harness.")
}
