//go:build go1.21

package keystore

// Property-specific alphabets and tails for the wallet harness:
// C02 (restart), C03 (passphrases / secrets in memory), C05 (signatures), C06 (plot keys, sequential part).

import (
	"encoding/hex"
	"encoding/json"
	"fmt"
	"massnet.org/mass/zz_verif/faultdb"
	"reflect"
	"sync/atomic"
	"testing"

	"github.com/massnetorg/mass-core/pocec"
	"github.com/massnetorg/mass-core/wire"
	"massnet.org/mass/zz_verif/vk"
)

func wParsePub(h string) *pocec.PublicKey {
	b, _ := hex.DecodeString(h)
	pk, err := pocec.ParsePubKey(b, pocec.S256())
	if err != nil {
		vk.Fatalf("parse pubkey %s: %v", h, err)
	}
	return pk
}

var wDigests = [][]byte{
	wire.HashB([]byte("digest-0")),
	wire.HashB([]byte("digest-1")),
}

// a key no wallet of the harness owns
var wForeignKey = "03da7e0c5c6ca123447d6106eabbe0db9bcd4ea1753b19b37e14113e5f709a7876"

// wSignAll: C05 oracle on the live instance. Returns "" or the first failure.
func wSignAll(c *wCtx, in *wInst, m *wModel, full bool) (clause, site, msg string) {
	type kk struct {
		seed, b int
		i       uint32
		pk      string
	}
	var keys []kk
	for seed, k := range m.Ks {
		for b := 0; b < 2; b++ {
			for i := uint32(0); i < k.Next[b]; i++ {
				keys = append(keys, kk{seed, b, i, c.obs.key(seed, b, i)})
			}
		}
	}
	for n, k := range keys {
		pk := wParsePub(k.pk)
		for di, d := range wDigests {
			if !full && di > 0 {
				break
			}
			sig, err := in.km.SignHash(pk, d)
			if !m.Unlocked {
				if err == nil {
					return "signed-while-locked", "SignHash", fmt.Sprintf("SignHash succeeded for seed%d %d/%d while the wallet is locked", k.seed, k.b, k.i)
				}
				continue
			}
			if err != nil {
				return "sign-refused", "SignHash", fmt.Sprintf("SignHash for issued key seed%d %d/%d failed while unlocked: %v", k.seed, k.b, k.i, err)
			}
			if !sig.Verify(d, pk) {
				return "bad-signature", "SignHash", fmt.Sprintf("signature for seed%d %d/%d does not verify under the requested key", k.seed, k.b, k.i)
			}
			other := keys[(n+1)%len(keys)]
			if other.pk != k.pk && sig.Verify(d, wParsePub(other.pk)) {
				return "bad-signature", "SignHash", "signature verifies under a different issued key"
			}
			if sig.Verify(wDigests[1-di], pk) {
				return "bad-signature", "SignHash", "signature verifies for a different digest"
			}
			if ok, err := in.km.VerifySig(sig, d, pk); err != nil || !ok {
				return "bad-signature", "VerifySig", fmt.Sprintf("VerifySig rejects the wallet's own signature: %v %v", ok, err)
			}
		}
		msgs := [][]byte{[]byte("m")}
		if full {
			msgs = append(msgs, []byte{})
		}
		for _, msg := range msgs {
			sig, err := in.km.SignMessage(pk, msg)
			if !m.Unlocked {
				if err == nil {
					return "signed-while-locked", "SignMessage", "SignMessage succeeded while locked"
				}
				continue
			}
			if err != nil {
				return "sign-refused", "SignMessage", fmt.Sprintf("SignMessage for issued key seed%d %d/%d failed while unlocked: %v", k.seed, k.b, k.i, err)
			}
			h := wire.HashH(msg)
			if !sig.Verify(h[:], pk) {
				return "bad-signature", "SignMessage", fmt.Sprintf("message signature for seed%d %d/%d does not verify under the requested key", k.seed, k.b, k.i)
			}
		}
		if full && m.Unlocked {
			for _, l := range []int{0, 31, 33} {
				if _, err := in.km.SignHash(pk, make([]byte, l)); err == nil {
					return "bad-digest-accepted", "SignHash", fmt.Sprintf("digest of %d bytes accepted", l)
				}
			}
		}
	}
	// keys the wallet does not own: a foreign key, keys of keystores not present
	notOwned := []string{wForeignKey}
	c.obs.mu.Lock()
	for pos, pk := range c.obs.keys {
		var seed, b int
		var i uint32
		fmt.Sscanf(pos, "%d/%d/%d", &seed, &b, &i)
		if k := m.Ks[seed]; k == nil || i >= k.Next[b] {
			notOwned = append(notOwned, pk)
		}
	}
	c.obs.mu.Unlock()
	for n, pk := range notOwned {
		if n > 6 && !full {
			break
		}
		if _, err := in.km.SignHash(wParsePub(pk), wDigests[0]); err == nil {
			return "signed-unowned-key", "SignHash", "SignHash succeeded for a key the wallet does not hold: " + pk
		}
		if _, err := in.km.SignMessage(wParsePub(pk), []byte("m")); err == nil {
			return "signed-unowned-key", "SignMessage", "SignMessage succeeded for a key the wallet does not hold: " + pk
		}
	}
	if _, err := in.km.SignHash(nil, wDigests[0]); err == nil {
		return "nil-key", "SignHash", "nil key accepted"
	}
	return "", "", ""
}

// wOrdinals: C06 lookup oracle.
func wOrdinals(c *wCtx, in *wInst, m *wModel) string {
	for seed, k := range m.Ks {
		for b := 0; b < 2; b++ {
			for i := uint32(0); i < k.Next[b]; i++ {
				pk := wParsePub(c.obs.key(seed, b, i))
				ord, ok := in.km.GetPublicKeyOrdinal(pk)
				if !ok || ord != i {
					return fmt.Sprintf("GetPublicKeyOrdinal(seed%d %d/%d) = %d,%v", seed, b, i, ord, ok)
				}
				addr, err := in.km.GetAddressByPubKey(pk)
				if err != nil || addr == "" {
					return fmt.Sprintf("GetAddressByPubKey(seed%d %d/%d): %v", seed, b, i, err)
				}
			}
		}
	}
	if _, ok := in.km.GetPublicKeyOrdinal(wParsePub(wForeignKey)); ok {
		return "GetPublicKeyOrdinal knows a foreign key"
	}
	return ""
}

// wRestartCheck: C02 oracle (destructive: restarts the instance).
func wRestartCheck(c *wCtx, in *wInst, m *wModel, hist []wOp) bool {
	site := wKindName[hist[len(hist)-1].K]
	before, _ := in.snapshot()
	if len(m.Ks) > 0 {
		raw := in.rawDump()
		for _, wp := range []int{wResolvePass(m, wWrongPub), wResolvePass(m, wCur), wBad} {
			if wp == m.Pub {
				continue
			}
			if err := in.restart(wp); err == nil {
				c.viol("wrong-public-passphrase-accepted", site, fmt.Sprintf("store opened with %q while the public passphrase is %q", wPass[wp], wPass[m.Pub]), hist)
				return false
			}
			if !reflect.DeepEqual(raw, in.rawDump()) {
				c.viol("store-altered-by-refused-open", site, "opening with a wrong public passphrase changed the store", hist)
				return false
			}
		}
	}
	if err := in.restart(m.Pub); err != nil {
		c.viol("reopen-failed", site, "reopening with the current public passphrase failed: "+err.Error(), hist)
		return false
	}
	after, e := in.snapshot()
	if e != "" {
		c.viol("snapshot-after-restart", site, e, hist)
		return false
	}
	if before.String() != after.String() {
		c.viol("restart-differs", site, fmt.Sprintf("state after restart differs: running {%s} reopened {%s}", before, after), hist)
		return false
	}
	if e := after.matchModel(m, c.obs); e != "" {
		c.viol("restart-differs-from-reference", site, e, hist)
		return false
	}
	if !in.km.IsLocked() {
		c.viol("unlocked-after-restart", site, "wallet is unlocked right after opening", hist)
		return false
	}
	if e := wOrdinals(c, in, m); e != "" {
		c.viol("ordinal-after-restart", site, e, hist)
		return false
	}
	// passphrase behaviour after restart
	if len(m.Ks) > 0 {
		for _, wp := range []int{wResolvePass(m, wWrong), wResolvePass(m, wPrevious), m.Pub, wBad, wOther} {
			if wp == m.Priv {
				continue
			}
			if err := in.km.Unlock([]byte(wPass[wp])); err == nil {
				c.viol("wrong-passphrase-unlocks-after-restart", site, fmt.Sprintf("Unlock(%q) succeeded after restart; current private passphrase is %q", wPass[wp], wPass[m.Priv]), hist)
				return false
			}
		}
		if err := in.km.Unlock([]byte(wPass[m.Priv])); err != nil {
			c.viol("current-passphrase-refused-after-restart", site, "Unlock with the current private passphrase failed after restart: "+err.Error(), hist)
			return false
		}
		mm := *m
		mm.Unlocked = true
		if cl, st, msg := wSignAll(c, in, &mm, false); msg != "" {
			c.viol(cl+"-after-restart", st, msg, hist)
			return false
		}
		in.km.Lock()
		// same next address on both branches
		for seed, k := range m.Ks {
			for b := 0; b < 2; b++ {
				mas, err := in.km.NextAddresses(c.obs.idOf(seed), b == 1, 1)
				if err != nil || len(mas) != 1 || mas[0].derivationPath.Index != k.Next[b] {
					c.viol("next-address-after-restart", site, fmt.Sprintf("NextAddresses after restart on seed%d branch %d: %v", seed, b, err), hist)
					return false
				}
				if e := c.obs.checkKey(seed, b, k.Next[b], wPub(mas[0].pubKey)); e != "" {
					c.viol("next-address-after-restart", site, e, hist)
					return false
				}
			}
		}
	}
	return true
}

func wBaseOps(seeds int, remarks bool) []wOp {
	var ops []wOp
	for s := 0; s < seeds; s++ {
		r := ""
		if s == 1 {
			r = "r1"
		}
		ops = append(ops, wOp{K: oNew, S: s, P: wCur, P2: -1, R: r})
	}
	for s := 0; s < seeds; s++ {
		ops = append(ops, wOp{K: oNext, S: s, N: 1, P2: -1})
		ops = append(ops, wOp{K: oNext, S: s, N: 2, Internal: true, P2: -1})
		ops = append(ops, wOp{K: oGen, S: s, P2: -1})
		if remarks {
			ops = append(ops, wOp{K: oRemark, S: s, R: "r2", P2: -1})
			ops = append(ops, wOp{K: oRemark, S: s, R: "", P2: -1})
		}
	}
	return ops
}

// ------------------------------------------------------------------ C02

func TestVerifC02(t *testing.T) {
	r := vk.Start("C02", "exploration")
	c := &wCtx{r: r, prop: "C02", obs: newWObs()}
	c.ops = wBaseOps(2, true)
	c.ops = append(c.ops,
		wOp{K: oUnlock, P: wCur, P2: -1}, wOp{K: oLock, P2: -1},
		wOp{K: oChPriv, P: wCur, P2: wWrong}, wOp{K: oChPub, P: wCurPub, P2: wWrongPub},
		wOp{K: oExport, S: 0, P: wCur, P2: -1, Slot: 0}, wOp{K: oDelete, S: 0, P: wCur, P2: -1},
		wOp{K: oImport, Slot: 0, P: wCur, P2: -1}, wOp{K: oImport, Slot: 0, P: wPrevious, P2: wCur},
		wOp{K: oRestart, P: wCurPub, P2: -1}, wOp{K: oRestart, P: wWrongPub, P2: -1},
	)
	c.tail = func(c *wCtx, in *wInst, m *wModel, hist []wOp, res wResult) bool {
		return wRestartCheck(c, in, m, hist)
	}
	wRunProp(c, vk.Pick(r, 5, 6),
		"BFS over wallet operation histories on the real manager+ldb store (canonical state = reference model + hidden-state fingerprint, replay per transition); in every reached state: refused open with wrong public passphrases leaves the raw store unchanged, reopen with the current one shows a snapshot (keystores, remarks, address sets with (branch,index,pubkey), next indices, ordinals) equal to the running instance and the reference, wrong/superseded/public/ill-formed private passphrases do not unlock, the current one does and every key signs, next addresses continue at the same index; distinct_nontrivial = distinct canonical states")
}

func wRunProp(c *wCtx, depth int, rule string) { wRunPropX(c, depth, nil, rule) }

func wRunPropX(c *wCtx, depth int, extra func(), rule string) {
	r := c.r
	if p := r.ReplayPath(); p != "" {
		var rp wReplay
		vk.LoadReplay(p, &rp)
		c.ops = rp.Ops
		var hist []int
		for i := range rp.Ops {
			in, m, res, ok := c.run(hist, i)
			if in == nil {
				break
			}
			if ok && c.tail != nil {
				c.tail(c, in, m, rp.Ops[:i+1], res)
			}
			in.close()
			if !ok {
				break
			}
			hist = append(hist, i)
		}
		r.Finish("replay")
	}
	res := c.explore(depth)
	c.finishEvidence(res, depth)
	if extra != nil {
		extra()
	}
	r.Sample(map[string]interface{}{"history": []string{c.ops[0].String(), c.ops[len(c.ops)/2].String(), c.ops[len(c.ops)-1].String()}, "note": "passphrase arguments are symbolic: -2 current private, -3 the other private candidate, -4 current public, -5 the other public candidate, -6 a superseded private passphrase"})
	r.Assume("scrypt N lowered to 16 (parameter is data, not logic)", "store = real ldb driver on goleveldb MemStorage", "seeds/passphrases/remarks from small fixed sets; keystores identified by seed index; expected ids and public keys are recorded at first observation and must be reproduced by every later observation")
	r.Finish(rule)
}

// ------------------------------------------------------------------ C05

func TestVerifC05(t *testing.T) {
	r := vk.Start("C05", "exploration")
	c := &wCtx{r: r, prop: "C05", obs: newWObs()}
	c.ops = wBaseOps(2, false)
	c.ops = append(c.ops,
		wOp{K: oUnlock, P: wCur, P2: -1}, wOp{K: oUnlock, P: wWrong, P2: -1}, wOp{K: oLock, P2: -1},
		wOp{K: oChPriv, P: wCur, P2: wWrong}, wOp{K: oChPub, P: wCurPub, P2: wWrongPub},
		wOp{K: oExport, S: 0, P: wCur, P2: -1, Slot: 0}, wOp{K: oDelete, S: 0, P: wCur, P2: -1},
		wOp{K: oImport, Slot: 0, P: wCur, P2: -1},
		wOp{K: oRestart, P: wCurPub, P2: -1},
	)
	var signed int64
	c.tail = func(c *wCtx, in *wInst, m *wModel, hist []wOp, res wResult) bool {
		if cl, st, msg := wSignAll(c, in, m, true); msg != "" {
			c.viol(cl, st, msg, hist)
			return false
		}
		if m.Unlocked {
			for _, k := range m.Ks {
				r.Add("signing_requests_verified", int64(k.Next[0]+k.Next[1])*4)
			}
			signed++
		}
		return true
	}
	wRunProp(c, vk.Pick(r, 6, 7),
		"BFS over wallet histories (create, address generation on both branches, plot-key issuance, lock/unlock, passphrase changes, export/delete/import, restart); in every reached state every key ever issued is asked to sign 2 digests and 2 messages: while unlocked the signature must verify under exactly that key and digest (not under another issued key, not for the other digest), bad digest lengths, unowned keys (foreign, deleted keystore) and every request while locked must fail; distinct_nontrivial = distinct canonical states")
}

// ------------------------------------------------------------------ C06 (sequential part)

func TestVerifC06(t *testing.T) {
	r := vk.Start("C06", "exploration")
	c := &wCtx{r: r, prop: "C06", obs: newWObs()}
	for s := 0; s < 3; s++ {
		c.ops = append(c.ops, wOp{K: oNew, S: s, P: wCur, P2: -1})
		c.ops = append(c.ops, wOp{K: oGen, S: s, P2: -1})
	}
	c.ops = append(c.ops,
		wOp{K: oNext, S: 0, N: 1, P2: -1}, wOp{K: oNext, S: 0, N: 2, P2: -1}, wOp{K: oNext, S: 0, N: 1, Internal: true, P2: -1},
		wOp{K: oUnlock, P: wCur, P2: -1}, wOp{K: oLock, P2: -1},
		wOp{K: oExport, S: 0, P: wCur, P2: -1, Slot: 0}, wOp{K: oDelete, S: 0, P: wCur, P2: -1},
		wOp{K: oImport, Slot: 0, P: wCur, P2: -1},
		wOp{K: oRestart, P: wCurPub, P2: -1},
	)
	c.tail = func(c *wCtx, in *wInst, m *wModel, hist []wOp, res wResult) bool {
		site := wKindName[hist[len(hist)-1].K]
		if e := wOrdinals(c, in, m); e != "" {
			c.viol("ordinal-lookup", site, e, hist)
			return false
		}
		// after a restart the same ordinals, and issuance continues without gap or reuse
		if err := in.restart(m.Pub); err != nil {
			c.viol("reopen-failed", site, err.Error(), hist)
			return false
		}
		if e := wOrdinals(c, in, m); e != "" {
			c.viol("ordinal-lookup-after-restart", site, e, hist)
			return false
		}
		if len(m.Ks) > 0 {
			pk, idx, err := in.km.GenerateNewPublicKey()
			if err != nil {
				c.viol("genkey-after-restart", site, err.Error(), hist)
				return false
			}
			_, addr, _ := newPoCAddress(pk, in.km.params)
			seed := -1
			for id, am := range in.km.managedKeystores {
				if _, ok := am.addrs[addr.EncodeAddress()]; ok {
					seed = c.obs.seedOf(id)
				}
			}
			if seed < 0 || m.Ks[seed] == nil || idx != m.Ks[seed].Next[0] {
				c.viol("ordinal-after-restart", site, fmt.Sprintf("GenKey after restart returned ordinal %d for keystore seed%d; reference next ordinal differs", idx, seed), hist)
				return false
			}
			if e := c.obs.checkKey(seed, 0, idx, wPub(pk)); e != "" {
				c.viol("key-reuse-after-restart", site, e, hist)
				return false
			}
			if o, ok := in.km.GetPublicKeyOrdinal(pk); !ok || o != idx {
				c.viol("ordinal-lookup-after-restart", site, "fresh key not resolvable", hist)
				return false
			}
		}
		return true
	}
	wRunProp(c, vk.Pick(r, 6, 7),
		"BFS over wallet histories with 1-3 keystores mixing GenerateNewPublicKey (map-order nondeterminism resolved by treating the observed keystore as part of the operation) with NextAddresses, lock changes, export/delete/import and restart; after every operation: the returned ordinal equals the owning keystore's next external index (consecutive, no gaps), the key was never observed at another position, GetPublicKeyOrdinal returns the same ordinal for every issued key now and after a restart, and issuance after the restart continues at the next ordinal; distinct_nontrivial = distinct canonical states. The concurrent part of C06 is decided by the C14 harness.")
}

// ------------------------------------------------------------------ C03

// wLockedClean: while the reference says locked, no keystore may be unlocked,
// nothing may sign and no *working* secret may be in memory.
func wLockedClean(c *wCtx, in *wInst, m *wModel, hist []wOp, when string) bool {
	if m.Unlocked {
		return true
	}
	if !in.km.IsLocked() {
		c.viol("unlocked-without-passphrase", when, "wallet reports unlocked while the reference is locked", hist)
		return false
	}
	for _, am := range in.km.managedKeystores {
		if am.unlocked {
			c.viol("partial-unlock", when, "a keystore is unlocked while the wallet is locked", hist)
			return false
		}
	}
	c.mu.Lock()
	c.lockedScans++
	c.mu.Unlock()
	for _, s := range in.secretScan(m) {
		if s.Working {
			c.viol("secret-in-memory-while-locked", s.Field+"@"+when, fmt.Sprintf("while locked, %s holds a working secret", s.Field), hist)
			return false
		}
		c.r.Add("diagnostic_nonworking_residue_"+s.Field, 1)
	}
	return true
}

func wAllUnlocked(in *wInst) bool {
	for _, am := range in.km.managedKeystores {
		if !am.unlocked {
			return false
		}
	}
	return !in.km.IsLocked()
}

func TestVerifC03(t *testing.T) {
	r := vk.Start("C03", "exploration")
	c := &wCtx{r: r, prop: "C03", obs: newWObs()}
	c.ops = []wOp{
		{K: oNew, S: 0, P: wCur, P2: -1}, {K: oNew, S: 1, P: wCur, P2: -1}, {K: oNew, S: 1, P: wWrong, P2: -1}, {K: oNew, S: 2, P: wBad, P2: -1},
		{K: oNext, S: 0, N: 1, P2: -1}, {K: oNext, S: 1, N: 1, Internal: true, P2: -1},
		{K: oUnlock, P: wCur, P2: -1}, {K: oUnlock, P: wWrong, P2: -1}, {K: oUnlock, P: wPrevious, P2: -1}, {K: oLock, P2: -1},
		{K: oChPriv, P: wCur, P2: wWrong}, {K: oChPriv, P: wWrong, P2: wCur}, {K: oChPriv, P: wCur, P2: wCurPub},
		{K: oChPub, P: wCurPub, P2: wWrongPub}, {K: oChPub, P: wCurPub, P2: wCur},
		{K: oExport, S: 0, P: wCur, P2: -1, Slot: 0}, {K: oExport, S: 0, P: wWrong, P2: -1, Slot: 0},
		{K: oDelete, S: 0, P: wCur, P2: -1}, {K: oDelete, S: 0, P: wWrong, P2: -1},
		{K: oImport, Slot: 0, P: wCur, P2: -1}, {K: oImport, Slot: 0, P: wPrevious, P2: wCur}, {K: oImport, Slot: 0, P: wCur, P2: wWrong}, {K: oImport, Slot: 0, P: wPrevious, P2: -1},
		{K: oRestart, P: wCurPub, P2: -1},
	}
	var probes, faultedRekeys int64
	c.tail = func(c *wCtx, in *wInst, m *wModel, hist []wOp, res wResult) bool {
		last := wKindName[hist[len(hist)-1].K]
		if !wLockedClean(c, in, m, hist, last) {
			return false
		}
		if m.Unlocked && len(m.Ks) > 0 && !wAllUnlocked(in) {
			c.viol("partial-unlock", last, "wallet is unlocked but a keystore is not", hist)
			return false
		}
		if cl, st, msg := wSignAll(c, in, m, false); msg != "" {
			c.viol(cl, st, msg, hist)
			return false
		}
		// --- probes with every wrong passphrase class; each must be refused and change nothing
		wrongs := []int{wResolvePass(m, wWrong), wResolvePass(m, wPrevious), m.Pub, wBad, wOther}
		pass := func(i int) []byte { return []byte(wPass[i]) }
		for _, wp := range wrongs {
			if len(m.Ks) == 0 {
				break
			}
			if wp == m.Priv {
				continue
			}
			probe := func(name string, ok bool) bool {
				probes++
				if ok {
					c.viol("wrong-passphrase-accepted", name, fmt.Sprintf("%s succeeded with %q; current private passphrase is %q", name, wPass[wp], wPass[m.Priv]), hist)
					return false
				}
				return wLockedClean(c, in, m, hist, name+"-refused")
			}
			if !m.Unlocked {
				if !probe("Unlock", in.km.Unlock(pass(wp)) == nil) {
					return false
				}
			}
			for seed := range m.Ks {
				id := c.obs.idOf(seed)
				_, err := in.km.ExportKeystore(id, pass(wp))
				if !probe("Export", err == nil) {
					return false
				}
				ok, err := in.km.DeleteKeystore(id, pass(wp))
				if !probe("Delete", err == nil && ok) {
					return false
				}
			}
			for _, np := range []int{wOther, wResolvePass(m, wWrong)} {
				if np == wp {
					continue
				}
				if !probe("ChangePriv", in.km.ChangePrivPassphrase(pass(wp), pass(np), wFast) == nil) {
					return false
				}
			}
			if f := m.Files[0]; f != nil && wp != f.Pass && m.Ks[f.Seed] == nil {
				_, _, err := in.km.ImportKeystore(f.data, pass(wp), pass(m.Priv))
				if !probe("Import", err == nil) {
					return false
				}
			}
			// importing a keystore that is encrypted under another passphrase WITHOUT re-encrypting it
			// (no new passphrase) into a non-empty wallet would leave two governing passphrases
			if f := m.Files[0]; f != nil && wp == f.Pass && m.Ks[f.Seed] == nil {
				_, _, err := in.km.ImportKeystore(f.data, pass(wp), nil)
				if !probe("Import-keeping-foreign-passphrase", err == nil) {
					return false
				}
			}
			// a new keystore under a different private passphrase is refused
			if wWellFormed(wp) && wp != m.Pub {
				_, err := in.km.NewKeystore(pass(wp), wSeed(7), "", in.km.params, wFast)
				if !probe("New", err == nil) {
					return false
				}
			}
		}
		snap, e := in.snapshot()
		if e != "" || snap.matchModel(m, c.obs) != "" {
			c.viol("refused-operation-changed-state", last, "state differs from the reference after refused operations: "+e+snap.matchModel(m, c.obs), hist)
			return false
		}
		if len(m.Ks) == 0 {
			return true
		}
		// --- the current passphrase: guarded operations work, and leave a locked wallet clean
		for seed := range m.Ks {
			if _, err := in.km.ExportKeystore(c.obs.idOf(seed), pass(m.Priv)); err != nil {
				c.viol("current-passphrase-refused", "Export", err.Error(), hist)
				return false
			}
			if !wLockedClean(c, in, m, hist, "Export") {
				return false
			}
		}
		oldp, newp := m.Priv, wOther
		if err := in.km.ChangePrivPassphrase(pass(oldp), pass(newp), wFast); err != nil {
			c.viol("current-passphrase-refused", "ChangePriv", err.Error(), hist)
			return false
		}
		mm := *m
		mm.Priv = newp
		if !wLockedClean(c, in, &mm, hist, "ChangePriv") {
			return false
		}
		// restart: the superseded passphrase stays dead, the new one unlocks everything or nothing
		if err := in.restart(m.Pub); err != nil {
			c.viol("reopen-failed", last, err.Error(), hist)
			return false
		}
		mm.Unlocked = false
		if in.km.Unlock(pass(oldp)) == nil {
			c.viol("superseded-passphrase-unlocks", "Unlock-after-restart", "the superseded private passphrase unlocks after restart", hist)
			return false
		}
		if !wLockedClean(c, in, &mm, hist, "Unlock-refused-after-restart") {
			return false
		}
		if err := in.km.Unlock(pass(newp)); err != nil {
			c.viol("current-passphrase-refused", "Unlock-after-restart", err.Error(), hist)
			return false
		}
		if !wAllUnlocked(in) {
			c.viol("partial-unlock", "Unlock-after-restart", "not every keystore is unlocked after a successful Unlock", hist)
			return false
		}
		in.km.Lock()
		if !wLockedClean(c, in, &mm, hist, "Lock") {
			return false
		}
		if cl, st, msg := wSignAll(c, in, &mm, false); msg != "" {
			c.viol(cl, st, msg, hist)
			return false
		}
		return c03FaultedRekey(c, hist, res, &faultedRekeys)
	}
	depth := vk.Pick(r, 5, 6)
	r.Set("probe_classes", []string{"other private candidate", "superseded private passphrase", "public passphrase", "ill-formed", "never-used well-formed"})
	wRunPropWith(c, depth, func() {
		r.Set("guarded_operation_probes_with_wrong_passphrase", probes)
		r.Set("locked_state_secret_scans", c.lockedScans)
		r.Set("rekey_operations_repeated_under_each_storage_failure", atomic.LoadInt64(&faultedRekeys))
	},
		"BFS over wallet histories with guarded operations called with current, wrong, superseded, public and ill-formed passphrases; after every operation: success iff the reference says the passphrase is the current private one; while the reference is locked no keystore is unlocked, nothing signs and the in-package scan finds no working secret (master key that decrypts the crypto key, crypto key that decrypts the account key, private scalars, hash of the current passphrase) - non-working residue is counted as diagnostic only; in every state Unlock/Export/Delete/ChangePriv/Import/New are probed with 5 wrong-passphrase classes and must be refused without effect, then Export and ChangePriv with the current one must work and leave a locked wallet clean, and after a restart the superseded passphrase is dead and the new one unlocks all keystores; distinct_nontrivial = distinct canonical states")
}

func wRunPropWith(c *wCtx, depth int, extra func(), rule string) { wRunPropX(c, depth, extra, rule) }

// c03FaultedRekey: "one private passphrase governs all keystores at all times" must also hold when a change of
// the private passphrase is cut short by a failing storage operation. When the history just ended with a
// successful ChangePrivPassphrase on a wallet with two or more keystores, that operation is repeated (on fresh
// instances built by replaying the prefix) once per storage event of the operation with that event failing; whatever
// the operation then reports, afterwards - in the running instance and after a restart - exactly one of the two
// passphrases unlocks, it unlocks every keystore, every keystore exports under it and none under the other.
func c03FaultedRekey(c *wCtx, hist []wOp, res wResult, counter *int64) bool {
	op := hist[len(hist)-1]
	prefix := hist[:len(hist)-1]
	if op.K != oChPriv || !res.ok {
		return true
	}
	before := wModelOf(prefix)
	if len(before.Ks) < 2 {
		return true
	}
	opR := wResolve(before, op)
	oldp, newp := before.Priv, opR.P2
	in, m, ok := c.build(prefix)
	if !ok {
		return true
	}
	in.fdb.Arm(0, faultdb.None)
	c.step(in, m, op, hist, false)
	events := in.fdb.Events()
	in.close()
	for _, ev := range events {
		in, _, ok := c.build(prefix)
		if !ok {
			continue
		}
		in.fdb.Arm(ev.N, faultdb.FailWrite)
		r2 := in.apply(opR, c.obs)
		if !in.fdb.Fired() {
			in.close()
			continue
		}
		in.fdb.Disarm()
		atomic.AddInt64(counter, 1)
		site := "ChangePriv:failWrite@" + ev.Op
		fail := func(msg string) bool {
			c.r.Violation("C03/passphrases-split-after-failed-rekey/"+site, fmt.Sprintf("storage failure at event %d (%s) of %s (reported ok=%v): %s; history %v", ev.N, ev.Op, op, r2.ok, msg, c.rp(hist, "").Text),
				map[string]interface{}{"ops": hist, "event": ev.N, "event_op": ev.Op})
			in.close()
			return false
		}
		for _, phase := range []string{"running instance", "after restart"} {
			if phase == "after restart" {
				if err := in.restart(before.Pub); err != nil {
					return fail("wallet does not open after restart: " + err.Error())
				}
			} else {
				in.km.Lock()
			}
			var governs []int
			for _, pw := range []int{oldp, newp} {
				if in.km.Unlock([]byte(wPass[pw])) == nil {
					governs = append(governs, pw)
					if !wAllUnlocked(in) {
						return fail(fmt.Sprintf("%s: Unlock(%q) succeeded but not every keystore is unlocked", phase, wPass[pw]))
					}
					in.km.Lock()
				}
			}
			if len(governs) != 1 {
				return fail(fmt.Sprintf("%s: %d of the two passphrases (old %q, new %q) unlock the wallet", phase, len(governs), wPass[oldp], wPass[newp]))
			}
			other := oldp + newp - governs[0]
			for seed := range before.Ks {
				id := c.obs.idOf(seed)
				if _, err := in.km.ExportKeystore(id, []byte(wPass[governs[0]])); err != nil {
					return fail(fmt.Sprintf("%s: keystore of seed %d does not export under the governing passphrase %q: %v", phase, seed, wPass[governs[0]], err))
				}
				if _, err := in.km.ExportKeystore(id, []byte(wPass[other])); err == nil {
					return fail(fmt.Sprintf("%s: keystore of seed %d exports under %q although %q governs the wallet", phase, seed, wPass[other], wPass[governs[0]]))
				}
			}
		}
		in.close()
	}
	return true
}

// ------------------------------------------------------------------ C01

func wKsEqual(a, b *wSnapKs) string {
	if a == nil || b == nil {
		return "keystore missing"
	}
	if a.Remark != b.Remark {
		return fmt.Sprintf("remark %q vs %q", a.Remark, b.Remark)
	}
	if a.Next != b.Next {
		return fmt.Sprintf("next indices %v vs %v", a.Next, b.Next)
	}
	if !reflect.DeepEqual(a.Addrs, b.Addrs) {
		return fmt.Sprintf("address/public-key sets differ: %v vs %v", a.Addrs, b.Addrs)
	}
	if !reflect.DeepEqual(a.AddrOf, b.AddrOf) {
		return "address strings differ"
	}
	return ""
}

type wTamper struct {
	Field string
	Class string // "secret" (must be rejected), "metadata" (unauthenticated, effective), "inert" (never read by import)
	Mut   func(k map[string]interface{}) bool
}

func wHexMut(section, field string, f func(b []byte) string) func(k map[string]interface{}) bool {
	return func(k map[string]interface{}) bool {
		sec := k[section].(map[string]interface{})
		h, _ := sec[field].(string)
		b, err := hex.DecodeString(h)
		if err != nil || len(b) < 8 {
			return false
		}
		sec[field] = f(b)
		return true
	}
}

func wTamperMenu() []wTamper {
	var out []wTamper
	flip := func(pos int) func(b []byte) string {
		return func(b []byte) string {
			p := pos
			if p < 0 {
				p = len(b) + p
			}
			if p >= len(b) {
				p = len(b) / 2
			}
			c := append([]byte{}, b...)
			c[p] ^= 1
			return hex.EncodeToString(c)
		}
	}
	blobMuts := map[string]func(b []byte) string{
		"flip-byte0":  flip(0),
		"flip-byte5":  flip(5),
		"flip-middle": flip(1 << 20),
		"flip-byte40": flip(40),
		"flip-last":   flip(-1),
		"truncate-1":  func(b []byte) string { return hex.EncodeToString(b[:len(b)-1]) },
		"extend-1":    func(b []byte) string { return hex.EncodeToString(append(append([]byte{}, b...), 0)) },
		"odd-hex":     func(b []byte) string { return hex.EncodeToString(b)[1:] },
		"non-hex":     func(b []byte) string { return "zz" + hex.EncodeToString(b)[2:] },
		"empty":       func(b []byte) string { return "" },
	}
	names := []string{"flip-byte0", "flip-byte5", "flip-middle", "flip-byte40", "flip-last", "truncate-1", "extend-1", "odd-hex", "non-hex", "empty"}
	for _, f := range []string{"masterHDPrivKeyEnc", "privParams", "cryptoKeyPrivEnc"} {
		for _, n := range names {
			out = append(out, wTamper{Field: "crypto." + f + ":" + n, Class: "secret", Mut: wHexMut("crypto", f, blobMuts[n])})
		}
	}
	for _, f := range []string{"pubParams", "cryptoKeyPubEnc"} {
		for _, n := range []string{"flip-byte0", "flip-last", "truncate-1", "empty", "non-hex"} {
			out = append(out, wTamper{Field: "crypto." + f + ":" + n, Class: "inert", Mut: wHexMut("crypto", f, blobMuts[n])})
		}
	}
	for _, f := range []string{"cipher", "kdf"} {
		f := f
		out = append(out, wTamper{Field: "crypto." + f + ":changed", Class: "inert", Mut: func(k map[string]interface{}) bool {
			k["crypto"].(map[string]interface{})[f] = "other"
			return true
		}})
	}
	out = append(out, wTamper{Field: "remark:changed", Class: "metadata", Mut: func(k map[string]interface{}) bool { k["remark"] = "tampered"; return true }})
	out = append(out, wTamper{Field: "remark:wrong-type", Class: "secret", Mut: func(k map[string]interface{}) bool { k["remark"] = 7; return true }})
	num := func(f string, class string, name string, g func(v float64) interface{}) wTamper {
		return wTamper{Field: "hdPath." + f + ":" + name, Class: class, Mut: func(k map[string]interface{}) bool {
			hp := k["hdPath"].(map[string]interface{})
			v, _ := hp[f].(float64)
			nv := g(v)
			if nv == nil {
				delete(hp, f)
				return v != 0
			}
			if fv, ok := nv.(float64); ok && (fv < 0 || fv == v) {
				return false
			}
			hp[f] = nv
			return true
		}}
	}
	for _, f := range []string{"Account", "ExternalChildNum", "InternalChildNum"} {
		out = append(out, num(f, "metadata", "+1", func(v float64) interface{} { return v + 1 }))
		out = append(out, num(f, "metadata", "-1", func(v float64) interface{} { return v - 1 }))
		out = append(out, num(f, "metadata", "+3", func(v float64) interface{} { return v + 3 }))
		out = append(out, num(f, "metadata", "missing", func(v float64) interface{} { return nil }))
		out = append(out, num(f, "secret", "wrong-type", func(v float64) interface{} { return "x" }))
		out = append(out, num(f, "secret", "negative", func(v float64) interface{} { return "-1" }))
	}
	for _, f := range []string{"Purpose", "Coin"} {
		out = append(out, num(f, "inert", "+1", func(v float64) interface{} { return v + 1 }))
		out = append(out, num(f, "inert", "zero", func(v float64) interface{} { return float64(0) }))
	}
	return out
}

func TestVerifC01(t *testing.T) {
	r := vk.Start("C01", "exploration")
	c := &wCtx{r: r, prop: "C01", obs: newWObs()}
	c.ops = []wOp{
		{K: oNew, S: 0, P: wCur, P2: -1, R: "r0"}, {K: oNew, S: 1, P: wCur, P2: -1},
		{K: oNext, S: 0, N: 1, P2: -1}, {K: oNext, S: 0, N: 1, Internal: true, P2: -1}, {K: oNext, S: 0, N: 2, Internal: true, P2: -1},
		{K: oGen, S: 0, P2: -1}, {K: oGen, S: 1, P2: -1},
		{K: oUnlock, P: wCur, P2: -1}, {K: oLock, P2: -1},
		{K: oRemark, S: 0, R: "", P2: -1},
		{K: oChPriv, P: wCur, P2: wWrong},
		{K: oExport, S: 0, P: wCur, P2: -1, Slot: 0}, {K: oDelete, S: 0, P: wCur, P2: -1}, {K: oImport, Slot: 0, P: wCur, P2: -1}, {K: oImport, Slot: 0, P: wPrevious, P2: wCur},
		{K: oRestart, P: wCurPub, P2: -1},
	}
	menu := wTamperMenu()
	var mu = &c.mu
	tamperedContent := map[string]bool{}
	var exports, imports, tampers, tamperRejected, tamperAcceptedMeta, tamperAcceptedInert int64
	pass := func(i int) []byte { return []byte(wPass[i]) }

	c.tail = func(c *wCtx, in *wInst, m *wModel, hist []wOp, res wResult) bool {
		last := wKindName[hist[len(hist)-1].K]
		snap1, _ := in.snapshot()
		for seed, mk := range m.Ks {
			id := c.obs.idOf(seed)
			file, err := in.km.ExportKeystore(id, pass(m.Priv))
			if err != nil {
				c.viol("export-refused", last, err.Error(), hist)
				return false
			}
			mu.Lock()
			exports++
			mu.Unlock()
			ks, err := GetKeystoreFromJson(file)
			if err != nil || ks.Remark != mk.Remark || ks.HDpath.ExternalChildNum != mk.Next[0] || ks.HDpath.InternalChildNum != mk.Next[1] {
				c.viol("export-content", last, fmt.Sprintf("exported file says remark=%q ext=%d int=%d; reference %q %d %d", ks.Remark, ks.HDpath.ExternalChildNum, ks.HDpath.InternalChildNum, mk.Remark, mk.Next[0], mk.Next[1]), hist)
				return false
			}
			// present keystore: import must be refused and change nothing
			raw := in.rawDump()
			if _, _, err := in.km.ImportKeystore(file, pass(m.Priv), nil); err == nil {
				c.viol("duplicate-import-accepted", "Import", "importing a keystore that is already present succeeded", hist)
				return false
			}
			if s2, _ := in.snapshot(); s2.String() != snap1.String() || !reflect.DeepEqual(raw, in.rawDump()) {
				c.viol("refused-import-changed-wallet", "Import", "refused duplicate import changed the wallet", hist)
				return false
			}
			// (b)/(c): other wallets
			for variant := 0; variant < 4; variant++ {
				w2, err := wOpen(wQ1, false, nil)
				if err != nil {
					vk.Fatalf("open second wallet: %v", err)
				}
				other := variant >= 2 // second wallet already holds another keystore
				unlocked := variant%2 == 1
				if other {
					if _, err := w2.km.NewKeystore(pass(m.Priv), wSeed(5), "other", w2.km.params, wFast); err != nil {
						vk.Fatalf("second wallet NewKeystore: %v", err)
					}
				}
				if unlocked {
					if err := w2.km.Unlock(pass(m.Priv)); err != nil {
						vk.Fatalf("second wallet Unlock: %v", err)
					}
				}
				// wrong passphrases first: refused, wallet unchanged
				raw2 := w2.rawDump()
				for _, wp := range []int{wResolvePass(m, wWrong), m.Pub, wBad, wOther} {
					if wp == m.Priv {
						continue
					}
					if _, _, err := w2.km.ImportKeystore(file, pass(wp), nil); err == nil {
						c.viol("wrong-passphrase-import-accepted", "Import", fmt.Sprintf("import with %q accepted; file was exported under %q", wPass[wp], wPass[m.Priv]), hist)
						w2.close()
						return false
					}
					if !reflect.DeepEqual(raw2, w2.rawDump()) {
						c.viol("refused-import-changed-wallet", "Import", "import refused for a wrong passphrase changed the target wallet", hist)
						w2.close()
						return false
					}
				}
				if other {
					// a wallet whose keystores use a different private passphrase refuses (new passphrase must equal the wallet's)
					if _, _, err := w2.km.ImportKeystore(file, pass(m.Priv), pass(wOther)); err == nil {
						c.viol("import-under-second-passphrase", "Import", "import re-encrypted under a passphrase different from the target wallet's was accepted", hist)
						w2.close()
						return false
					}
				}
				id2, remark2, err := w2.km.ImportKeystore(file, pass(m.Priv), nil)
				mu.Lock()
				imports++
				mu.Unlock()
				if err != nil {
					c.viol("import-refused", "Import", fmt.Sprintf("import into another wallet (holds other keystore=%v, unlocked=%v) failed: %v", other, unlocked, err), hist)
					w2.close()
					return false
				}
				if id2 != id || remark2 != mk.Remark {
					c.viol("identity", "Import", fmt.Sprintf("import returned id %s remark %q; exported keystore is %s %q", id2, remark2, id, mk.Remark), hist)
					w2.close()
					return false
				}
				s2, e := w2.snapshot()
				if e == "" {
					e = wKsEqual(snap1[id], s2[id])
				}
				if e != "" {
					c.viol("imported-keystore-differs", "Import", e, hist)
					w2.close()
					return false
				}
				if !unlocked {
					if err := w2.km.Unlock(pass(m.Priv)); err != nil {
						c.viol("unlock-after-import", "Unlock", err.Error(), hist)
						w2.close()
						return false
					}
				}
				m2 := &wModel{Ks: map[int]*wKs{seed: mk}, Priv: m.Priv, Pub: wQ1, Unlocked: true}
				if cl, st, msg := wSignAll(c, w2, m2, false); msg != "" {
					c.viol(cl+"-after-import", st, msg, hist)
					w2.close()
					return false
				}
				// restart of the importing wallet
				if err := w2.restart(wQ1); err != nil {
					c.viol("reopen-after-import", "Restart", err.Error(), hist)
					w2.close()
					return false
				}
				s3, _ := w2.snapshot()
				if e := wKsEqual(snap1[id], s3[id]); e != "" {
					c.viol("imported-keystore-differs-after-restart", "Import", e, hist)
					w2.close()
					return false
				}
				w2.close()
			}
			// a wallet governed by ANOTHER private passphrase refuses the file unless it is re-encrypted
			{
				w5, _ := wOpen(wQ1, false, nil)
				if _, err := w5.km.NewKeystore(pass(wOther), wSeed(5), "other", w5.km.params, wFast); err != nil {
					vk.Fatalf("fifth wallet: %v", err)
				}
				raw5 := w5.rawDump()
				if _, _, err := w5.km.ImportKeystore(file, pass(m.Priv), nil); err == nil {
					c.viol("import-keeping-foreign-passphrase", "Import", "a wallet governed by another private passphrase imported the keystore without re-encrypting it (two governing passphrases)", hist)
					w5.close()
					return false
				}
				if !reflect.DeepEqual(raw5, w5.rawDump()) {
					c.viol("refused-import-changed-wallet", "Import", "import refused for a foreign passphrase changed the target wallet", hist)
					w5.close()
					return false
				}
				w5.close()
			}
			// import under a NEW private passphrase into an empty wallet: the new one governs, the old one is dead
			{
				w4, _ := wOpen(wQ1, false, nil)
				id4, _, err := w4.km.ImportKeystore(file, pass(m.Priv), pass(wOther))
				if err != nil || id4 != id {
					c.viol("import-refused", "Import-new-passphrase", fmt.Sprintf("import with a new private passphrase failed: %v", err), hist)
					w4.close()
					return false
				}
				if w4.km.Unlock(pass(m.Priv)) == nil {
					c.viol("old-passphrase-unlocks-after-import", "Import-new-passphrase", "after import under a new private passphrase the old one still unlocks", hist)
					w4.close()
					return false
				}
				if err := w4.km.Unlock(pass(wOther)); err != nil {
					c.viol("new-passphrase-refused-after-import", "Import-new-passphrase", err.Error(), hist)
					w4.close()
					return false
				}
				m4 := &wModel{Ks: map[int]*wKs{seed: mk}, Priv: wOther, Pub: wQ1, Unlocked: true}
				if cl, st, msg := wSignAll(c, w4, m4, false); msg != "" {
					c.viol(cl+"-after-import", st, msg, hist)
					w4.close()
					return false
				}
				w4.close()
			}
			// tamper menu, once per distinct logical file content
			content := fmt.Sprintf("s%d %q %v pass%d unlocked=%v", seed, mk.Remark, mk.Next, m.Priv, m.Unlocked)
			mu.Lock()
			done := tamperedContent[content]
			tamperedContent[content] = true
			mu.Unlock()
			if !done {
				for _, tm := range menu {
					var k map[string]interface{}
					if err := json.Unmarshal(file, &k); err != nil {
						vk.Fatalf("exported file is not JSON: %v", err)
					}
					if !tm.Mut(k) {
						continue
					}
					tf, _ := json.Marshal(k)
					w3, _ := wOpen(wQ1, false, nil)
					if _, err := w3.km.NewKeystore(pass(m.Priv), wSeed(5), "other", w3.km.params, wFast); err != nil {
						vk.Fatalf("third wallet: %v", err)
					}
					raw3 := w3.rawDump()
					snapBefore, _ := w3.snapshot()
					id3, _, err := w3.km.ImportKeystore(tf, pass(m.Priv), nil)
					mu.Lock()
					tampers++
					mu.Unlock()
					if err != nil {
						mu.Lock()
						tamperRejected++
						mu.Unlock()
						sa, _ := w3.snapshot()
						if !reflect.DeepEqual(raw3, w3.rawDump()) || sa.String() != snapBefore.String() {
							c.viol("rejected-tampered-import-changed-wallet", tm.Field, "a tampered file was rejected but the wallet changed", hist)
							w3.close()
							return false
						}
						w3.close()
						continue
					}
					s3, _ := w3.snapshot()
					same := id3 == id && wKsEqual(snap1[id], s3[id]) == ""
					w3.close()
					switch tm.Class {
					case "secret":
						c.viol("tamper-accepted", tm.Field, "a file with corrupted "+tm.Field+" was imported", hist)
						return false
					case "inert":
						if !same {
							c.viol("tamper-effective", tm.Field, "corruption of "+tm.Field+" (not read by import) changed the imported keystore", hist)
							return false
						}
						mu.Lock()
						tamperAcceptedInert++
						mu.Unlock()
						c.r.Violation("C01/tamper-accepted-inert/"+tm.Field[:indexOrLen(tm.Field, ':')], "a file with altered "+tm.Field+" is accepted (field is not covered by any authentication; the imported keystore is unaffected)", c.rp(hist, tm.Field))
					case "metadata":
						mu.Lock()
						tamperAcceptedMeta++
						mu.Unlock()
						c.r.Violation("C01/tamper-accepted/"+tm.Field[:indexOrLen(tm.Field, ':')], fmt.Sprintf("a file with altered %s is accepted (unauthenticated metadata); imported keystore identical to the exported one: %v", tm.Field, same), c.rp(hist, tm.Field))
					}
				}
			}
		}
		// (a) same wallet: delete then import restores exactly the reference state
		for seed := range m.Ks {
			id := c.obs.idOf(seed)
			file, _ := in.km.ExportKeystore(id, pass(m.Priv))
			if ok, err := in.km.DeleteKeystore(id, pass(m.Priv)); err != nil || !ok {
				c.viol("delete-refused", "Delete", fmt.Sprint(err), hist)
				return false
			}
			// with no keystore left any well-formed private passphrase may be chosen; keep the old one
			if _, _, err := in.km.ImportKeystore(file, pass(m.Priv), nil); err != nil {
				c.viol("reimport-refused", "Import", err.Error(), hist)
				return false
			}
			s, e := in.snapshot()
			if e == "" {
				e = s.matchModel(m, c.obs)
			}
			if e != "" {
				c.viol("reimport-differs", "Import", e, hist)
				return false
			}
			if m.Unlocked {
				if cl, st, msg := wSignAll(c, in, m, false); msg != "" {
					c.viol(cl+"-after-reimport", st, msg, hist)
					return false
				}
			}
		}
		return true
	}
	wRunPropX(c, vk.Pick(r, 4, 5), func() {
		r.Set("exports", exports)
		r.Set("imports_into_other_wallets", imports)
		r.Set("tampered_files_tried", tampers)
		r.Set("tampered_files_rejected", tamperRejected)
		r.Set("tampered_metadata_accepted", tamperAcceptedMeta)
		r.Set("tampered_inert_accepted", tamperAcceptedInert)
		r.Set("tamper_menu_size", len(menu))
		r.Set("distinct_file_contents_tampered", len(tamperedContent))
	},
		"BFS over wallet histories (keys on both branches in all reachable mixes incl. zero/unequal counts, issued locked or unlocked, passphrase change, remark change, restart, earlier export/delete/import); in every state every keystore is exported and (1) re-import while present is refused without effect, (2) imported into 4 other wallets (empty / holding another keystore x locked / unlocked): wrong passphrases refused without effect, same id, remark, (branch,index)->pubkey/address maps and counters, every key signs after unlock, same after restart of the importing wallet, (3) every entry of the single-field tamper menu is applied and imported into a wallet holding another keystore: corrupted secret-bearing blobs/ill-typed fields must be rejected with the wallet byte-identical, (4) delete+import in the same wallet restores the reference state; distinct_nontrivial = distinct canonical states")
}

func indexOrLen(s string, b byte) int {
	for i := 0; i < len(s); i++ {
		if s[i] == b {
			return i
		}
	}
	return len(s)
}
