//go:build go1.21

package keystore

// Wallet harness W (shared by C01-C06, C12, C14): the real
// KeystoreManagerForPoC over the real ldb driver on goleveldb MemStorage, a
// boring reference model, an operation alphabet, a full observable snapshot and
// an inspection of the secret-bearing fields.

import (
	"bytes"
	"crypto/sha512"
	"encoding/binary"
	"encoding/hex"
	"fmt"
	"os"
	"path/filepath"
	"sort"
	"strings"
	"sync"
	"sync/atomic"

	"github.com/massnetorg/mass-core/logging"
	"github.com/massnetorg/mass-core/pocec"
	"github.com/syndtr/goleveldb/leveldb"
	"github.com/syndtr/goleveldb/leveldb/opt"
	"github.com/syndtr/goleveldb/leveldb/storage"
	"massnet.org/mass/config"
	mwdb "massnet.org/mass/poc/wallet/db"
	ldb "massnet.org/mass/poc/wallet/db/ldb"
	"massnet.org/mass/poc/wallet/keystore/hdkeychain"
	"massnet.org/mass/poc/wallet/keystore/snacl"
	"massnet.org/mass/zz_verif/faultdb"
	"massnet.org/mass/zz_verif/vk"
)

// ---------------------------------------------------------------- domains

// passphrases: 0,1 private candidates; 2,3 public candidates; 4 ill-formed; 5 another well-formed one never set.
// (lengths differ on purpose: length-dependent handling of passphrases must show)
var wPass = []string{"P0priv@#aaaaaaaa", "P1priv@#bbbb", "Q0publ@#cccccccc", "Q1publ@#dddddddddddd", "bad!", "X9other@#e"}

const (
	wP0, wP1, wQ0, wQ1, wBad, wOther = 0, 1, 2, 3, 4, 5
)

// wSeed: seeds are chosen (by enumerating counters with the real hdkeychain) so that one of
// the first child private scalars has a leading zero byte - hdkeychain keeps such scalars at
// 31 bytes, the input class on which length-sensitive key handling goes wrong:
// seed 0: external key 0 short; seed 1: internal key 0 short; seed 2: external key 1 short;
// other indices: plain counters.
var wSeedMemo sync.Map

func wSeedRaw(tag string, c uint32) []byte {
	s := make([]byte, 32)
	copy(s, []byte("verif-wallet-seed-"+tag))
	binary.BigEndian.PutUint32(s[28:], c)
	return s
}

func wSeed(i int) []byte {
	if v, ok := wSeedMemo.Load(i); ok {
		return v.([]byte)
	}
	want := map[int][2]uint32{0: {0, 0}, 1: {1, 0}, 2: {0, 1}}
	pos, special := want[i]
	var out []byte
	for c := uint32(0); c < 200000; c++ {
		s := wSeedRaw(fmt.Sprint(i), c)
		if !special {
			out = s
			break
		}
		k, err := hdkeychain.NewMaster(s, config.ChainParams)
		if err != nil {
			continue
		}
		ok := true
		for _, idx := range []uint32{44 + hdkeychain.HardenedKeyStart, config.ChainParams.HDCoinType + hdkeychain.HardenedKeyStart, uint32(PoCUsage) + hdkeychain.HardenedKeyStart, pos[0], pos[1]} {
			if k, err = k.Child(idx); err != nil {
				ok = false
				break
			}
		}
		if !ok {
			continue
		}
		if p, _ := k.PrivKey(); len(p) < 32 {
			out = s
			break
		}
	}
	if out == nil {
		vk.Fatalf("no seed with a short child scalar found")
	}
	wSeedMemo.Store(i, out)
	return out
}

var wFast = &ScryptOptions{N: 16, R: 8, P: 1}

var wInitOnce sync.Once

func wInit() {
	wInitOnce.Do(func() {
		// scrypt cost is data, not logic: N=16 everywhere (ImportKeystore passes nil options)
		secretKeyGen = func(passphrase *[]byte, _ *ScryptOptions) (*snacl.SecretKey, error) {
			return snacl.NewSecretKey(passphrase, 16, 8, 1)
		}
		if os.Getenv("VERIF_LOGDIR") == "" {
			logging.Init(filepath.Join(os.Getenv("VERIF_SCRATCH"), "wlogs"), "w", "fatal", 1, false)
		}
	})
}

// ---------------------------------------------------------------- operations

type wKind int

const (
	oNew wKind = iota
	oNext
	oGen
	oUnlock
	oLock
	oRemark
	oChPriv
	oChPub
	oExport
	oDelete
	oImport
	oRestart
)

var wKindName = []string{"New", "NextAddr", "GenKey", "Unlock", "Lock", "ChangeRemark", "ChangePriv", "ChangePub", "Export", "Delete", "Import", "Restart"}

type wOp struct {
	K        wKind  `json:"k"`
	S        int    `json:"seed"`  // seed / keystore index (GenKey: the keystore the call is expected to pick)
	P        int    `json:"pass"`  // passphrase index (old for changes)
	P2       int    `json:"pass2"` // new passphrase index (-1 none)
	R        string `json:"remark"`
	Internal bool   `json:"internal"`
	N        int    `json:"n"`
	Slot     int    `json:"slot"`
}

func (o wOp) String() string {
	switch o.K {
	case oNew:
		return fmt.Sprintf("New(seed%d,pass%d,%q)", o.S, o.P, o.R)
	case oNext:
		b := "ext"
		if o.Internal {
			b = "int"
		}
		return fmt.Sprintf("NextAddr(ks%d,%s,%d)", o.S, b, o.N)
	case oGen:
		return fmt.Sprintf("GenKey()->ks%d", o.S)
	case oUnlock:
		return fmt.Sprintf("Unlock(pass%d)", o.P)
	case oLock:
		return "Lock()"
	case oRemark:
		return fmt.Sprintf("ChangeRemark(ks%d,%q)", o.S, o.R)
	case oChPriv:
		return fmt.Sprintf("ChangePriv(pass%d->pass%d)", o.P, o.P2)
	case oChPub:
		return fmt.Sprintf("ChangePub(pass%d->pass%d)", o.P, o.P2)
	case oExport:
		return fmt.Sprintf("Export(ks%d,pass%d)->slot%d", o.S, o.P, o.Slot)
	case oDelete:
		return fmt.Sprintf("Delete(ks%d,pass%d)", o.S, o.P)
	case oImport:
		return fmt.Sprintf("Import(slot%d,old=pass%d,new=pass%d)", o.Slot, o.P, o.P2)
	case oRestart:
		return fmt.Sprintf("Restart(pub=pass%d)", o.P)
	}
	return "?"
}

// ---------------------------------------------------------------- model

type wKs struct {
	Remark string
	Next   [2]uint32
}

type wFile struct {
	Seed   int
	Pass   int // private passphrase in force at export
	Remark string
	Next   [2]uint32
	data   []byte
}

type wModel struct {
	Ks       map[int]*wKs
	Priv     int // -1: no keystore, undefined
	Pub      int
	Unlocked bool
	Files    [2]*wFile
	PrevPriv map[int]bool // superseded private passphrases
	// issuance history per seed since the keystore was (re)created: "b/i"
	Issued map[int]map[string]bool
}

func wNewModel() *wModel {
	return &wModel{Ks: map[int]*wKs{}, Priv: -1, Pub: wQ0, PrevPriv: map[int]bool{}, Issued: map[int]map[string]bool{}}
}

func wWellFormed(p int) bool { return ValidatePassphrase([]byte(wPass[p])) }

func (m *wModel) key() string {
	var sb strings.Builder
	ids := make([]int, 0, len(m.Ks))
	for s := range m.Ks {
		ids = append(ids, s)
	}
	sort.Ints(ids)
	for _, s := range ids {
		k := m.Ks[s]
		fmt.Fprintf(&sb, "ks%d{%q,%d,%d}", s, k.Remark, k.Next[0], k.Next[1])
	}
	fmt.Fprintf(&sb, " priv=%d pub=%d unl=%v", m.Priv, m.Pub, m.Unlocked)
	for i, f := range m.Files {
		if f != nil {
			fmt.Fprintf(&sb, " f%d{s%d,p%d,%q,%d,%d}", i, f.Seed, f.Pass, f.Remark, f.Next[0], f.Next[1])
		}
	}
	prev := make([]int, 0)
	for p := range m.PrevPriv {
		prev = append(prev, p)
	}
	sort.Ints(prev)
	fmt.Fprintf(&sb, " prev=%v", prev)
	return sb.String()
}

// expect says whether the op must succeed in the model state.
func (m *wModel) expect(o wOp) bool {
	privOK := func(p int) bool { return len(m.Ks) == 0 || p == m.Priv }
	switch o.K {
	case oNew:
		_, dup := m.Ks[o.S]
		return wWellFormed(o.P) && o.P != m.Pub && privOK(o.P) && !dup
	case oNext, oRemark:
		return m.Ks[o.S] != nil
	case oGen:
		return len(m.Ks) > 0
	case oUnlock:
		return privOK(o.P)
	case oLock:
		return true
	case oChPriv:
		return wWellFormed(o.P2) && o.P2 != m.Pub && o.P2 != o.P && privOK(o.P)
	case oChPub:
		if !wWellFormed(o.P2) || o.P2 == o.P {
			return false
		}
		if len(m.Ks) > 0 && (o.P2 == m.Priv || o.P != m.Pub) {
			return false
		}
		return true
	case oExport, oDelete:
		return m.Ks[o.S] != nil && o.P == m.Priv
	case oImport:
		f := m.Files[o.Slot]
		if f == nil {
			return false
		}
		np := o.P2
		if np < 0 {
			np = o.P
		}
		_, dup := m.Ks[f.Seed]
		return wWellFormed(np) && np != m.Pub && privOK(np) && o.P == f.Pass && !dup
	case oRestart:
		return wWellFormed(o.P) && (len(m.Ks) == 0 || o.P == m.Pub)
	}
	return false
}

// apply performs a successful op on the model.
func (m *wModel) apply(o wOp) {
	issue := func(s int, b int, from, n uint32) {
		if m.Issued[s] == nil {
			m.Issued[s] = map[string]bool{}
		}
		for i := from; i < from+n; i++ {
			m.Issued[s][fmt.Sprintf("%d/%d", b, i)] = true
		}
	}
	switch o.K {
	case oNew:
		m.Ks[o.S] = &wKs{Remark: o.R}
		m.Priv = o.P
		m.Issued[o.S] = map[string]bool{}
	case oNext:
		b := 0
		if o.Internal {
			b = 1
		}
		issue(o.S, b, m.Ks[o.S].Next[b], uint32(o.N))
		m.Ks[o.S].Next[b] += uint32(o.N)
	case oGen:
		issue(o.S, 0, m.Ks[o.S].Next[0], 1)
		m.Ks[o.S].Next[0]++
	case oUnlock:
		m.Unlocked = true
	case oLock:
		m.Unlocked = false
	case oRemark:
		m.Ks[o.S].Remark = o.R
	case oChPriv:
		if len(m.Ks) > 0 {
			m.PrevPriv[m.Priv] = true
			delete(m.PrevPriv, o.P2)
			m.Priv = o.P2
		}
	case oChPub:
		m.Pub = o.P2
	case oExport:
		k := m.Ks[o.S]
		m.Files[o.Slot] = &wFile{Seed: o.S, Pass: m.Priv, Remark: k.Remark, Next: k.Next}
	case oDelete:
		delete(m.Ks, o.S)
		delete(m.Issued, o.S) // the keystore's issuance history ends with it
		if len(m.Ks) == 0 {
			m.Priv = -1
			m.PrevPriv = map[int]bool{}
		}
	case oImport:
		f := m.Files[o.Slot]
		np := o.P2
		if np < 0 {
			np = o.P
		}
		m.Ks[f.Seed] = &wKs{Remark: f.Remark, Next: f.Next}
		m.Issued[f.Seed] = map[string]bool{}
		issue(f.Seed, 0, 0, f.Next[0])
		issue(f.Seed, 1, 0, f.Next[1])
		if m.Priv != np {
			m.Priv = np
		}
	case oRestart:
		m.Unlocked = false
		m.Pub = o.P
	}
}

// ---------------------------------------------------------------- shared observations

// wObs records, per seed, what the implementation first showed: keystore id
// and the public key at (branch,index). Every later observation - any
// instance, any wallet, after restart or import - must reproduce it.
type wObs struct {
	mu   sync.Mutex
	id   map[int]string
	keys map[string]string // "seed/b/i" -> pubkey hex
}

func newWObs() *wObs { return &wObs{id: map[int]string{}, keys: map[string]string{}} }

func (o *wObs) checkID(seed int, id string) string {
	o.mu.Lock()
	defer o.mu.Unlock()
	if old, ok := o.id[seed]; ok {
		if old != id {
			return fmt.Sprintf("keystore id of seed%d is %s, first observed as %s", seed, id, old)
		}
		return ""
	}
	o.id[seed] = id
	return ""
}

func (o *wObs) checkKey(seed, b int, i uint32, pk string) string {
	k := fmt.Sprintf("%d/%d/%d", seed, b, i)
	o.mu.Lock()
	defer o.mu.Unlock()
	if old, ok := o.keys[k]; ok {
		if old != pk {
			return fmt.Sprintf("public key at seed%d branch %d index %d is %s, first observed as %s", seed, b, i, pk, old)
		}
		return ""
	}
	// a key must not be known under another position
	for kk, v := range o.keys {
		if v == pk {
			return fmt.Sprintf("public key %s at %s was already observed at %s", pk, k, kk)
		}
	}
	o.keys[k] = pk
	return ""
}

func (o *wObs) key(seed, b int, i uint32) string {
	o.mu.Lock()
	defer o.mu.Unlock()
	return o.keys[fmt.Sprintf("%d/%d/%d", seed, b, i)]
}

func (o *wObs) seedOf(id string) int {
	o.mu.Lock()
	defer o.mu.Unlock()
	for s, v := range o.id {
		if v == id {
			return s
		}
	}
	return -1
}

// ---------------------------------------------------------------- instance

var wSmallOpts = &opt.Options{WriteBuffer: 8 << 10, DisableBlockCache: true}

type wInst struct {
	stor  storage.Storage
	dir   string
	store *ldb.LevelDB
	// wrap, if set, wraps the store handed to the manager
	wrap func(mwdb.DB) mwdb.DB
	// fault: hand the manager a faultdb wrapper (kept in fdb)
	fault bool
	fdb   *faultdb.DB
	km    *KeystoreManagerForPoC
	files [2][]byte
}

var wDirSeq int64

func wOpen(pub int, useDir bool, wrap func(mwdb.DB) mwdb.DB) (*wInst, error) {
	return wOpenF(pub, useDir, wrap, false)
}

func wOpenF(pub int, useDir bool, wrap func(mwdb.DB) mwdb.DB, fault bool) (*wInst, error) {
	wInit()
	in := &wInst{wrap: wrap, fault: fault}
	if useDir {
		in.dir = filepath.Join(os.Getenv("VERIF_SCRATCH"), fmt.Sprintf("wdb-%d", atomic.AddInt64(&wDirSeq, 1)))
		os.MkdirAll(filepath.Dir(in.dir), 0o755)
		d, err := ldb.CreateDB(in.dir)
		if err != nil {
			return nil, err
		}
		in.store = d.(*ldb.LevelDB)
	} else {
		in.stor = storage.NewMemStorage()
		l, err := leveldb.Open(in.stor, wSmallOpts)
		if err != nil {
			return nil, err
		}
		in.store = &ldb.LevelDB{LDb: l}
	}
	if err := in.manager(pub); err != nil {
		return nil, err
	}
	return in, nil
}

func (in *wInst) db() mwdb.DB {
	if in.fault {
		in.fdb = faultdb.Wrap(in.store)
		return in.fdb
	}
	if in.wrap != nil {
		return in.wrap(in.store)
	}
	return in.store
}

func (in *wInst) manager(pub int) error {
	km, err := NewKeystoreManagerForPoC(in.db(), []byte(wPass[pub]), config.ChainParams)
	if err != nil {
		return err
	}
	in.km = km
	return nil
}

// reopenStore closes the store and opens it again (same MemStorage / directory).
func (in *wInst) reopenStore() error {
	if err := in.store.Close(); err != nil {
		return err
	}
	if in.dir != "" {
		d, err := ldb.OpenDB(in.dir)
		if err != nil {
			return err
		}
		in.store = d.(*ldb.LevelDB)
		return nil
	}
	l, err := leveldb.Open(in.stor, wSmallOpts)
	if err != nil {
		return err
	}
	in.store = &ldb.LevelDB{LDb: l}
	return nil
}

func (in *wInst) restart(pub int) error {
	if err := in.reopenStore(); err != nil {
		vk.Fatalf("reopen store: %v", err)
	}
	in.km = nil
	return in.manager(pub)
}

func (in *wInst) close() {
	in.store.Close()
	if in.dir != "" {
		os.RemoveAll(in.dir)
	}
}

// rawDump returns every physical key/value of the store.
func (in *wInst) rawDump() map[string]string {
	out := map[string]string{}
	it := in.store.LDb.NewIterator(nil, nil)
	for it.Next() {
		out[string(it.Key())] = string(it.Value())
	}
	it.Release()
	return out
}

type wResult struct {
	ok     bool
	err    error
	keys   []string // returned public keys (hex)
	idx    []uint32
	id     string
	picked int // GenKey: seed index of the keystore that was used (-1 unknown)
}

func wPub(pk *pocec.PublicKey) string { return hex.EncodeToString(pk.SerializeCompressed()) }

// apply executes the op on the real wallet.
func (in *wInst) apply(o wOp, obs *wObs) wResult {
	pass := func(i int) []byte { return []byte(wPass[i]) }
	switch o.K {
	case oNew:
		id, err := in.km.NewKeystore(pass(o.P), wSeed(o.S), o.R, config.ChainParams, wFast)
		return wResult{ok: err == nil, err: err, id: id}
	case oNext:
		id := obs.idOf(o.S)
		mas, err := in.km.NextAddresses(id, o.Internal, uint32(o.N))
		r := wResult{ok: err == nil, err: err}
		for _, ma := range mas {
			r.keys = append(r.keys, wPub(ma.pubKey))
			r.idx = append(r.idx, ma.derivationPath.Index)
		}
		return r
	case oGen:
		// GenerateNewPublicKey picks "the first" keystore in Go map iteration
		// order. The harness owns that nondeterminism: it hides the other
		// keystores from the map for the duration of the call, so that each
		// possible pick is explored as its own operation GenKey()->ks<S>.
		hidden := map[string]*AddrManager{}
		want := obs.idOf(o.S)
		if _, ok := in.km.managedKeystores[want]; ok {
			for id, am := range in.km.managedKeystores {
				if id != want {
					hidden[id] = am
				}
			}
			for id := range hidden {
				delete(in.km.managedKeystores, id)
			}
		}
		pk, idx, err := in.km.GenerateNewPublicKey()
		for id, am := range hidden {
			in.km.managedKeystores[id] = am
		}
		r := wResult{ok: err == nil, err: err, picked: -1}
		if err == nil {
			r.keys = []string{wPub(pk)}
			r.idx = []uint32{idx}
			_, addr, _ := newPoCAddress(pk, config.ChainParams)
			for id, am := range in.km.managedKeystores {
				if _, ok := am.addrs[addr.EncodeAddress()]; ok {
					r.picked = obs.seedOf(id)
				}
			}
		}
		return r
	case oUnlock:
		err := in.km.Unlock(pass(o.P))
		return wResult{ok: err == nil, err: err}
	case oLock:
		in.km.Lock()
		return wResult{ok: true}
	case oRemark:
		err := in.km.ChangeRemark(obs.idOf(o.S), o.R)
		return wResult{ok: err == nil, err: err}
	case oChPriv:
		err := in.km.ChangePrivPassphrase(pass(o.P), pass(o.P2), wFast)
		return wResult{ok: err == nil, err: err}
	case oChPub:
		err := in.km.ChangePubPassphrase(pass(o.P), pass(o.P2), wFast)
		return wResult{ok: err == nil, err: err}
	case oExport:
		b, err := in.km.ExportKeystore(obs.idOf(o.S), pass(o.P))
		if err == nil {
			in.files[o.Slot] = b
		}
		return wResult{ok: err == nil, err: err}
	case oDelete:
		ok, err := in.km.DeleteKeystore(obs.idOf(o.S), pass(o.P))
		return wResult{ok: err == nil && ok, err: err}
	case oImport:
		var np []byte
		if o.P2 >= 0 {
			np = pass(o.P2)
		}
		if in.files[o.Slot] == nil {
			return wResult{ok: false, err: fmt.Errorf("empty slot")}
		}
		id, _, err := in.km.ImportKeystore(in.files[o.Slot], pass(o.P), np)
		return wResult{ok: err == nil, err: err, id: id}
	case oRestart:
		err := in.restart(o.P)
		return wResult{ok: err == nil, err: err}
	}
	return wResult{}
}

func (o *wObs) idOf(seed int) string {
	o.mu.Lock()
	defer o.mu.Unlock()
	if id, ok := o.id[seed]; ok {
		return id
	}
	return fmt.Sprintf("unknown-keystore-%d", seed)
}

// ---------------------------------------------------------------- snapshot

type wSnapKs struct {
	Remark string
	Use    AddrUse
	Next   [2]uint32
	Addrs  map[string]string // "b/i" -> pubkey hex
	AddrOf map[string]string // "b/i" -> address string
}

type wSnap map[string]*wSnapKs // by keystore id

func (in *wInst) snapshot() (wSnap, string) {
	s := wSnap{}
	names := in.km.ListKeystoreNames()
	ams := in.km.GetManagedAddrManager()
	if len(names) != len(ams) {
		return nil, "ListKeystoreNames and GetManagedAddrManager disagree"
	}
	for _, am := range ams {
		k := &wSnapKs{Remark: am.Remarks(), Use: am.AddrUse(), Addrs: map[string]string{}, AddrOf: map[string]string{}}
		k.Next[0] = am.branchInfo.nextExternalIndex
		k.Next[1] = am.branchInfo.nextInternalIndex
		for _, ma := range am.ManagedAddresses() {
			pos := fmt.Sprintf("%d/%d", ma.derivationPath.Branch, ma.derivationPath.Index)
			if _, dup := k.Addrs[pos]; dup {
				return nil, "two addresses at position " + pos + " in keystore " + am.Name()
			}
			k.Addrs[pos] = wPub(ma.pubKey)
			k.AddrOf[pos] = ma.String()
			if ma.Account() != am.Name() {
				return nil, "address " + ma.String() + " names keystore " + ma.Account() + " but is held by " + am.Name()
			}
		}
		s[am.Name()] = k
	}
	for _, n := range names {
		if s[n] == nil {
			return nil, "ListKeystoreNames lists " + n + " without manager"
		}
	}
	return s, ""
}

func (s wSnap) String() string {
	ids := make([]string, 0, len(s))
	for id := range s {
		ids = append(ids, id)
	}
	sort.Strings(ids)
	var sb strings.Builder
	for _, id := range ids {
		k := s[id]
		pos := make([]string, 0, len(k.Addrs))
		for p := range k.Addrs {
			pos = append(pos, p)
		}
		sort.Strings(pos)
		fmt.Fprintf(&sb, "%s{%q use=%d next=%v", id, k.Remark, k.Use, k.Next)
		for _, p := range pos {
			fmt.Fprintf(&sb, " %s=%s", p, k.Addrs[p][:16])
		}
		sb.WriteString("} ")
	}
	return sb.String()
}

// matchModel compares the observable state with the reference; "" = equal.
func (s wSnap) matchModel(m *wModel, obs *wObs) string {
	if len(s) != len(m.Ks) {
		return fmt.Sprintf("wallet shows %d keystore(s), reference has %d", len(s), len(m.Ks))
	}
	for seed, mk := range m.Ks {
		id := obs.idOf(seed)
		k := s[id]
		if k == nil {
			return fmt.Sprintf("keystore of seed%d (%s) missing", seed, id)
		}
		if k.Remark != mk.Remark {
			return fmt.Sprintf("ks%d remark %q, reference %q", seed, k.Remark, mk.Remark)
		}
		if k.Use != PoCUsage {
			return fmt.Sprintf("ks%d usage %d", seed, k.Use)
		}
		if k.Next != mk.Next {
			return fmt.Sprintf("ks%d next indices %v, reference %v", seed, k.Next, mk.Next)
		}
		if uint32(len(k.Addrs)) != mk.Next[0]+mk.Next[1] {
			return fmt.Sprintf("ks%d holds %d addresses, reference %d", seed, len(k.Addrs), mk.Next[0]+mk.Next[1])
		}
		for b := 0; b < 2; b++ {
			for i := uint32(0); i < mk.Next[b]; i++ {
				pk, ok := k.Addrs[fmt.Sprintf("%d/%d", b, i)]
				if !ok {
					return fmt.Sprintf("ks%d has no address at branch %d index %d", seed, b, i)
				}
				if e := obs.checkKey(seed, b, i, pk); e != "" {
					return e
				}
			}
		}
	}
	return ""
}

// ---------------------------------------------------------------- secrets in memory

type wSecretBit struct {
	Field string
	// Working: the residue is a usable secret (see DESIGN §C03); otherwise diagnostic only.
	Working bool
}

func nonZero(b []byte) bool {
	for _, x := range b {
		if x != 0 {
			return true
		}
	}
	return false
}

// secretScan lists the non-zero secret fields of every keystore.
func (in *wInst) secretScan(m *wModel) []wSecretBit {
	var out []wSecretBit
	for _, am := range in.km.managedKeystores {
		if am.masterKeyPriv != nil && am.masterKeyPriv.Key != nil && nonZero(am.masterKeyPriv.Key[:]) {
			_, err := am.masterKeyPriv.Key.Decrypt(am.cryptoKeyPrivEncrypted)
			out = append(out, wSecretBit{"masterKeyPriv.Key", err == nil})
		}
		if am.cryptoKeyPriv != nil && nonZero(am.cryptoKeyPriv.Bytes()) {
			_, err := am.cryptoKeyPriv.Decrypt(am.acctInfo.acctKeyEncrypted)
			out = append(out, wSecretBit{"cryptoKeyPriv", err == nil})
		}
		if nonZero(am.hashedPrivPassphrase[:]) {
			working := false
			if m.Priv >= 0 {
				h := sha512.Sum512(append(append([]byte{}, am.privPassphraseSalt[:]...), []byte(wPass[m.Priv])...))
				working = bytes.Equal(h[:], am.hashedPrivPassphrase[:])
			}
			out = append(out, wSecretBit{"hashedPrivPassphrase", working})
		}
		if am.acctInfo.acctKeyPriv != nil {
			out = append(out, wSecretBit{"acctKeyPriv", true})
		}
		if am.branchInfo.externalBranchPriv != nil || am.branchInfo.internalBranchPriv != nil {
			out = append(out, wSecretBit{"branchPriv", true})
		}
		for _, ma := range am.addrs {
			if ma.privKey != nil {
				out = append(out, wSecretBit{"ManagedAddress.privKey", true})
				break
			}
		}
	}
	return out
}

// hiddenFP: implementation-only state that may influence futures.
func (in *wInst) hiddenFP() string {
	ids := make([]string, 0)
	for id := range in.km.managedKeystores {
		ids = append(ids, id)
	}
	sort.Strings(ids)
	var sb strings.Builder
	fmt.Fprintf(&sb, "U%v", in.km.unlocked)
	ptrs := map[*snacl.SecretKey]int{}
	for _, id := range ids {
		am := in.km.managedKeystores[id]
		if _, ok := ptrs[am.masterKeyPriv]; !ok {
			ptrs[am.masterKeyPriv] = len(ptrs)
		}
		npriv := 0
		for _, ma := range am.addrs {
			if ma.privKey != nil {
				npriv++
			}
		}
		fmt.Fprintf(&sb, "|u%v m%v c%v h%v a%v p%d s%d", am.unlocked,
			am.masterKeyPriv != nil && am.masterKeyPriv.Key != nil && nonZero(am.masterKeyPriv.Key[:]),
			am.cryptoKeyPriv != nil && nonZero(am.cryptoKeyPriv.Bytes()),
			nonZero(am.hashedPrivPassphrase[:]), am.acctInfo.acctKeyPriv != nil, npriv, ptrs[am.masterKeyPriv])
	}
	return sb.String()
}
