//go:build go1.21

package keystore

// Runner for the wallet harness: replays a history on a fresh wallet, checks
// the common oracles after the last operation and hands the (doomed) instance
// to the property-specific tail.

import (
	"fmt"
	"runtime"
	"sort"
	"strings"
	"sync"
	"sync/atomic"

	mwdb "massnet.org/mass/poc/wallet/db"
	"massnet.org/mass/zz_verif/seqx"
	"massnet.org/mass/zz_verif/vk"
)

type wCtx struct {
	r      *vk.Run
	prop   string
	ops    []wOp
	obs    *wObs
	useDir bool
	wrap   func(mwdb.DB) mwdb.DB
	// enabled filters the alphabet for a model state (nil = default filter)
	enabled func(m *wModel, o wOp) bool
	// tail is run on the instance after the common checks of the last op;
	// the instance is discarded afterwards, so it may be destructive.
	tail func(c *wCtx, in *wInst, m *wModel, hist []wOp, res wResult) bool
	// commonChecks can be disabled by harnesses that inject faults
	skipCommon bool

	retries     int64
	unmatched   int64
	failedOps   int64
	okOps       int64
	mu          sync.Mutex
	kindSeen    map[wKind]int
	lockedScans int64
}

type wReplay struct {
	Ops  []wOp    `json:"ops"`
	Text []string `json:"text"`
	Note string   `json:"note,omitempty"`
}

func (c *wCtx) rp(hist []wOp, note string) wReplay {
	t := make([]string, len(hist))
	for i, o := range hist {
		t[i] = o.String()
	}
	return wReplay{Ops: hist, Text: t, Note: note}
}

func (c *wCtx) viol(clause, site, msg string, hist []wOp) {
	c.r.Violation(c.prop+"/"+clause+"/"+site, fmt.Sprintf("%s after %s", msg, strings.Join(c.rp(hist, "").Text, "; ")), c.rp(hist, msg))
}

func (c *wCtx) histOps(hist []int, op int) []wOp {
	out := make([]wOp, 0, len(hist)+1)
	for _, h := range hist {
		out = append(out, c.ops[h])
	}
	if op >= 0 {
		out = append(out, c.ops[op])
	}
	return out
}

// symbolic passphrase arguments, resolved against the model state
const (
	wCur      = -2 // the current private passphrase (P0 if none is defined)
	wWrong    = -3 // the other one of P0/P1
	wCurPub   = -4
	wWrongPub = -5
	wPrevious = -6 // a superseded private passphrase (else a never-used well-formed one)
)

func wResolvePass(m *wModel, p int) int {
	cur := m.Priv
	if cur < 0 {
		cur = wP0
	}
	switch p {
	case wCur:
		return cur
	case wWrong:
		if cur == wP0 {
			return wP1
		}
		return wP0
	case wCurPub:
		return m.Pub
	case wWrongPub:
		if m.Pub == wQ0 {
			return wQ1
		}
		return wQ0
	case wPrevious:
		for q := range m.PrevPriv {
			return q
		}
		return wOther
	}
	return p
}

func wResolve(m *wModel, o wOp) wOp {
	o.P = wResolvePass(m, o.P)
	if o.P2 != -1 {
		o.P2 = wResolvePass(m, o.P2)
	}
	return o
}

// step applies one op to instance and model and compares the result.
// retry=true: GenKey picked another keystore than this history expects.
func (c *wCtx) step(in *wInst, m *wModel, o wOp, hist []wOp, report bool) (res wResult, ok bool, retry bool) {
	o = wResolve(m, o)
	want := m.expect(o)
	res = in.apply(o, c.obs)
	site := wKindName[o.K]
	if o.K == oGen && res.ok && res.picked != o.S {
		if m.Ks[res.picked] == nil && report {
			c.viol("result", site, fmt.Sprintf("GenKey issued a key of keystore seed%d which the reference does not hold", res.picked), hist)
			return res, false, false
		}
		return res, false, true
	}
	// Unlock with the correct passphrase while already unlocked: no property
	// requires it to succeed (the code fails with "unable to decrypt" once a
	// passphrase check has zeroed masterKeyPriv while unlocked; the wallet
	// stays unlocked and usable). Either outcome is accepted; state unchanged.
	if o.K == oUnlock && m.Unlocked && want {
		want = res.ok
	}
	if res.ok != want {
		if report {
			c.viol("result", site, fmt.Sprintf("%s returned ok=%v err=%v, reference expects ok=%v", o, res.ok, res.err, want), hist)
		}
		return res, false, false
	}
	if !res.ok {
		if o.K == oRestart {
			// the process did restart; open again with the right passphrase
			m.Unlocked = false
			if err := in.manager(m.Pub); err != nil {
				if report {
					c.viol("restart", "reopen-after-refused-open", "wallet does not open with the current public passphrase after an open with a wrong one was refused: "+err.Error(), hist)
				}
				return res, false, false
			}
		}
		return res, true, false
	}
	// successful op: returned values
	switch o.K {
	case oNew, oImport:
		seed := o.S
		if o.K == oImport {
			seed = m.Files[o.Slot].Seed
		}
		if e := c.obs.checkID(seed, res.id); e != "" {
			if report {
				c.viol("identity", site, e, hist)
			}
			return res, false, false
		}
	case oNext, oGen:
		b := 0
		if o.Internal {
			b = 1
		}
		n := o.N
		if o.K == oGen {
			n = 1
		}
		if len(res.keys) != n {
			if report {
				c.viol("result", site, fmt.Sprintf("%s returned %d keys", o, len(res.keys)), hist)
			}
			return res, false, false
		}
		for j := 0; j < n; j++ {
			wantIdx := m.Ks[o.S].Next[b] + uint32(j)
			if res.idx[j] != wantIdx {
				if report {
					c.viol("ordinal", site, fmt.Sprintf("%s returned index %d, reference next index is %d", o, res.idx[j], wantIdx), hist)
				}
				return res, false, false
			}
			if m.Issued[o.S][fmt.Sprintf("%d/%d", b, wantIdx)] {
				vk.Fatalf("model issued set inconsistent")
			}
			if e := c.obs.checkKey(o.S, b, wantIdx, res.keys[j]); e != "" {
				if report {
					c.viol("key-reuse", site, e, hist)
				}
				return res, false, false
			}
		}
	}
	if o.K == oExport {
		// keep the file with the model entry
		m.apply(o)
		m.Files[o.Slot].data = in.files[o.Slot]
		return res, true, false
	}
	m.apply(o)
	return res, true, false
}

// common oracles after the last op of a history.
func (c *wCtx) common(in *wInst, m *wModel, hist []wOp) bool {
	snap, e := in.snapshot()
	if e != "" {
		c.viol("snapshot", wKindName[hist[len(hist)-1].K], e, hist)
		return false
	}
	if e := snap.matchModel(m, c.obs); e != "" {
		c.viol("state", wKindName[hist[len(hist)-1].K], "running wallet differs from reference: "+e, hist)
		return false
	}
	if in.km.IsLocked() == m.Unlocked {
		c.viol("lock-flag", wKindName[hist[len(hist)-1].K], fmt.Sprintf("IsLocked()=%v, reference unlocked=%v", in.km.IsLocked(), m.Unlocked), hist)
		return false
	}
	return true
}

// run replays hist+op on a fresh instance. The caller must close the instance.
func (c *wCtx) run(hist []int, op int) (in *wInst, m *wModel, res wResult, ok bool) {
	all := c.histOps(hist, op)
	for attempt := 0; attempt < 200; attempt++ {
		var err error
		in, err = wOpen(wQ0, c.useDir, c.wrap)
		if err != nil {
			vk.Fatalf("open wallet: %v", err)
		}
		m = wNewModel()
		retry := false
		ok = true
		for i, o := range all {
			last := i == len(all)-1
			var r wResult
			var rt bool
			r, ok, rt = c.step(in, m, o, all[:i+1], last)
			if rt {
				retry = true
				break
			}
			if !ok {
				break
			}
			if last {
				res = r
			}
		}
		if retry {
			in.close()
			atomic.AddInt64(&c.retries, 1)
			continue
		}
		if ok {
			if res.ok {
				atomic.AddInt64(&c.okOps, 1)
			} else {
				atomic.AddInt64(&c.failedOps, 1)
			}
			c.mu.Lock()
			if c.kindSeen == nil {
				c.kindSeen = map[wKind]int{}
			}
			c.kindSeen[all[len(all)-1].K]++
			c.mu.Unlock()
			if !c.skipCommon {
				ok = c.common(in, m, all)
			}
		}
		return in, m, res, ok
	}
	atomic.AddInt64(&c.unmatched, 1)
	c.r.Cap("a GenKey outcome could not be reproduced in 200 replays (map-order nondeterminism); subtree unexplored")
	return nil, nil, wResult{}, false
}

func (c *wCtx) defaultEnabled(m *wModel, o wOp) bool {
	switch o.K {
	case oNext, oRemark, oExport, oDelete, oGen:
		return m.Ks[o.S] != nil
	case oImport:
		return m.Files[o.Slot] != nil
	case oLock:
		return m.Unlocked
	}
	return true
}

func (c *wCtx) enabledOps(m *wModel) []int {
	var out []int
	for i, o := range c.ops {
		if !c.defaultEnabled(m, o) {
			continue
		}
		if c.enabled != nil && !c.enabled(m, o) {
			continue
		}
		out = append(out, i)
	}
	return out
}

// explore runs the BFS and fills the common evidence keys.
func (c *wCtx) explore(depth int) seqx.Result {
	init := wNewModel()
	spec := seqx.Spec{
		Depth:   depth - 1,
		InitKey: init.key() + " #fresh",
		InitOps: c.enabledOps(init),
		Stop:    c.r.Expired,
		Try: func(hist []int, op int) (key string, ops []int, expand bool) {
			defer func() {
				if e := recover(); e != nil {
					buf := make([]byte, 8192)
					buf = buf[:runtime.Stack(buf, false)]
					site := vk.PanicSite(string(buf))
					c.viol("panic", site, fmt.Sprintf("panic: %v (%s)", e, site), c.histOps(hist, op))
					key, ops, expand = "", nil, false
				}
			}()
			in, m, res, ok := c.run(hist, op)
			c.r.Eval(1)
			if in == nil {
				return "", nil, false
			}
			defer in.close()
			if !ok {
				return "", nil, false
			}
			key = m.key() + " #" + in.hiddenFP()
			all := c.histOps(hist, op)
			if c.tail != nil {
				if !c.tail(c, in, m, all, res) {
					return "", nil, false
				}
			}
			return key, c.enabledOps(m), true
		},
	}
	res := seqx.Explore(spec)
	if !res.Complete {
		c.r.Cap("deadline hit before the search completed")
	}
	return res
}

func (c *wCtx) finishEvidence(res seqx.Result, depth int) {
	c.r.Set("states", res.States)
	c.r.Set("transitions", res.Transitions)
	c.r.Set("history_depth", depth)
	c.r.Set("new_states_per_level", res.PerLevel)
	c.r.Set("ops_succeeded", c.okOps)
	c.r.Set("ops_refused_as_expected", c.failedOps)
	c.r.Set("genkey_replay_retries", c.retries)
	kinds := map[string]int{}
	for k, n := range c.kindSeen {
		kinds[wKindName[k]] = n
	}
	c.r.Set("last_op_kinds", kinds)
	var names []string
	for _, o := range c.ops {
		names = append(names, o.String())
	}
	sort.Strings(names)
	c.r.Set("alphabet", names)
	c.r.DistinctN(res.States)
}
