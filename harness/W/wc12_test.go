//go:build go1.21

package keystore

// C12 — wallet operations are atomic under crashes and storage errors.
// For every (state, mutating operation) pair reached by the BFS, the operation
// is re-executed once per storage event (every bucket write and every commit)
// and fault kind (failed write, failed commit, crash before, crash after).

import (
	"fmt"
	"sync/atomic"
	"testing"

	"massnet.org/mass/zz_verif/faultdb"
	"massnet.org/mass/zz_verif/vk"
)

// modelOf replays the reference only.
func wModelOf(ops []wOp) *wModel {
	m := wNewModel()
	for _, o := range ops {
		o = wResolve(m, o)
		if m.expect(o) {
			m.apply(o)
		} else if o.K == oRestart {
			m.Unlocked = false
		}
	}
	return m
}

// build replays ops on a fresh fault-capable instance (no oracle: the prefix
// was checked when it was itself the explored history).
func (c *wCtx) build(ops []wOp) (*wInst, *wModel, bool) {
	in, err := wOpenF(wQ0, false, nil, true)
	if err != nil {
		vk.Fatalf("open: %v", err)
	}
	m := wNewModel()
	for i, o := range ops {
		if _, ok, _ := c.step(in, m, o, ops[:i+1], false); !ok {
			in.close()
			return nil, nil, false
		}
	}
	return in, m, true
}

func TestVerifC12(t *testing.T) {
	r := vk.Start("C12", "fault_enumeration")
	c := &wCtx{r: r, prop: "C12", obs: newWObs()}
	c.ops = []wOp{
		{K: oNew, S: 0, P: wCur, P2: -1, R: "r0"}, {K: oNew, S: 1, P: wCur, P2: -1},
		{K: oNext, S: 0, N: 2, P2: -1}, {K: oNext, S: 0, N: 1, Internal: true, P2: -1}, {K: oGen, S: 0, P2: -1},
		{K: oRemark, S: 0, R: "r2", P2: -1}, {K: oRemark, S: 0, R: "", P2: -1},
		{K: oChPriv, P: wCur, P2: wWrong}, {K: oChPub, P: wCurPub, P2: wWrongPub},
		{K: oUnlock, P: wCur, P2: -1},
		{K: oExport, S: 0, P: wCur, P2: -1, Slot: 0}, {K: oDelete, S: 0, P: wCur, P2: -1}, {K: oImport, Slot: 0, P: wCur, P2: -1},
		{K: oRestart, P: wCurPub, P2: -1},
	}
	mutating := map[wKind]bool{oNew: true, oNext: true, oGen: true, oRemark: true, oChPriv: true, oChPub: true, oDelete: true, oImport: true, oRestart: true}
	kinds := []faultdb.Kind{faultdb.FailWrite, faultdb.CrashBefore, faultdb.CrashAfter}
	var cases, fired, crashes, swallowed, eventsTotal int64
	distinct := map[string]bool{}

	c.tail = func(c *wCtx, in0 *wInst, after *wModel, hist []wOp, res wResult) bool {
		op := hist[len(hist)-1]
		prefix := hist[:len(hist)-1]
		if !mutating[op.K] || !res.ok {
			return true
		}
		before := wModelOf(prefix)
		opR := wResolve(before, op)
		// dry run: count the events of the operation
		in, m, ok := c.build(prefix)
		if !ok {
			return true
		}
		in.fdb.Arm(0, faultdb.None)
		c.step(in, m, op, hist, false)
		events := in.fdb.Events()
		in.close()
		atomic.AddInt64(&eventsTotal, int64(len(events)))
		site := func(ev faultdb.Event, k faultdb.Kind) string {
			kn := k.String()
			if ev.Commit && k == faultdb.FailWrite {
				kn = "failCommit"
			}
			return fmt.Sprintf("%s:%s@%s", wKindName[op.K], kn, ev.Op)
		}
		for _, ev := range events {
			for _, kind := range kinds {
				atomic.AddInt64(&cases, 1)
				in, _, ok := c.build(prefix)
				if !ok {
					continue
				}
				in.fdb.Arm(ev.N, kind)
				var r2 wResult
				var crashed bool
				func() {
					defer func() {
						if e := recover(); e != nil {
							if _, isCrash := e.(faultdb.Crash); isCrash {
								crashed = true
								return
							}
							panic(e)
						}
					}()
					r2 = in.apply(opR, c.obs)
				}()
				if !in.fdb.Fired() {
					in.close()
					continue
				}
				atomic.AddInt64(&fired, 1)
				st := site(ev, kind)
				c.mu.Lock()
				distinct[fmt.Sprintf("%s|%s|%d|%s", before.key(), op, ev.N, kind)] = true
				c.mu.Unlock()
				note := fmt.Sprintf("fault %s at event %d (%s) of %s", kind, ev.N, ev.Op, op)
				fail := func(clause, msg string) bool {
					c.r.Violation("C12/"+clause+"/"+st, fmt.Sprintf("%s: %s; history %v", note, msg, c.rp(hist, "").Text), map[string]interface{}{"ops": hist, "event": ev.N, "event_op": ev.Op, "kind": kind.String()})
					in.close()
					return false
				}
				if crashed {
					atomic.AddInt64(&crashes, 1)
					in.fdb.Abandon()
					want := before
					if kind == faultdb.CrashAfter && ev.Commit {
						want = after
					}
					mm := *want
					mm.Unlocked = false
					in.fdb.Disarm()
					if err := in.restart(want.Pub); err != nil {
						return fail("wallet-does-not-open-after-crash", err.Error())
					}
					s, e := in.snapshot()
					if e == "" {
						e = s.matchModel(&mm, c.obs)
					}
					if e != "" {
						other := after
						if want == after {
							other = before
						}
						return fail("partial-state-after-crash", fmt.Sprintf("reopened wallet is neither complete nor untouched as required (expected %s): %s [other candidate: %s]", want.key(), e, other.key()))
					}
					// passphrase behaviour is part of the state: the expected private passphrase unlocks every keystore
					if len(want.Ks) > 0 {
						if err := in.km.Unlock([]byte(wPass[want.Priv])); err != nil {
							return fail("partial-state-after-crash", fmt.Sprintf("after the crash the wallet does not unlock with the private passphrase of the expected state (%s): %v", want.key(), err))
						}
						if !wAllUnlocked(in) {
							return fail("partial-state-after-crash", "after the crash not every keystore unlocks")
						}
						mm.Unlocked = true
						if cl, _, msg := wSignAll(c, in, &mm, false); msg != "" {
							return fail("partial-state-after-crash", cl+": "+msg)
						}
					}
					in.close()
					continue
				}
				// process continued
				in.fdb.Disarm()
				if op.K == oRestart {
					// the open itself failed (or swallowed the error); a later proper open must show the prior state
					if r2.ok {
						atomic.AddInt64(&swallowed, 1)
					}
					if err := in.restart(before.Pub); err != nil {
						return fail("wallet-does-not-open-after-failed-open", err.Error())
					}
					mm := *before
					mm.Unlocked = false
					s, e := in.snapshot()
					if e == "" {
						e = s.matchModel(&mm, c.obs)
					}
					if e != "" {
						return fail("state-differs-after-failed-open", e)
					}
					in.close()
					continue
				}
				want := before
				clause := "running-state-differs-after-reported-error"
				if r2.ok {
					// the fault was swallowed and the operation acknowledged: the complete effect must be there, now and after restart
					atomic.AddInt64(&swallowed, 1)
					want = after
					clause = "ack-without-effect"
				}
				s, e := in.snapshot()
				if e == "" {
					e = s.matchModel(want, c.obs)
				}
				if e != "" {
					return fail(clause, "running instance: "+e)
				}
				if in.km.IsLocked() == want.Unlocked {
					return fail(clause, "lock state changed")
				}
				// passphrase behaviour is part of the state: the governing private passphrase still works
				if len(want.Ks) > 0 {
					pw := []byte(wPass[want.Priv])
					if !want.Unlocked {
						if err := in.km.Unlock(pw); err != nil {
							return fail(clause, "the private passphrase of the expected state no longer unlocks: "+err.Error())
						}
						in.km.Lock()
					} else {
						for seed := range want.Ks {
							if _, err := in.km.ExportKeystore(c.obs.idOf(seed), pw); err != nil {
								return fail(clause, "the private passphrase of the expected state is no longer accepted: "+err.Error())
							}
						}
						if cl, _, msg := wSignAll(c, in, want, false); msg != "" {
							return fail(clause, cl+": "+msg)
						}
					}
				}
				// a follow-up keystore creation must land in a store that opens with the expected public passphrase
				if want.Ks[3] == nil {
					pi := want.Priv
					if pi < 0 {
						pi = wP0
					}
					id, err := in.km.NewKeystore([]byte(wPass[pi]), wSeed(3), "", in.km.params, wFast)
					if err != nil {
						return fail("unusable-after-error", "NewKeystore after the fault: "+err.Error())
					}
					c.obs.checkID(3, id)
					w2 := *want
					w2.Ks = map[int]*wKs{3: {}}
					for s2, kk := range want.Ks {
						w2.Ks[s2] = kk
					}
					w2.Priv = pi
					want = &w2
				}
				// still usable: a follow-up address request behaves per reference
				for seed, k := range want.Ks {
					mas, err := in.km.NextAddresses(c.obs.idOf(seed), false, 1)
					if err != nil || len(mas) != 1 || mas[0].derivationPath.Index != k.Next[0] {
						return fail("unusable-after-error", fmt.Sprintf("NextAddresses after the fault: %v", err))
					}
					k2 := *k
					k2.Next[0]++
					w2 := *want
					w2.Ks = map[int]*wKs{}
					for s2, kk := range want.Ks {
						w2.Ks[s2] = kk
					}
					w2.Ks[seed] = &k2
					want = &w2
					break
				}
				if err := in.restart(want.Pub); err != nil {
					return fail("wallet-does-not-open-after-error", err.Error())
				}
				mm := *want
				mm.Unlocked = false
				s, e = in.snapshot()
				if e == "" {
					e = s.matchModel(&mm, c.obs)
				}
				if e != "" {
					if r2.ok {
						return fail("ack-without-effect", "after restart: "+e)
					}
					return fail("restart-differs-after-reported-error", e)
				}
				in.close()
			}
		}
		return true
	}
	wRunPropX(c, vk.Pick(r, 4, 5), func() {
		r.Set("fault_cases", cases)
		r.Set("fault_cases_fired", fired)
		r.Set("crash_cases", crashes)
		r.Set("faults_swallowed_by_the_operation", swallowed)
		r.Set("storage_events_in_explored_operations", eventsTotal)
		r.DistinctN(len(distinct))
		r.Sample(map[string]interface{}{"history": []string{"New(seed0,cur,\"r0\")", "Delete(ks0,cur)"}, "fault": "failWrite at event 1 (Clear)", "oracle": "operation reported success => keystore must be gone now and after restart"})
	},
		"for every (reached wallet state, mutating operation) pair up to the history depth, a dry run counts the operation's storage events (each bucket Put/Delete/Clear/NewBucket/DeleteBucket/CreateTopLevelBucket and each Commit); the operation is then re-executed from a fresh replay once per event and fault kind (failed write or failed commit, crash before the event, crash after it); crash: the open transaction is abandoned, the store reopened, the wallet must open and equal the reference before the operation (after it only for a crash after the commit); reported error: running instance and reopened wallet equal the prior state and stay usable; swallowed fault with success reported: complete effect now and after restart; distinct_nontrivial = distinct (state, op, event, kind) cases that fired (plus distinct states)")
}
