//go:build go1.21

package keystore

// C14 (and the concurrent part of C06) — the wallet API under concurrent use.
// (i) all interleavings of 2-3 goroutines at transaction boundaries (faultdb
//     gates + quiescence scheduler), each complete schedule checked for
//     linearizability against the sequential reference by brute force;
// (ii) the same scenario bodies free-running under the race detector.

import (
	"bytes"
	"fmt"
	"massnet.org/mass/zz_verif/vsync"
	"os"
	"os/exec"
	"regexp"
	"runtime"
	"sort"
	"strconv"
	"strings"
	"sync"
	"testing"
	"time"

	"massnet.org/mass/zz_verif/qsched"
	"massnet.org/mass/zz_verif/vk"
)

type c14Scenario struct {
	Name    string  `json:"name"`
	Setup   []wOp   `json:"setup"`   // sequential prefix
	Threads [][]wOp `json:"threads"` // concurrent programs
}

func c14Gid() string {
	var buf [64]byte
	n := runtime.Stack(buf[:], false)
	f := strings.Fields(string(buf[:n]))
	if len(f) >= 2 {
		return f[1]
	}
	return "?"
}

type c14Call struct {
	Thread, Index int
	Op            wOp
	Start, End    int // logical clock at invocation / response (End=-1 pending)
	Res           wResult
	Panic         string
}

type c14Exec struct {
	in      *wInst
	s       *qsched.Sched
	obs     *wObs
	gids    sync.Map // goroutine id -> op label
	calls   []*c14Call
	ops     []*qsched.Op
	next    []int // next op index per thread
	running []int // index into calls of the running op per thread (-1 none)
	clock   int
	m0      *wModel // model after setup
}

func c14Label(t, i int) string { return fmt.Sprintf("T%d.%d", t, i) }

func c14New(sc c14Scenario, obs *wObs) *c14Exec {
	in, err := wOpenF(wQ0, false, nil, true)
	if err != nil {
		vk.Fatalf("open: %v", err)
	}
	e := &c14Exec{in: in, s: qsched.New(), obs: obs}
	c := &wCtx{obs: obs, prop: "C14"}
	m := wNewModel()
	for i, o := range sc.Setup {
		if _, ok, _ := c.step(in, m, o, sc.Setup[:i+1], false); !ok {
			vk.Fatalf("C14 setup step %s failed", o)
		}
	}
	e.m0 = m
	for range sc.Threads {
		e.next = append(e.next, 0)
		e.running = append(e.running, -1)
	}
	in.fdb.Gate = func(point string) {
		if point != "BeginTx" && point != "Commit" && point != "BeginReadTx" {
			return
		}
		if l, ok := e.gids.Load(c14Gid()); ok {
			e.s.Gate(l.(string) + ":" + point)
		}
	}
	return e
}

func (e *c14Exec) quiesce() {
	if _, ok := e.s.Quiesce(20 * time.Second); !ok {
		vk.Fatalf("C14: no quiescence; goroutines:\n%s", e.s.LastDump)
	}
	// responses
	for t, ci := range e.running {
		if ci >= 0 && e.ops[ci].Done() {
			e.clock++
			e.calls[ci].End = e.clock
			e.calls[ci].Panic = e.ops[ci].Pan
			if r, ok := e.ops[ci].Val.(wResult); ok {
				e.calls[ci].Res = r
			}
			e.running[t] = -1
		}
	}
}

type c14Action struct {
	Start int // thread to start (-1: release)
	Gate  string
}

func (a c14Action) String() string {
	if a.Start >= 0 {
		return fmt.Sprintf("start:T%d", a.Start)
	}
	return "release:" + a.Gate
}

func (e *c14Exec) enabled(sc c14Scenario) []c14Action {
	var out []c14Action
	for t := range sc.Threads {
		if e.running[t] < 0 && e.next[t] < len(sc.Threads[t]) {
			out = append(out, c14Action{Start: t})
		}
	}
	seen := map[string]bool{}
	for _, g := range e.s.Parked() {
		if !seen[g] {
			seen[g] = true
			out = append(out, c14Action{Start: -1, Gate: g})
		}
	}
	return out
}

func (e *c14Exec) do(sc c14Scenario, a c14Action) {
	if a.Start >= 0 {
		t := a.Start
		i := e.next[t]
		e.next[t]++
		o := wResolve(e.m0, sc.Threads[t][i])
		e.clock++
		call := &c14Call{Thread: t, Index: i, Op: o, Start: e.clock, End: -1}
		e.calls = append(e.calls, call)
		label := c14Label(t, i)
		in, obs := e.in, e.obs
		op := e.s.Start(label, func() (interface{}, error) {
			e.gids.Store(c14Gid(), label)
			defer e.gids.Delete(c14Gid())
			return c14Apply(in, o, obs), nil
		})
		e.ops = append(e.ops, op)
		e.running[t] = len(e.calls) - 1
	} else {
		e.s.Release(a.Gate)
	}
	e.quiesce()
}

// c14Apply: the wallet call, plus read-only calls that are not part of wOp.
const (
	oIsLocked wKind = 100 + iota
	oSign
	oList
	oOrdinal
)

func c14Apply(in *wInst, o wOp, obs *wObs) wResult {
	switch o.K {
	case oIsLocked:
		return wResult{ok: in.km.IsLocked()}
	case oSign:
		pk := wParsePub(obs.key(o.S, 0, 0))
		sig, err := in.km.SignHash(pk, wDigests[0])
		if err == nil && !sig.Verify(wDigests[0], pk) {
			return wResult{ok: false, err: fmt.Errorf("bad signature")}
		}
		return wResult{ok: err == nil, err: err}
	case oList:
		n := in.km.ListKeystoreNames()
		sort.Strings(n)
		return wResult{ok: true, id: strings.Join(n, ",")}
	case oOrdinal:
		ord, ok := in.km.GetPublicKeyOrdinal(wParsePub(obs.key(o.S, 0, 0)))
		return wResult{ok: ok, idx: []uint32{ord}}
	case oGen:
		// free choice of the keystore (no map manipulation under concurrency)
		pk, idx, err := in.km.GenerateNewPublicKey()
		r := wResult{ok: err == nil, err: err, picked: -1}
		if err == nil {
			r.keys = []string{wPub(pk)}
			r.idx = []uint32{idx}
		}
		return r
	}
	return in.apply(o, obs)
}

func c14OpString(o wOp) string {
	switch o.K {
	case oIsLocked:
		return "IsLocked()"
	case oSign:
		return fmt.Sprintf("Sign(ks%d key0)", o.S)
	case oList:
		return "List()"
	case oOrdinal:
		return fmt.Sprintf("Ordinal(ks%d key0)", o.S)
	}
	return o.String()
}

// ---------------------------------------------------------------- sequential specification

// c14SpecStep applies one call with its observed result to the model; false = this
// order cannot explain the observation.
func c14SpecStep(m *wModel, c *c14Call, obs *wObs, ids map[int]string) bool {
	o := c.Op
	switch o.K {
	case oIsLocked:
		return c.Res.ok == !m.Unlocked
	case oSign:
		k := m.Ks[o.S]
		want := m.Unlocked && k != nil && k.Next[0] > 0
		return c.Res.ok == want
	case oList:
		var n []string
		for s := range m.Ks {
			n = append(n, ids[s])
		}
		sort.Strings(n)
		return c.Res.id == strings.Join(n, ",")
	case oOrdinal:
		k := m.Ks[o.S]
		want := k != nil && k.Next[0] > 0
		return c.Res.ok == want && (!want || c.Res.idx[0] == 0)
	case oGen:
		if len(m.Ks) == 0 {
			return !c.Res.ok
		}
		if !c.Res.ok {
			return false
		}
		// the keystore that owns the returned key was resolved after the run (picked); if it is
		// unknown (e.g. the keystore was deleted meanwhile) any keystore whose next ordinal fits is accepted
		for s, k := range m.Ks {
			if c.Res.picked >= 0 && s != c.Res.picked {
				continue
			}
			if c.Res.idx[0] != k.Next[0] {
				continue
			}
			if known := obs.key(s, 0, k.Next[0]); known != "" && known != c.Res.keys[0] {
				continue
			}
			m.apply(wOp{K: oGen, S: s})
			return true
		}
		return false
	}
	want := m.expect(o)
	if o.K == oUnlock && m.Unlocked && want {
		want = c.Res.ok
	}
	if c.Res.ok != want {
		return false
	}
	if !c.Res.ok {
		return true
	}
	if o.K == oNext {
		b := 0
		if o.Internal {
			b = 1
		}
		if len(c.Res.idx) != o.N || c.Res.idx[0] != m.Ks[o.S].Next[b] {
			return false
		}
	}
	m.apply(o)
	return true
}

func c14CloneModel(m *wModel) *wModel {
	c := *m
	c.Ks = map[int]*wKs{}
	for s, k := range m.Ks {
		kk := *k
		c.Ks[s] = &kk
	}
	c.Issued = map[int]map[string]bool{}
	for s, is := range m.Issued {
		c.Issued[s] = map[string]bool{}
		for k, v := range is {
			c.Issued[s][k] = v
		}
	}
	c.PrevPriv = map[int]bool{}
	for k, v := range m.PrevPriv {
		c.PrevPriv[k] = v
	}
	return &c
}

// c14Linearize searches an order of the completed calls that respects real time and
// explains every result; returns the final model of a witness.
func c14Linearize(m0 *wModel, calls []*c14Call, obs *wObs, ids map[int]string) (*wModel, bool) {
	n := len(calls)
	used := make([]bool, n)
	var rec func(m *wModel, done int) (*wModel, bool)
	rec = func(m *wModel, done int) (*wModel, bool) {
		if done == n {
			return m, true
		}
		for i, c := range calls {
			if used[i] {
				continue
			}
			// real-time order: c may come next only if no unused call finished before c started
			ok := true
			for j, d := range calls {
				if !used[j] && j != i && d.End >= 0 && d.End < c.Start {
					ok = false
					break
				}
			}
			if !ok {
				continue
			}
			mm := c14CloneModel(m)
			if !c14SpecStep(mm, c, obs, ids) {
				continue
			}
			used[i] = true
			if fm, ok := rec(mm, done+1); ok {
				return fm, true
			}
			used[i] = false
		}
		return nil, false
	}
	return rec(c14CloneModel(m0), 0)
}

// ---------------------------------------------------------------- scenarios

func c14Scenarios(r *vk.Run) []c14Scenario {
	new0 := wOp{K: oNew, S: 0, P: wCur, P2: -1}
	new1 := wOp{K: oNew, S: 1, P: wCur, P2: -1}
	key0 := wOp{K: oNext, S: 0, N: 1, P2: -1}
	gen := wOp{K: oGen, S: 0, P2: -1}
	next := wOp{K: oNext, S: 0, N: 1, P2: -1}
	nextInt := wOp{K: oNext, S: 0, N: 1, Internal: true, P2: -1}
	unlock := wOp{K: oUnlock, P: wCur, P2: -1}
	lock := wOp{K: oLock, P2: -1}
	isLocked := wOp{K: oIsLocked, P2: -1}
	sign := wOp{K: oSign, S: 0, P2: -1}
	list := wOp{K: oList, P2: -1}
	ord := wOp{K: oOrdinal, S: 0, P2: -1}
	del0 := wOp{K: oDelete, S: 0, P: wCur, P2: -1}
	remark := wOp{K: oRemark, S: 0, R: "r2", P2: -1}
	export := wOp{K: oExport, S: 0, P: wCur, P2: -1, Slot: 0}
	base := []wOp{new0, key0}
	scs := []c14Scenario{
		{Name: "gen-gen", Setup: base, Threads: [][]wOp{{gen}, {gen}}},
		{Name: "gen-next", Setup: base, Threads: [][]wOp{{gen}, {next}}},
		{Name: "gen-nextint", Setup: base, Threads: [][]wOp{{gen}, {nextInt}}},
		{Name: "gen-delete", Setup: base, Threads: [][]wOp{{gen}, {del0}}},
		{Name: "gen-new", Setup: base, Threads: [][]wOp{{gen}, {new1}}},
		{Name: "gen-lock", Setup: append(append([]wOp{}, base...), unlock), Threads: [][]wOp{{gen}, {lock}}},
		{Name: "gen-list-ord", Setup: base, Threads: [][]wOp{{gen}, {list, ord}}},
		{Name: "islocked-unlock", Setup: base, Threads: [][]wOp{{isLocked}, {unlock}}},
		{Name: "islocked-lock", Setup: append(append([]wOp{}, base...), unlock), Threads: [][]wOp{{isLocked}, {lock}}},
		{Name: "sign-lock", Setup: append(append([]wOp{}, base...), unlock), Threads: [][]wOp{{sign}, {lock}}},
		{Name: "sign-gen", Setup: append(append([]wOp{}, base...), unlock), Threads: [][]wOp{{sign}, {gen}}},
		{Name: "next-next", Setup: base, Threads: [][]wOp{{next}, {next}}},
		{Name: "next-remark-export", Setup: base, Threads: [][]wOp{{next}, {remark, export}}},
		{Name: "gen-gen-2ks", Setup: []wOp{new0, new1, key0}, Threads: [][]wOp{{gen}, {gen}}},
		{Name: "gen2-gen", Setup: base, Threads: [][]wOp{{gen, gen}, {gen}}},
		{Name: "three-gen-gen-next", Setup: base, Threads: [][]wOp{{gen}, {gen}, {next}}},
		{Name: "three-gen-lock-sign", Setup: append(append([]wOp{}, base...), unlock), Threads: [][]wOp{{gen}, {lock}, {sign}}},
	}
	// all unordered pairs over the operation alphabet, on a locked and on an unlocked wallet
	chpriv := wOp{K: oChPriv, P: wCur, P2: wWrong}
	alpha := []struct {
		n string
		o wOp
	}{{"gen", gen}, {"next", next}, {"sign", sign}, {"list", list}, {"ord", ord}, {"remark", remark}, {"export", export},
		{"lock", lock}, {"unlock", unlock}, {"islocked", isLocked}, {"chpriv", chpriv}, {"new1", new1}, {"delete0", del0}}
	have := map[string]bool{}
	for _, sc := range scs {
		have[sc.Name] = true
	}
	for i := range alpha {
		for j := i; j < len(alpha); j++ {
			for _, st := range []string{"locked", "unlocked"} {
				if r.Quick() && st == "unlocked" && (i+j)%2 == 1 {
					continue // quick: half of the unlocked pairs
				}
				setup := base
				if st == "unlocked" {
					setup = append(append([]wOp{}, base...), unlock)
				}
				name := fmt.Sprintf("pair-%s-%s-%s", alpha[i].n, alpha[j].n, st)
				scs = append(scs, c14Scenario{Name: name, Setup: setup, Threads: [][]wOp{{alpha[i].o}, {alpha[j].o}}})
			}
		}
	}
	if r.Thorough() {
		scs = append(scs,
			c14Scenario{Name: "four-gen-gen-next-list", Setup: base, Threads: [][]wOp{{gen}, {gen}, {next}, {list}}},
			c14Scenario{Name: "gen-delete-new", Setup: base, Threads: [][]wOp{{gen}, {del0, new1}}},
			c14Scenario{Name: "gen2-next2", Setup: base, Threads: [][]wOp{{gen, gen}, {next, nextInt}}},
		)
	}
	return scs
}

// ---------------------------------------------------------------- exploration

type c14Replay struct {
	Scenario c14Scenario `json:"scenario"`
	Schedule []string    `json:"schedule"`
}

type c14Stats struct {
	schedules, nonSerial, actions int64
	outcomes                      map[string]bool
}

// c14Explore: stateless DFS over all action choices (complete schedules).
func c14Explore(r *vk.Run, sc c14Scenario, maxSchedules int, st *c14Stats) {
	obs := newWObs()
	var dfs func(prefix []string)
	count := 0
	capped := false
	runPrefix := func(prefix []string) (*c14Exec, []c14Action) {
		e := c14New(sc, obs)
		for _, name := range prefix {
			var act *c14Action
			for _, a := range e.enabled(sc) {
				if a.String() == name {
					aa := a
					act = &aa
				}
			}
			if act == nil {
				vk.Fatalf("C14 replay divergence in %s: %s not enabled after %v", sc.Name, name, prefix)
			}
			e.do(sc, *act)
		}
		return e, e.enabled(sc)
	}
	finish := func(e *c14Exec, sched []string) {
		count++
		st.schedules++
		r.Eval(1)
		rp := c14Replay{sc, sched}
		ids := map[int]string{}
		for s := 0; s < 3; s++ {
			ids[s] = obs.idOf(s)
		}
		var descr []string
		for _, c := range e.calls {
			descr = append(descr, fmt.Sprintf("T%d:%s=>ok=%v idx=%v [%d,%d]", c.Thread, c14OpString(c.Op), c.Res.ok, c.Res.idx, c.Start, c.End))
			if c.Panic != "" {
				site := vk.PanicSite(c.Panic)
				r.Violation("C14/panic/"+site+"/"+wKindNameX(c.Op.K), fmt.Sprintf("panic in %s running concurrently in scenario %s: %s", c14OpString(c.Op), sc.Name, c.Panic[:min(len(c.Panic), 240)]), rp)
				return
			}
			if c.End < 0 {
				r.Violation("C14/call-never-returns/"+wKindNameX(c.Op.K), fmt.Sprintf("%s did not return in scenario %s schedule %v", c14OpString(c.Op), sc.Name, sched), rp)
				return
			}
		}
		for _, c := range e.calls {
			if (c.Op.K == oNew || c.Op.K == oImport) && c.Res.ok && c.Res.id != "" {
				seed := c.Op.S
				if c.Op.K == oImport {
					seed = e.m0.Files[c.Op.Slot].Seed
				}
				if es := obs.checkID(seed, c.Res.id); es != "" {
					r.Violation("C14/identity/"+c14Pair(e.calls), es, rp)
					return
				}
				ids[seed] = c.Res.id
			}
		}
		// resolve which keystore owns each key returned by GenerateNewPublicKey
		if snapNow, es := e.in.snapshot(); es == "" {
			for _, c := range e.calls {
				if c.Op.K == oGen && c.Res.ok {
					c.Res.picked = -1
					for id, ks := range snapNow {
						for _, pk := range ks.Addrs {
							if pk == c.Res.keys[0] {
								c.Res.picked = obs.seedOf(id)
							}
						}
					}
				}
			}
		}
		// C06 (concurrent part): keys returned by concurrent issuance are pairwise distinct
		seenKeys := map[string]bool{}
		for _, c := range e.calls {
			if (c.Op.K == oGen || c.Op.K == oNext) && c.Res.ok {
				for _, k := range c.Res.keys {
					if seenKeys[k] {
						r.Violation("C14/duplicate-key-issued/"+c14Pair(e.calls), fmt.Sprintf("the same public key was returned to two concurrent requests in scenario %s: %v", sc.Name, descr), rp)
						return
					}
					seenKeys[k] = true
				}
			}
		}
		fm, ok := c14Linearize(e.m0, e.calls, obs, ids)
		if !ok {
			pair := c14Pair(e.calls)
			r.Violation("C14/not-linearizable/"+pair, fmt.Sprintf("no sequential order consistent with real time explains the results in scenario %s: %v (schedule %v)", sc.Name, descr, sched), rp)
			return
		}
		// final state: running instance and reopened store equal the witness's final model
		e.in.fdb.Gate = nil
		snap, es := e.in.snapshot()
		if es == "" {
			es = snap.matchModel(fm, obs)
		}
		if es != "" {
			r.Violation("C14/final-state/"+c14Pair(e.calls), fmt.Sprintf("running wallet after the schedule differs from the state of every explaining order: %s (scenario %s, %v)", es, sc.Name, descr), rp)
			return
		}
		if err := e.in.restart(fm.Pub); err != nil {
			r.Violation("C14/reopen-failed/"+c14Pair(e.calls), err.Error(), rp)
			return
		}
		mm := *fm
		mm.Unlocked = false
		snap, es = e.in.snapshot()
		if es == "" {
			es = snap.matchModel(&mm, obs)
		}
		if es != "" {
			r.Violation("C14/final-state-after-restart/"+c14Pair(e.calls), fmt.Sprintf("reopened wallet differs: %s (scenario %s, %v)", es, sc.Name, descr), rp)
			return
		}
		st.outcomes[sc.Name+": "+strings.Join(descr, " | ")[:min(200, len(strings.Join(descr, " | ")))]] = true
	}
	dfs = func(prefix []string) {
		if capped || r.Expired() {
			capped = true
			return
		}
		e, en := runPrefix(prefix)
		// follow the first enabled action to the end, remembering alternatives
		sched := append([]string{}, prefix...)
		type branch struct {
			at   int
			alts []string
		}
		var branches []branch
		for len(en) > 0 {
			if len(en) > 1 {
				var alts []string
				for _, a := range en[1:] {
					alts = append(alts, a.String())
				}
				branches = append(branches, branch{len(sched), alts})
			}
			e.do(sc, en[0])
			st.actions++
			sched = append(sched, en[0].String())
			en = e.enabled(sc)
			if len(sched) > 200 {
				vk.Fatalf("C14: schedule longer than 200 actions in %s", sc.Name)
			}
		}
		finish(e, sched)
		e.s.Deactivate()
		e.in.close()
		if count >= maxSchedules {
			capped = true
			return
		}
		for i := len(branches) - 1; i >= 0; i-- {
			b := branches[i]
			for _, alt := range b.alts {
				dfs(append(append([]string{}, sched[:b.at]...), alt))
			}
		}
	}
	dfs(nil)
	if capped {
		r.Cap(fmt.Sprintf("scenario %s: stopped after %d schedules", sc.Name, count))
	}
}

func wKindNameX(k wKind) string {
	switch k {
	case oIsLocked:
		return "IsLocked"
	case oSign:
		return "Sign"
	case oList:
		return "List"
	case oOrdinal:
		return "Ordinal"
	}
	return wKindName[k]
}

func c14Pair(calls []*c14Call) string {
	set := map[string]bool{}
	for _, c := range calls {
		set[wKindNameX(c.Op.K)] = true
	}
	var n []string
	for k := range set {
		n = append(n, k)
	}
	sort.Strings(n)
	return strings.Join(n, "+")
}

// ---------------------------------------------------------------- race pass

var c14RaceFn = regexp.MustCompile(`massnet\.org/mass/poc/wallet/keystore\.\(?\*?([A-Za-z]+)\)?\.([A-Za-z]+)\(\)`)

// c14RaceBody runs one scenario free (no scheduler): called in the -race binary.
// c14RaceBody runs the scenario's threads free under the race detector. The detector judges by happens-before
// order, and the wallet's two mutex levels (manager, keystore) order most pairs of accesses in most runs, so the
// runs are not left to chance: besides staggered starts, ONE delay is injected per run before the k-th lock
// acquisition of one thread - for every thread and every k that an undisturbed run of the scenario performs
// (delay-bounded schedule enumeration, bound 1; the lock acquisitions are seen through the vsync shim).
func c14RaceBody(sc c14Scenario, reps int) {
	obs := newWObs()
	n := len(sc.Threads)
	type plan struct {
		thread, k int
		d         time.Duration
		leader    int
		head      time.Duration
	}
	var plans []plan
	plans = append(plans, plan{thread: -1, leader: -1}) // undisturbed: counts the lock acquisitions per thread
	var counts []int
	var mu sync.Mutex
	threadOf := map[string]int{}
	var cur plan
	vsync.SetHook(func(kind string) {
		id := c14Goid()
		mu.Lock()
		th, ok := threadOf[id]
		var k int
		if ok {
			k = counts[th]
			counts[th]++
		}
		p := cur
		mu.Unlock()
		if ok && th == p.thread && k == p.k {
			time.Sleep(p.d)
		}
	})
	defer vsync.SetHook(nil)
	for rep := 0; rep < len(plans); rep++ {
		in, err := wOpenF(wQ0, false, nil, false)
		if err != nil {
			vk.Fatalf("open: %v", err)
		}
		c := &wCtx{obs: obs, prop: "C14"}
		m := wNewModel()
		for i, o := range sc.Setup {
			c.step(in, m, o, sc.Setup[:i+1], false)
		}
		mu.Lock()
		cur = plans[rep]
		counts = make([]int, n)
		threadOf = map[string]int{}
		mu.Unlock()
		var wg sync.WaitGroup
		start := make(chan struct{})
		for ti, prog := range sc.Threads {
			wg.Add(1)
			go func(ti int, prog []wOp) {
				defer wg.Done()
				defer func() { recover() }()
				id := c14Goid()
				<-start
				if cur.leader >= 0 && ti != cur.leader {
					time.Sleep(cur.head)
				}
				mu.Lock()
				threadOf[id] = ti
				mu.Unlock()
				for _, o := range prog {
					c14Apply(in, wResolve(m, o), obs)
				}
				mu.Lock()
				delete(threadOf, id)
				mu.Unlock()
			}(ti, prog)
		}
		close(start)
		wg.Wait()
		in.close()
		if rep == 0 {
			// the enumeration: every (thread, k-th lock acquisition) x two delays, then every head start
			mu.Lock()
			for t := 0; t < n; t++ {
				for k := 0; k < counts[t] && k < 24; k++ {
					for _, d := range []time.Duration{2 * time.Millisecond, 12 * time.Millisecond} {
						plans = append(plans, plan{thread: t, k: k, d: d, leader: -1})
					}
				}
			}
			mu.Unlock()
			for t := 0; t < n; t++ {
				for _, h := range []time.Duration{100 * time.Microsecond, time.Millisecond, 5 * time.Millisecond} {
					plans = append(plans, plan{thread: -1, leader: t, head: h})
				}
			}
			for i := 0; i < 4; i++ {
				plans = append(plans, plan{thread: -1, leader: -1})
			}
		}
	}
	fmt.Printf("C14RACE-PLANS %s %d\n", sc.Name, len(plans))
}

var c14GoidRe = regexp.MustCompile(`^goroutine (\d+) `)

func c14Goid() string {
	buf := make([]byte, 64)
	buf = buf[:runtime.Stack(buf, false)]
	if m := c14GoidRe.FindSubmatch(buf); m != nil {
		return string(m[1])
	}
	return ""
}

const c14RaceReps = 40

func TestVerifC14Race(t *testing.T) {
	name := os.Getenv("VERIF_C14_RACE_SCENARIO")
	if name == "" {
		t.Skip("helper for the race pass")
	}
	wInit()
	r := vk.Start("C14", "model_checking")
	for _, sc := range c14Scenarios(r) {
		if sc.Name == name {
			c14RaceBody(sc, c14RaceReps)
		}
	}
}

func c14RacePass(r *vk.Run, scs []c14Scenario) (reports int) {
	bin := os.Getenv("VERIF_RACEBIN")
	if bin == "" {
		r.Cap("no -race binary available: race pass skipped")
		return 0
	}
	type res struct {
		sc  string
		out []byte
	}
	ch := make(chan res, len(scs))
	sem := make(chan struct{}, vk.Workers())
	for _, sc := range scs {
		go func(sc c14Scenario) {
			sem <- struct{}{}
			defer func() { <-sem }()
			cmd := exec.Command(bin, "-test.run", "^TestVerifC14Race$", "-test.timeout", "600s")
			cmd.Env = append(os.Environ(), "VERIF_C14_RACE_SCENARIO="+sc.Name, "GORACE=halt_on_error=0 history_size=2", "VERIF_SHARD=", "VERIF_SHARD_OUT=")
			var buf bytes.Buffer
			cmd.Stdout, cmd.Stderr = &buf, &buf
			cmd.Run()
			ch <- res{sc.Name, buf.Bytes()}
		}(sc)
	}
	seen := map[string]bool{}
	var raceRuns int64
	defer func() { r.Set("race_pass_runs_with_one_injected_delay_or_head_start", raceRuns) }()
	for range scs {
		x := <-ch
		if m := regexp.MustCompile(`C14RACE-PLANS \S+ (\d+)`).FindSubmatch(x.out); m != nil {
			n, _ := strconv.Atoi(string(m[1]))
			raceRuns += int64(n)
		}
		for _, rep := range bytes.Split(x.out, []byte("WARNING: DATA RACE"))[1:] {
			end := bytes.Index(rep, []byte("=================="))
			if end > 0 {
				rep = rep[:end]
			}
			// the two accessing stacks: first repository function of each
			parts := regexp.MustCompile(`(?m)^(Read|Write|Previous read|Previous write) at`).Split(string(rep), -1)
			var fns []string
			for _, p := range parts[1:] {
				if m := c14RaceFn.FindStringSubmatch(p); m != nil && !strings.HasPrefix(m[1], "wInst") && !strings.HasPrefix(m[1], "wObs") && !strings.HasPrefix(m[1], "wCtx") && !strings.HasPrefix(m[1], "c14") {
					fns = append(fns, m[1]+"."+m[2])
				} else {
					fns = append(fns, "outside-wallet")
				}
				if len(fns) == 2 {
					break
				}
			}
			if len(fns) < 2 || (fns[0] == "outside-wallet" && fns[1] == "outside-wallet") {
				continue
			}
			sort.Strings(fns)
			fp := "C14/data-race/" + fns[0] + "+" + fns[1]
			reports++
			if !seen[fp] {
				seen[fp] = true
				txt := string(rep)
				r.Violation(fp, fmt.Sprintf("data race between %s and %s (free-running scenario %s under -race): %s", fns[0], fns[1], x.sc, txt[:min(len(txt), 700)]), map[string]string{"scenario": x.sc})
			}
		}
		if bytes.Contains(x.out, []byte("fatal error: concurrent map")) {
			r.Violation("C14/fatal-concurrent-map-access", "the Go runtime aborted the process: concurrent map access in scenario "+x.sc, map[string]string{"scenario": x.sc})
		}
	}
	return reports
}

func TestVerifC14(t *testing.T) {
	r := vk.Start("C14", "model_checking")
	wInit()
	scs := c14Scenarios(r)
	if p := r.ReplayPath(); p != "" {
		var rp c14Replay
		vk.LoadReplay(p, &rp)
		st := &c14Stats{outcomes: map[string]bool{}}
		c14Explore(r, rp.Scenario, 1<<30, st)
		r.Finish("replay of the scenario (all schedules)")
	}
	idx, n, child := r.Shard()
	r.Assume("scheduling points: BeginTx, Commit, BeginReadTx of the wallet store (faultdb gates) and operation starts; every exported method except the two lock-free ones holds the manager mutex for its whole body, so finer interleavings are not observable; unsynchronised memory accesses between gates are left to the race pass",
		"race pass: free-running scenario bodies under -race, 40 repetitions each (sampling of schedules; reports are deterministic evidence of a race, silence is not proof of absence)")
	if !child {
		races := c14RacePass(r, scs)
		r.Set("race_reports_in_wallet_code", races)
		r.RunShards(min(vk.Workers(), len(scs)), 2)
		r.Finish("(i) for each scenario (2-4 goroutines x 1-2 operations on colliding keystores) every complete schedule at transaction-boundary granularity is executed on the real wallet under the quiescence scheduler; the call/return history with results is checked for linearizability against the sequential reference by exhaustive search over orders consistent with real time, and the final running and reopened wallet must equal the witness's final state; panics and calls that never return are violations; (ii) each scenario body also runs free under the race detector; a report with a frame in the wallet package is a violation")
	}
	st := &c14Stats{outcomes: map[string]bool{}}
	var per []string
	for i, sc := range scs {
		if i%n != idx {
			continue
		}
		before := st.schedules
		c14Explore(r, sc, vk.Pick(r, 3000, 60000), st)
		per = append(per, fmt.Sprintf("%s: schedules=%d", sc.Name, st.schedules-before))
		r.Sample(map[string]interface{}{"scenario": sc.Name, "threads": fmt.Sprint(sc.Threads), "granularity": "start of each call; BeginTx/Commit/BeginReadTx of each call"})
	}
	r.Set("states", st.schedules)
	r.Set("transitions", st.actions)
	r.Set("traces_validated_against_impl", st.schedules)
	r.Set("schedules", st.schedules)
	r.Set("scenarios", per)
	var oc []string
	for o := range st.outcomes {
		oc = append(oc, o)
	}
	r.Set("distinct_outcomes", len(oc))
	r.DistinctN(len(oc))
	r.Finish("child")
}
