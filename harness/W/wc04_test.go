//go:build go1.21

package keystore

// C04 — no secret is stored, exported or logged in the clear.
// Wallet histories on a REAL directory store with trace-level logging into a
// scratch log directory; after every operation all store files, all key/value
// pairs (raw iterator: covers compressed tables), every export and all new log
// bytes are searched for every secret in 6 encodings; every stored/exported
// blob is trial-decrypted with the keys obtainable without the private
// passphrase.

import (
	"bytes"
	"encoding/base64"
	"encoding/hex"
	"fmt"
	"io/ioutil"
	"math/big"
	"os"
	"path/filepath"
	"strings"
	"sync"
	"testing"

	"github.com/massnetorg/mass-core/logging"
	"github.com/massnetorg/mass-core/massutil/base58"
	"massnet.org/mass/config"
	"massnet.org/mass/poc/wallet/keystore/hdkeychain"
	"massnet.org/mass/poc/wallet/keystore/snacl"
	"massnet.org/mass/zz_verif/vk"
)

type c04Secret struct {
	Name string
	Pats [][]byte
}

func c04Encodings(name string, b []byte, scalar bool) c04Secret {
	s := c04Secret{Name: name}
	if len(b) == 0 {
		return s
	}
	s.Pats = append(s.Pats, b,
		[]byte(hex.EncodeToString(b)),
		[]byte(strings.ToUpper(hex.EncodeToString(b))),
		[]byte(base58.Encode(b)),
		[]byte(base64.StdEncoding.EncodeToString(b)))
	if scalar {
		s.Pats = append(s.Pats, []byte(new(big.Int).SetBytes(b).String()))
	}
	return s
}

// c04SeedSecrets: seed, master/purpose/coin/account/branch extended private
// keys and the first child private keys, as strings and raw scalars.
func c04SeedSecrets(seed int) []c04Secret {
	var out []c04Secret
	sd := wSeed(seed)
	out = append(out, c04Encodings(fmt.Sprintf("seed%d", seed), sd, false))
	k, err := hdkeychain.NewMaster(sd, config.ChainParams)
	if err != nil {
		vk.Fatalf("NewMaster: %v", err)
	}
	add := func(name string, k *hdkeychain.ExtendedKey) {
		out = append(out, c04Secret{Name: name + " (extended key string)", Pats: [][]byte{[]byte(k.String())}})
		p, _ := k.PrivKey()
		out = append(out, c04Encodings(name+" (scalar)", append([]byte{}, p...), true))
	}
	add(fmt.Sprintf("seed%d m", seed), k)
	path := []uint32{44 + hdkeychain.HardenedKeyStart, config.ChainParams.HDCoinType + hdkeychain.HardenedKeyStart, uint32(PoCUsage) + hdkeychain.HardenedKeyStart}
	names := []string{"m/44'", "m/44'/coin'", "m/44'/coin'/0'"}
	for i, p := range path {
		k, err = k.Child(p)
		if err != nil {
			vk.Fatalf("derive: %v", err)
		}
		add(fmt.Sprintf("seed%d %s", seed, names[i]), k)
	}
	for b := uint32(0); b < 2; b++ {
		bk, _ := k.Child(b)
		add(fmt.Sprintf("seed%d branch %d", seed, b), bk)
		for i := uint32(0); i < 4; i++ {
			ck, _ := bk.Child(i)
			add(fmt.Sprintf("seed%d %d/%d", seed, b, i), ck)
		}
	}
	return out
}

func c04Find(data []byte, secrets []c04Secret) string {
	for _, s := range secrets {
		for _, p := range s.Pats {
			if len(p) >= 8 && bytes.Contains(data, p) {
				return s.Name
			}
		}
	}
	return ""
}

func TestVerifC04(t *testing.T) {
	r := vk.Start("C04", "exploration")
	logDir := filepath.Join(os.Getenv("VERIF_SCRATCH"), "c04logs")
	os.Setenv("VERIF_LOGDIR", logDir)
	logging.Init(logDir, "c04", "trace", 1, true)
	c := &wCtx{r: r, prop: "C04", obs: newWObs(), useDir: true}
	c.ops = []wOp{
		{K: oNew, S: 0, P: wCur, P2: -1, R: "r0"}, {K: oNew, S: 1, P: wCur, P2: -1},
		{K: oNext, S: 0, N: 1, P2: -1}, {K: oNext, S: 0, N: 2, Internal: true, P2: -1}, {K: oGen, S: 0, P2: -1},
		{K: oUnlock, P: wCur, P2: -1}, {K: oUnlock, P: wWrong, P2: -1}, {K: oLock, P2: -1},
		{K: oRemark, S: 0, R: "r2", P2: -1},
		{K: oChPriv, P: wCur, P2: wWrong}, {K: oChPub, P: wCurPub, P2: wWrongPub},
		{K: oExport, S: 0, P: wCur, P2: -1, Slot: 0}, {K: oDelete, S: 0, P: wCur, P2: -1}, {K: oDelete, S: 0, P: wWrong, P2: -1},
		{K: oImport, Slot: 0, P: wCur, P2: -1},
		{K: oRestart, P: wCurPub, P2: -1}, {K: oRestart, P: wWrongPub, P2: -1},
	}
	// static secrets
	var static []c04Secret
	for s := 0; s < 2; s++ {
		static = append(static, c04SeedSecrets(s)...)
	}
	for i, p := range wPass {
		if i == wBad {
			continue
		}
		static = append(static, c04Secret{Name: fmt.Sprintf("passphrase %d", i), Pats: [][]byte{[]byte(p), []byte(hex.EncodeToString([]byte(p))), []byte(base64.StdEncoding.EncodeToString([]byte(p)))}})
	}
	var mu sync.Mutex
	var dynamic []c04Secret // key-encryption keys of all instances (for the log scan)
	var logOff int64
	var scans, blobsTried, blobsOpened, bytesScanned int64
	logSeenMarker := false

	scanLog := func(secrets []c04Secret) string {
		mu.Lock()
		defer mu.Unlock()
		files, _ := filepath.Glob(filepath.Join(logDir, "*"))
		var all []byte
		for _, f := range files {
			if fi, err := os.Lstat(f); err == nil && fi.Mode().IsRegular() {
				b, _ := ioutil.ReadFile(f)
				all = append(all, b...)
			}
		}
		if bytes.Contains(all, []byte("Logger Configuration")) {
			logSeenMarker = true
		}
		from := logOff - 4096 // overlap so that a secret straddling two scans is seen
		if from < 0 {
			from = 0
		}
		if int64(len(all)) < from {
			from = 0
		}
		part := all[from:]
		logOff = int64(len(all))
		bytesScanned += int64(len(part))
		if n := c04Find(part, secrets); n != "" {
			return n
		}
		return c04Find(part, dynamic)
	}

	c.tail = func(c *wCtx, in *wInst, m *wModel, hist []wOp, res wResult) bool {
		last := wKindName[hist[len(hist)-1].K]
		// instance secrets: the four key-encryption keys of every keystore
		var inst []c04Secret
		var pubKeys []*snacl.CryptoKey
		// keys anyone has: all-zero and all-0xFF (a key that was wiped before it was used to seal a blob)
		var zeroKey, ffKey snacl.CryptoKey
		for i := range ffKey {
			ffKey[i] = 0xFF
		}
		pubKeys = append(pubKeys, &zeroKey, &ffKey)
		wasLocked := !m.Unlocked
		if wasLocked && len(m.Ks) > 0 {
			if err := in.km.Unlock([]byte(wPass[m.Priv])); err != nil {
				c.viol("harness-unlock", last, err.Error(), hist)
				return false
			}
		}
		for id, am := range in.km.managedKeystores {
			inst = append(inst, c04Encodings("cryptoKeyPub of "+id, append([]byte{}, am.cryptoKeyPub.Bytes()...), false))
			inst = append(inst, c04Encodings("masterKeyPub of "+id, append([]byte{}, am.masterKeyPub.Key[:]...), false))
			ck := snacl.CryptoKey{}
			copy(ck[:], am.cryptoKeyPub.Bytes())
			mk := snacl.CryptoKey{}
			copy(mk[:], am.masterKeyPub.Key[:])
			pubKeys = append(pubKeys, &ck, &mk)
			if nonZero(am.cryptoKeyPriv.Bytes()) {
				inst = append(inst, c04Encodings("cryptoKeyPriv of "+id, append([]byte{}, am.cryptoKeyPriv.Bytes()...), false))
			}
			// the private master key is zeroed by passphrase checks even while unlocked; derive a copy
			var sk snacl.SecretKey
			if sk.Unmarshal(am.masterKeyPriv.Marshal()) == nil {
				pw := []byte(wPass[m.Priv])
				if sk.DeriveKey(&pw) == nil {
					inst = append(inst, c04Encodings("masterKeyPriv of "+id, append([]byte{}, sk.Key[:]...), false))
				}
			}
		}
		if wasLocked && len(m.Ks) > 0 {
			in.km.Lock()
		}
		mu.Lock()
		dynamic = append(dynamic, inst...)
		if len(dynamic) > 4000 {
			dynamic = dynamic[len(dynamic)-4000:]
		}
		scans++
		mu.Unlock()
		secrets := append(append([]c04Secret{}, static...), inst...)

		// (a) store directory: raw files and key/value pairs
		var disk []byte
		filepath.Walk(in.dir, func(p string, fi os.FileInfo, err error) error {
			if err == nil && fi.Mode().IsRegular() {
				b, _ := ioutil.ReadFile(p)
				disk = append(disk, b...)
				disk = append(disk, '\n')
			}
			return nil
		})
		if n := c04Find(disk, secrets); n != "" {
			c.viol("secret-on-disk", n[strings.LastIndex(n, " ")+1:]+"@"+last, "store files contain "+n+" in the clear", hist)
			return false
		}
		var blobs [][]byte
		var kv []byte
		for k, v := range in.rawDump() {
			kv = append(kv, k...)
			kv = append(kv, '\n')
			kv = append(kv, v...)
			kv = append(kv, '\n')
			blobs = append(blobs, []byte(v))
		}
		if n := c04Find(kv, secrets); n != "" {
			c.viol("secret-in-store", strings.Fields(n)[0]+"@"+last, "a stored key/value pair contains "+n+" in the clear", hist)
			return false
		}
		mu.Lock()
		bytesScanned += int64(len(disk) + len(kv))
		mu.Unlock()
		// (b) exports
		for seed := range m.Ks {
			file, err := in.km.ExportKeystore(c.obs.idOf(seed), []byte(wPass[m.Priv]))
			if err != nil {
				c.viol("export-refused", last, err.Error(), hist)
				return false
			}
			if n := c04Find(file, secrets); n != "" {
				c.viol("secret-in-export", strings.Fields(n)[0]+"@"+last, "exported keystore contains "+n+" in the clear", hist)
				return false
			}
			ks, _ := GetKeystoreFromJson(file)
			for _, h := range []string{ks.Crypto.MasterHDPrivKeyEnc, ks.Crypto.CryptoKeyPrivEnc, ks.Crypto.CryptoKeyPubEnc, ks.Crypto.PrivParams, ks.Crypto.PubParams} {
				b, _ := hex.DecodeString(h)
				blobs = append(blobs, b)
			}
		}
		// recoverable only with the private passphrase: trial decryption with public-side keys
		for _, b := range blobs {
			if len(b) < 40 {
				continue
			}
			for _, k := range pubKeys {
				mu.Lock()
				blobsTried++
				mu.Unlock()
				pt, err := k.Decrypt(b)
				if err != nil {
					continue
				}
				mu.Lock()
				blobsOpened++
				mu.Unlock()
				if n := c04Find(pt, secrets); n != "" && !strings.Contains(n, "cryptoKeyPub") {
					c.viol("secret-recoverable-without-private-passphrase", strings.Fields(n)[0]+"@"+last, "a stored/exported blob opens with a key derived from the public passphrase and contains "+n, hist)
					return false
				}
			}
		}
		// (c) logs
		if n := scanLog(secrets); n != "" {
			c.viol("secret-in-log", strings.Fields(n)[0]+"@"+last, "log output contains "+n+" in the clear", hist)
			return false
		}
		return true
	}
	wRunPropX(c, vk.Pick(r, 4, 5), func() {
		r.Set("states_scanned", scans)
		r.Set("bytes_scanned", bytesScanned)
		r.Set("blobs_trial_decrypted_with_public_side_keys", blobsTried)
		r.Set("blobs_opened_by_public_side_keys", blobsOpened)
		r.Set("static_secret_patterns", len(static))
		r.Set("log_capture_verified", logSeenMarker)
		if !logSeenMarker && r.ViolationCount() == 0 {
			vk.Fatalf("log capture is vacuous: marker line not found in %s", logDir)
		}
		if blobsOpened == 0 && r.ViolationCount() == 0 {
			vk.Fatalf("trial decryption is vacuous: no blob opened with the public-side keys")
		}
	},
		"BFS over wallet histories on a real directory store with trace logging; after every operation the raw store files, every key/value pair read through a raw iterator, every export and the new log bytes are searched for seeds, all extended/child private keys of the used paths (base58 strings and scalars), the four key-encryption keys of each keystore and all passphrases in raw/hex/HEX/base58/base64(/decimal) form; every stored or exported blob is trial-decrypted with the keys obtainable from the public passphrase and its plaintext searched for private secrets; distinct_nontrivial = distinct canonical states")
}
