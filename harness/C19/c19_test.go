//go:build go1.21

package db

// C19 — the bucket store behaves as a tree of isolated maps with atomic
// transactions. Explicit-state search over the real ldb driver (goleveldb
// MemStorage; real directory in the thorough tier) against a boring nested-map
// reference. Every transition replays its history on a fresh store.

import (
	"bytes"
	"fmt"
	"os"
	"path/filepath"
	"sort"
	"strconv"
	"strings"
	"sync"
	"sync/atomic"
	"testing"

	"github.com/syndtr/goleveldb/leveldb"
	"github.com/syndtr/goleveldb/leveldb/opt"
	"github.com/syndtr/goleveldb/leveldb/storage"
	wdb "massnet.org/mass/poc/wallet/db"
	"massnet.org/mass/zz_verif/seqx"
	"massnet.org/mass/zz_verif/vk"
)

// ---------------------------------------------------------------- reference

type c19Node struct {
	kv  map[string]string
	sub map[string]*c19Node
}

func c19New() *c19Node { return &c19Node{kv: map[string]string{}, sub: map[string]*c19Node{}} }

func (n *c19Node) clone() *c19Node {
	c := c19New()
	for k, v := range n.kv {
		c.kv[k] = v
	}
	for k, v := range n.sub {
		c.sub[k] = v.clone()
	}
	return c
}

func (n *c19Node) at(path []string) *c19Node {
	for _, p := range path {
		if n = n.sub[p]; n == nil {
			return nil
		}
	}
	return n
}

func (n *c19Node) canon(sb *strings.Builder) {
	ks := make([]string, 0, len(n.kv))
	for k := range n.kv {
		ks = append(ks, k)
	}
	sort.Strings(ks)
	sb.WriteString("{")
	for _, k := range ks {
		fmt.Fprintf(sb, "%q=%q,", k, n.kv[k])
	}
	ss := make([]string, 0, len(n.sub))
	for k := range n.sub {
		ss = append(ss, k)
	}
	sort.Strings(ss)
	for _, k := range ss {
		fmt.Fprintf(sb, "%q:", k)
		n.sub[k].canon(sb)
	}
	sb.WriteString("}")
}

func (n *c19Node) String() string { var sb strings.Builder; n.canon(&sb); return sb.String() }

// entries flattens the tree into logical "bucket path -> key -> value" lines.
func (n *c19Node) entries(path []string, out map[string]string) {
	if len(path) > 0 {
		out["B "+strings.Join(path, "/")] = path[len(path)-1]
	}
	for k, v := range n.kv {
		out["K "+strings.Join(path, "/")+" "+strconv.Quote(k)] = v
	}
	for name, s := range n.sub {
		s.entries(append(append([]string{}, path...), name), out)
	}
}

type c19Model struct {
	committed *c19Node
	tx        *c19Node // nil when no write transaction is open
}

func (m *c19Model) key() string {
	s := "C" + m.committed.String()
	if m.tx != nil {
		s += " T" + m.tx.String()
	}
	return s
}

// ---------------------------------------------------------------- operations

type c19Kind int

const (
	kBegin c19Kind = iota
	kCommit
	kRollback
	kReopen
	kCreateTop
	kNewBucket
	kDeleteBucket
	kPut
	kDelete
	kClear
)

var c19KindName = []string{"Begin", "Commit", "Rollback", "Reopen", "CreateTop", "NewBucket", "DeleteBucket", "Put", "Delete", "Clear"}

type c19Op struct {
	Kind  c19Kind
	Path  []string
	Name  string
	Key   string
	Val   string
	Probe bool // executed and checked, never expanded
}

func (o c19Op) String() string {
	s := c19KindName[o.Kind]
	if o.Path != nil {
		s += " /" + strings.Join(o.Path, "/")
	}
	switch o.Kind {
	case kCreateTop, kNewBucket, kDeleteBucket:
		s += fmt.Sprintf(" name=%q", o.Name)
	case kPut:
		s += fmt.Sprintf(" %q=%q", o.Key, o.Val)
	case kDelete:
		s += fmt.Sprintf(" %q", o.Key)
	}
	if o.Probe {
		s += " (probe)"
	}
	return s
}

func c19ValidName(n string) bool {
	return len(n) > 0 && len(n) <= 256 && !strings.Contains(n, "_")
}

// apply the op to the reference; returns the expected error (nil = success).
func (m *c19Model) apply(o c19Op) error {
	switch o.Kind {
	case kBegin:
		m.tx = m.committed.clone()
	case kCommit:
		m.committed, m.tx = m.tx, nil
	case kRollback:
		m.tx = nil
	case kReopen:
	case kCreateTop:
		if !c19ValidName(o.Name) {
			return wdb.ErrInvalidBucketName
		}
		if m.tx.sub[o.Name] == nil {
			m.tx.sub[o.Name] = c19New()
		}
	case kNewBucket:
		b := m.tx.at(o.Path)
		if !c19ValidName(o.Name) {
			return wdb.ErrInvalidBucketName
		}
		if b.sub[o.Name] != nil {
			return wdb.ErrBucketExist
		}
		b.sub[o.Name] = c19New()
	case kDeleteBucket:
		b := m.tx.at(o.Path)
		delete(b.sub, o.Name)
	case kPut:
		b := m.tx.at(o.Path)
		if len(o.Val) == 0 {
			return wdb.ErrIllegalValue
		}
		if len(o.Key) == 0 {
			return wdb.ErrIllegalKey
		}
		b.kv[o.Key] = o.Val
	case kDelete:
		b := m.tx.at(o.Path)
		delete(b.kv, o.Key)
	case kClear:
		b := m.tx.at(o.Path)
		b.kv = map[string]string{}
	}
	return nil
}

// ---------------------------------------------------------------- scenario

type c19Scn struct {
	Name      string
	Names     []string
	Keys      []string
	Vals      []string
	TreeDepth int
	SeqDepth  int
	Prefix    []c19Op // fixed history executed before the explored one (non-initial start state)
	ops       []c19Op
	byKey     map[string]int
	probes    []int
}

var c19AdvNames = []string{"a", "b", "1", "2", "a1", "b_1", "", strings.Repeat("x", 256), strings.Repeat("x", 257), "ä", "a_"}
var c19AdvKeys = []string{"k", "k_", "_", "a_k", "b_2_a", "1_a_k", "2_a_a_k", "b_k", "", "\x00", "k\xff", "a", "\x01\x02_\x5f\xfe\x00\x07\x08"}

func (s *c19Scn) add(o c19Op) int {
	k := o.String()
	if id, ok := s.byKey[k]; ok {
		return id
	}
	s.ops = append(s.ops, o)
	s.byKey[k] = len(s.ops) - 1
	return len(s.ops) - 1
}

func (s *c19Scn) paths() [][]string {
	var out [][]string
	var rec func(p []string)
	rec = func(p []string) {
		if len(p) > 0 {
			out = append(out, append([]string{}, p...))
		}
		if len(p) == s.TreeDepth {
			return
		}
		for _, n := range s.Names {
			rec(append(p, n))
		}
	}
	rec(nil)
	return out
}

func (s *c19Scn) init() {
	s.byKey = map[string]int{}
	s.add(c19Op{Kind: kBegin})
	s.add(c19Op{Kind: kCommit})
	s.add(c19Op{Kind: kRollback})
	s.add(c19Op{Kind: kReopen})
	for _, n := range s.Names {
		s.add(c19Op{Kind: kCreateTop, Name: n})
	}
	for _, p := range s.paths() {
		for _, k := range s.Keys {
			for _, v := range s.Vals {
				s.add(c19Op{Kind: kPut, Path: p, Key: k, Val: v})
			}
			s.add(c19Op{Kind: kDelete, Path: p, Key: k})
		}
		s.add(c19Op{Kind: kClear, Path: p})
		for _, n := range s.Names {
			s.add(c19Op{Kind: kDeleteBucket, Path: p, Name: n})
			if len(p) < s.TreeDepth {
				s.add(c19Op{Kind: kNewBucket, Path: p, Name: n})
			}
		}
	}
}

// enabled lists the core operations possible in the model state, simplest first.
func (s *c19Scn) enabled(m *c19Model, withProbes bool) []int {
	var out []int
	if m.tx == nil {
		return []int{s.byKey[c19Op{Kind: kBegin}.String()], s.byKey[c19Op{Kind: kReopen}.String()]}
	}
	out = append(out, s.byKey[c19Op{Kind: kCommit}.String()], s.byKey[c19Op{Kind: kRollback}.String()])
	for _, n := range s.Names {
		out = append(out, s.add(c19Op{Kind: kCreateTop, Name: n}))
	}
	var rec func(p []string, n *c19Node)
	rec = func(p []string, n *c19Node) {
		if len(p) > 0 {
			for _, k := range s.Keys {
				for _, v := range s.Vals {
					out = append(out, s.byKey[c19Op{Kind: kPut, Path: p, Key: k, Val: v}.String()])
				}
				if _, ok := n.kv[k]; ok {
					out = append(out, s.byKey[c19Op{Kind: kDelete, Path: p, Key: k}.String()])
				}
			}
			out = append(out, s.byKey[c19Op{Kind: kClear, Path: p}.String()])
			for _, nm := range s.Names {
				if n.sub[nm] != nil {
					out = append(out, s.byKey[c19Op{Kind: kDeleteBucket, Path: p, Name: nm}.String()])
				} else if len(p) < s.TreeDepth {
					out = append(out, s.byKey[c19Op{Kind: kNewBucket, Path: p, Name: nm}.String()])
				}
			}
		}
		names := make([]string, 0, len(n.sub))
		for nm := range n.sub {
			names = append(names, nm)
		}
		sort.Strings(names)
		for _, nm := range names {
			rec(append(append([]string{}, p...), nm), n.sub[nm])
		}
	}
	rec(nil, m.tx)
	return out
}

// probeOps: the adversarial one-step alphabet for a model state with an open
// transaction. These are executed on a fresh replay each and fully checked,
// but never expanded.
func (s *c19Scn) probeOps(m *c19Model, mu *sync.Mutex) []int {
	if m.tx == nil {
		return nil
	}
	mu.Lock()
	defer mu.Unlock()
	var out []int
	for _, n := range c19AdvNames {
		out = append(out, s.add(c19Op{Kind: kCreateTop, Name: n, Probe: true}))
	}
	var rec func(p []string, n *c19Node)
	rec = func(p []string, n *c19Node) {
		if len(p) > 0 {
			for _, k := range c19AdvKeys {
				out = append(out, s.add(c19Op{Kind: kPut, Path: p, Key: k, Val: "pv", Probe: true}))
				out = append(out, s.add(c19Op{Kind: kDelete, Path: p, Key: k, Probe: true}))
			}
			out = append(out, s.add(c19Op{Kind: kPut, Path: p, Key: "k", Val: "", Probe: true}))
			out = append(out, s.add(c19Op{Kind: kClear, Path: p, Probe: true}))
			for _, nm := range c19AdvNames {
				out = append(out, s.add(c19Op{Kind: kNewBucket, Path: p, Name: nm, Probe: true}))
				out = append(out, s.add(c19Op{Kind: kDeleteBucket, Path: p, Name: nm, Probe: true}))
			}
		}
		for nm, c := range n.sub {
			rec(append(append([]string{}, p...), nm), c)
		}
	}
	rec(nil, m.tx)
	sort.Ints(out)
	return out
}

// ---------------------------------------------------------------- instance

type c19Inst struct {
	stor storage.Storage
	dir  string
	d    *LevelDB
	tx   wdb.DBTransaction
}

var c19DirSeq int64

// small buffers: the default 4 MiB write buffer dominates the cost of a fresh store
var c19Opts = &opt.Options{WriteBuffer: 8 << 10, DisableBlockCache: true}

func c19Open(useDir bool) *c19Inst {
	in := &c19Inst{}
	if useDir {
		in.dir = filepath.Join(os.Getenv("VERIF_SCRATCH"), fmt.Sprintf("c19-%d", atomic.AddInt64(&c19DirSeq, 1)))
		d, err := CreateDB(in.dir)
		if err != nil {
			vk.Fatalf("CreateDB: %v", err)
		}
		in.d = d.(*LevelDB)
		return in
	}
	in.stor = storage.NewMemStorage()
	l, err := leveldb.Open(in.stor, c19Opts)
	if err != nil {
		vk.Fatalf("leveldb.Open: %v", err)
	}
	in.d = &LevelDB{LDb: l}
	return in
}

func (in *c19Inst) reopen() error {
	if err := in.d.Close(); err != nil {
		return err
	}
	if in.dir != "" {
		d, err := OpenDB(in.dir)
		if err != nil {
			return err
		}
		in.d = d.(*LevelDB)
		return nil
	}
	l, err := leveldb.Open(in.stor, c19Opts)
	if err != nil {
		return err
	}
	in.d = &LevelDB{LDb: l}
	return nil
}

func (in *c19Inst) close() {
	if in.tx != nil {
		in.tx.Rollback()
	}
	in.d.Close()
	if in.dir != "" {
		os.RemoveAll(in.dir)
	}
}

type c19Tx interface {
	TopLevelBucket(name string) wdb.Bucket
	BucketNames() ([]string, error)
	FetchBucket(meta wdb.BucketMeta) wdb.Bucket
}

func c19Resolve(tx c19Tx, path []string) wdb.Bucket {
	b := tx.TopLevelBucket(path[0])
	for _, p := range path[1:] {
		if b == nil {
			return nil
		}
		b = b.Bucket(p)
	}
	return b
}

func (in *c19Inst) apply(o c19Op) (err error, harness string) {
	switch o.Kind {
	case kBegin:
		in.tx, err = in.d.BeginTx()
		return err, ""
	case kCommit:
		err = in.tx.Commit()
		in.tx = nil
		return err, ""
	case kRollback:
		err = in.tx.Rollback()
		in.tx = nil
		return err, ""
	case kReopen:
		return in.reopen(), ""
	case kCreateTop:
		_, err = in.tx.CreateTopLevelBucket(o.Name)
		return err, ""
	}
	b := c19Resolve(in.tx, o.Path)
	if b == nil {
		return nil, "bucket /" + strings.Join(o.Path, "/") + " exists in the reference but cannot be resolved"
	}
	switch o.Kind {
	case kNewBucket:
		_, err = b.NewBucket(o.Name)
	case kDeleteBucket:
		err = b.DeleteBucket(o.Name)
	case kPut:
		err = b.Put([]byte(o.Key), []byte(o.Val))
	case kDelete:
		err = b.Delete([]byte(o.Key))
	case kClear:
		err = b.Clear()
	}
	return err, ""
}

// dump reads the whole logical tree through the public API.
func c19Dump(tx c19Tx) (map[string]string, string) {
	out := map[string]string{}
	names, err := tx.BucketNames()
	if err != nil {
		return nil, "BucketNames: " + err.Error()
	}
	var rec func(b wdb.Bucket, path []string) string
	rec = func(b wdb.Bucket, path []string) string {
		out["B "+strings.Join(path, "/")] = path[len(path)-1]
		ents, err := b.GetByPrefix(nil)
		if err != nil {
			return "GetByPrefix: " + err.Error()
		}
		for _, e := range ents {
			k := "K " + strings.Join(path, "/") + " " + strconv.Quote(string(e.Key))
			if _, dup := out[k]; dup {
				return "GetByPrefix returned key twice: " + k
			}
			out[k] = string(e.Value)
			v, err := b.Get(e.Key)
			if err != nil || !bytes.Equal(v, e.Value) {
				return fmt.Sprintf("Get(%q) in /%s = %q,%v but GetByPrefix lists %q", e.Key, strings.Join(path, "/"), v, err, e.Value)
			}
		}
		// FetchBucket(meta) must denote the same bucket.
		fb := tx.FetchBucket(b.GetBucketMeta())
		if fb == nil {
			return "FetchBucket(GetBucketMeta()) = nil for /" + strings.Join(path, "/")
		}
		fe, _ := fb.GetByPrefix(nil)
		if len(fe) != len(ents) {
			return "FetchBucket(GetBucketMeta()) shows different content for /" + strings.Join(path, "/")
		}
		subs, err := b.BucketNames()
		if err != nil {
			return "BucketNames of /" + strings.Join(path, "/") + ": " + err.Error()
		}
		seen := map[string]bool{}
		for _, s := range subs {
			if seen[s] {
				return "BucketNames lists " + s + " twice"
			}
			seen[s] = true
			sb := b.Bucket(s)
			if sb == nil {
				return "listed sub-bucket cannot be opened: /" + strings.Join(path, "/") + "/" + s
			}
			if e := rec(sb, append(append([]string{}, path...), s)); e != "" {
				return e
			}
		}
		return ""
	}
	seen := map[string]bool{}
	for _, n := range names {
		if seen[n] {
			return nil, "top-level BucketNames lists " + n + " twice"
		}
		seen[n] = true
		b := tx.TopLevelBucket(n)
		if b == nil {
			return nil, "listed top-level bucket cannot be opened: " + n
		}
		if e := rec(b, []string{n}); e != "" {
			return nil, e
		}
	}
	return out, ""
}

func c19Diff(got, want map[string]string) string {
	var d []string
	for k, v := range want {
		if g, ok := got[k]; !ok {
			d = append(d, "missing "+k)
		} else if g != v {
			d = append(d, fmt.Sprintf("%s = %q want %q", k, g, v))
		}
	}
	for k := range got {
		if _, ok := want[k]; !ok {
			d = append(d, "unexpected "+k)
		}
	}
	sort.Strings(d)
	if len(d) > 6 {
		d = append(d[:6], fmt.Sprintf("... %d more", len(d)-6))
	}
	return strings.Join(d, "; ")
}

// c19Raw parses every physical key back to a logical entry (independent
// inverse of the flat layout) - injectivity / no ghosts.
type c19Iter interface {
	Next() bool
	Key() []byte
	Value() []byte
	Release()
}

func c19Raw(it c19Iter) (map[string]string, string) {
	out := map[string]string{}
	defer it.Release()
	for it.Next() {
		k := string(it.Key())
		parts := strings.Split(k, "_")
		if parts[0] == "b" {
			if len(parts) < 3 {
				return nil, fmt.Sprintf("physical key %q is no index entry", k)
			}
			d, err := strconv.Atoi(parts[1])
			if err != nil || d != len(parts)-2 {
				return nil, fmt.Sprintf("physical index key %q has inconsistent depth", k)
			}
			lk := "B " + strings.Join(parts[2:], "/")
			if _, dup := out[lk]; dup {
				return nil, "two physical keys denote " + lk
			}
			out[lk] = string(it.Value())
			continue
		}
		d, err := strconv.Atoi(parts[0])
		if err != nil || d < 1 || len(parts) < d+2 {
			return nil, fmt.Sprintf("physical key %q parses to no bucket entry", k)
		}
		path := parts[1 : 1+d]
		key := strings.Join(parts[1+d:], "_")
		lk := "K " + strings.Join(path, "/") + " " + strconv.Quote(key)
		if _, dup := out[lk]; dup {
			return nil, "two physical keys denote " + lk
		}
		out[lk] = string(it.Value())
	}
	return out, ""
}

// ---------------------------------------------------------------- checking

type c19Ctx struct {
	r      *vk.Run
	s      *c19Scn
	useDir bool
	mu     sync.Mutex
	probes int64
	reads  int64
}

func (c *c19Ctx) histStrings(hist []int, op int) []string {
	c.mu.Lock()
	defer c.mu.Unlock()
	var out []string
	for _, h := range hist {
		out = append(out, c.s.ops[h].String())
	}
	if op >= 0 {
		out = append(out, c.s.ops[op].String())
	}
	return out
}

func (c *c19Ctx) opOf(id int) c19Op {
	c.mu.Lock()
	defer c.mu.Unlock()
	return c.s.ops[id]
}

type c19Replay struct {
	Scenario string   `json:"scenario"`
	Ops      []string `json:"ops_text"`
	Hist     []c19Op  `json:"ops"`
}

func (c *c19Ctx) rp(hist []int, op int) c19Replay {
	ops := append([]c19Op{}, c.s.Prefix...)
	for _, h := range append(append([]int{}, hist...), op) {
		ops = append(ops, c.opOf(h))
	}
	return c19Replay{c.s.Name, c.histStrings(hist, op), ops}
}

func errClass(e error) string {
	if e == nil {
		return "nil"
	}
	return e.Error()
}

// checkAll compares the instance with the model: API dump through the write
// transaction and through a read transaction, raw physical dumps, read probes.
func (c *c19Ctx) checkAll(in *c19Inst, m *c19Model, light bool) (clause, msg string) {
	wantC := map[string]string{}
	m.committed.entries(nil, wantC)
	rtx, err := in.d.BeginReadTx()
	if err != nil {
		return "read-tx", err.Error()
	}
	got, e := c19Dump(rtx)
	rtx.Rollback()
	if e != "" {
		return "dump-committed", e
	}
	if d := c19Diff(got, wantC); d != "" {
		return "committed-view", "read transaction view differs from reference committed state: " + d
	}
	raw, e := c19Raw(in.d.LDb.NewIterator(nil, nil))
	if e != "" {
		return "raw-layout", e
	}
	if d := c19Diff(raw, wantC); d != "" {
		return "raw-committed", "physical keys differ from reference committed state: " + d
	}
	var view c19Tx
	var vm *c19Node
	if m.tx != nil {
		wantT := map[string]string{}
		m.tx.entries(nil, wantT)
		got, e := c19Dump(in.tx)
		if e != "" {
			return "dump-tx", e
		}
		if d := c19Diff(got, wantT); d != "" {
			return "tx-view", "view inside the transaction differs from reference: " + d
		}
		raw, e := c19Raw(in.tx.(*LDBTransaction).tr.NewIterator(nil, nil))
		if e != "" {
			return "raw-layout-tx", e
		}
		if d := c19Diff(raw, wantT); d != "" {
			return "raw-tx", "physical keys inside the transaction differ from reference: " + d
		}
		view, vm = in.tx, m.tx
	} else {
		rtx, _ := in.d.BeginReadTx()
		defer rtx.Rollback()
		view, vm = rtx, m.committed
	}
	if light {
		return "", ""
	}
	// read probes: adversarial keys, prefixes and names in every bucket
	var rec func(path []string, n *c19Node) (string, string)
	rec = func(path []string, n *c19Node) (string, string) {
		if len(path) > 0 {
			b := c19Resolve(view, path)
			if b == nil {
				return "resolve", "cannot resolve /" + strings.Join(path, "/")
			}
			for _, k := range c19AdvKeys {
				atomic.AddInt64(&c.reads, 1)
				v, err := b.Get([]byte(k))
				want, ok := n.kv[k]
				if err != nil || (ok && string(v) != want) || (!ok && v != nil) {
					return "get", fmt.Sprintf("Get(%q) in /%s = %q,%v; reference has %q (present=%v)", k, strings.Join(path, "/"), v, err, want, ok)
				}
				ents, err := b.GetByPrefix([]byte(k))
				if err != nil {
					return "getbyprefix", err.Error()
				}
				wantN := 0
				for kk := range n.kv {
					if strings.HasPrefix(kk, k) {
						wantN++
					}
				}
				if len(ents) != wantN {
					return "getbyprefix", fmt.Sprintf("GetByPrefix(%q) in /%s returned %d entries, reference has %d", k, strings.Join(path, "/"), len(ents), wantN)
				}
				for _, e := range ents {
					if w, ok := n.kv[string(e.Key)]; !ok || w != string(e.Value) || !strings.HasPrefix(string(e.Key), k) {
						return "getbyprefix", fmt.Sprintf("GetByPrefix(%q) in /%s returned %q=%q not in the reference bucket", k, strings.Join(path, "/"), e.Key, e.Value)
					}
				}
			}
			for _, nm := range c19AdvNames {
				atomic.AddInt64(&c.reads, 1)
				sb := b.Bucket(nm)
				if (sb != nil) != (n.sub[nm] != nil) {
					return "bucket-lookup", fmt.Sprintf("Bucket(%q) in /%s: found=%v, reference=%v", nm, strings.Join(path, "/"), sb != nil, n.sub[nm] != nil)
				}
			}
		} else {
			for _, nm := range c19AdvNames {
				tb := view.TopLevelBucket(nm)
				if (tb != nil) != (n.sub[nm] != nil) {
					return "bucket-lookup", fmt.Sprintf("TopLevelBucket(%q): found=%v, reference=%v", nm, tb != nil, n.sub[nm] != nil)
				}
			}
		}
		for nm, s := range n.sub {
			if cl, e := rec(append(append([]string{}, path...), nm), s); e != "" {
				return cl, e
			}
		}
		return "", ""
	}
	return rec(nil, vm)
}

// run replays hist+op on a fresh instance; oracle after the last op only when
// fullPrefix is false (prefixes were checked when they were themselves tried).
func (c *c19Ctx) run(hist []int, op int) (m *c19Model, ok bool) {
	in := c19Open(c.useDir)
	defer in.close()
	m = &c19Model{committed: c19New()}
	for _, o := range c.s.Prefix {
		want := m.apply(o)
		got, herr := in.apply(o)
		if herr != "" || errClass(got) != errClass(want) {
			vk.Fatalf("scenario prefix op %v: %v %v (want %v)", o, herr, got, want)
		}
	}
	all := append(append([]int{}, hist...), op)
	for i, id := range all {
		o := c.opOf(id)
		want := m.apply(o)
		got, herr := in.apply(o)
		last := i == len(all)-1
		if herr != "" {
			if last {
				c.r.Violation("C19/unresolvable-bucket/"+c19KindName[o.Kind], herr, c.rp(hist, op))
			}
			return m, false
		}
		if errClass(got) != errClass(want) {
			if last {
				site := c19KindName[o.Kind]
				c.r.Violation("C19/result/"+site, fmt.Sprintf("%s returned %v, reference says %v", o, errClass(got), errClass(want)),
					c.rp(hist, op))
			}
			return m, false
		}
		if last {
			if clause, msg := c.checkAll(in, m, o.Probe); msg != "" {
				c.r.Violation("C19/"+clause+"/after-"+c19KindName[o.Kind], fmt.Sprintf("after %v: %s", c.histStrings(hist, op), msg),
					c.rp(hist, op))
				return m, false
			}
		}
	}
	return m, true
}

func c19Scenarios(r *vk.Run) []*c19Scn {
	q := r.Quick()
	d := func(a, b int) int {
		if q {
			return a
		}
		return b
	}
	return []*c19Scn{
		// names that are prefixes of one another; keys ending in / equal to the separator
		{Name: "prefix-names", Names: []string{"a", "a1"}, Keys: []string{"k", "k_"}, Vals: []string{"v", "w"}, TreeDepth: 2, SeqDepth: d(5, 6)},
		// names imitating the index prefix "b" and a depth prefix "2"; keys imitating sub-bucket paths
		{Name: "imitation", Names: []string{"b", "2"}, Keys: []string{"2_k", "b_2_b_2"}, Vals: []string{"v"}, TreeDepth: 3, SeqDepth: d(5, 7)},
		// key in a parent that spells "<child>_<key>"
		{Name: "parent-child-keys", Names: []string{"a", "b"}, Keys: []string{"k", "b_k", "a_b_k"}, Vals: []string{"v"}, TreeDepth: 3, SeqDepth: d(5, 6)},
		// deep tree, one name per level, for recursive deletion
		{Name: "deep", Names: []string{"a"}, Keys: []string{"k", "_"}, Vals: []string{"v", "w"}, TreeDepth: 3, SeqDepth: d(7, 9)},
	}
}

// c19Populate: every name as a top-level bucket, each with one sub-bucket per
// name (if the tree may be that deep) and the first key everywhere, committed.
func c19Populate(s *c19Scn) []c19Op {
	ops := []c19Op{{Kind: kBegin}}
	for _, n := range s.Names {
		ops = append(ops, c19Op{Kind: kCreateTop, Name: n})
		ops = append(ops, c19Op{Kind: kPut, Path: []string{n}, Key: s.Keys[0], Val: "v"})
		if s.TreeDepth >= 2 {
			for _, n2 := range s.Names {
				ops = append(ops, c19Op{Kind: kNewBucket, Path: []string{n}, Name: n2})
				ops = append(ops, c19Op{Kind: kPut, Path: []string{n, n2}, Key: s.Keys[len(s.Keys)-1], Val: "v"})
			}
		}
	}
	return append(ops, c19Op{Kind: kCommit})
}

func TestVerifC19(t *testing.T) {
	r := vk.Start("C19", "model_checking")
	if p := r.ReplayPath(); p != "" {
		var rp c19Replay
		vk.LoadReplay(p, &rp)
		for _, s := range c19Scenarios(r) {
			if s.Name != strings.TrimSuffix(strings.TrimSuffix(rp.Scenario, "@dir"), "+populated") {
				continue
			}
			s.init()
			c := &c19Ctx{r: r, s: s}
			var ids []int
			if strings.Contains(rp.Scenario, "+populated") {
				rp.Hist = rp.Hist[len(c19Populate(s)):]
				s.Prefix = c19Populate(s)
			}
			for _, o := range rp.Hist {
				ids = append(ids, s.add(o))
			}
			for i := range ids {
				c.run(ids[:i], ids[i])
			}
		}
		r.Finish("replay")
	}
	var states, trans, probes, reads int64
	exhaustive := true
	var perScn []map[string]interface{}
	for pass, useDir := range []bool{false, true} {
		if useDir && r.Quick() {
			break
		}
		scns := c19Scenarios(r)
		for _, s := range c19Scenarios(r) {
			s.Prefix = c19Populate(s)
			s.Name += "+populated"
			s.SeqDepth = 3
			scns = append(scns, s)
		}
		for _, s := range scns {
			if useDir {
				s.SeqDepth -= 2 // real directory: slower per instance, shallower
				s.Name += "@dir"
			}
			s.init()
			c := &c19Ctx{r: r, s: s, useDir: useDir}
			init := &c19Model{committed: c19New()}
			for _, o := range s.Prefix {
				init.apply(o)
			}
			spec := seqx.Spec{
				Depth:   s.SeqDepth - 1,
				InitKey: init.key(),
				InitOps: s.enabled(init, false),
				Stop:    r.Expired,
				Try: func(hist []int, op int) (string, []int, bool) {
					m, ok := c.run(hist, op)
					r.Eval(1)
					if !ok {
						return "", nil, false
					}
					c.mu.Lock()
					ops := s.enabled(m, false)
					c.mu.Unlock()
					// adversarial one-step probes from the state just reached
					if pr := s.probeOps(m, &c.mu); len(pr) > 0 && len(hist)+1 <= s.SeqDepth-1 {
						h := append(append([]int{}, hist...), op)
						for _, p := range pr {
							c.run(h, p)
							atomic.AddInt64(&c.probes, 1)
							r.Eval(1)
						}
					}
					return m.key(), ops, true
				},
			}
			res := seqx.Explore(spec)
			if !res.Complete {
				exhaustive = false
				r.Cap("deadline hit in scenario " + s.Name)
			}
			states += int64(res.States)
			trans += res.Transitions
			probes += c.probes
			reads += c.reads
			perScn = append(perScn, map[string]interface{}{"scenario": s.Name, "states": res.States, "transitions": res.Transitions,
				"probe_transitions": c.probes, "depth": s.SeqDepth, "new_states_per_level": res.PerLevel, "complete": res.Complete})
			if pass == 0 && len(perScn) <= 2 {
				r.Sample(map[string]interface{}{"scenario": s.Name, "history": []string{"Begin", `CreateTop name="` + s.Names[0] + `"`, `Put /` + s.Names[0] + ` "` + s.Keys[0] + `"="v"`, "Commit", "Reopen"}, "checked_after_each_step": "API dump via write tx and read tx == reference; physical keys parse back to exactly the reference entries; Get/GetByPrefix/Bucket probes with adversarial keys and names"})
			}
		}
	}
	_ = exhaustive
	r.Set("states", states)
	r.Set("transitions", trans+probes)
	r.Set("core_transitions", trans)
	r.Set("adversarial_probe_transitions", probes)
	r.Set("read_probes", reads)
	r.Set("traces_validated_against_impl", trans+probes)
	r.Set("scenarios", perScn)
	r.DistinctN(int(states))
	r.Assume("goleveldb transactions/MemStorage are correct; one write transaction at a time (goleveldb serialises them); bucket handles are re-resolved by path before each operation (stale handles after DeleteBucket are API misuse, not explored)",
		"alphabets: see scenarios (core, expanded) and the adversarial name/key sets (probed one step from every reached state with an open transaction)")
	r.Finish("explicit-state BFS over operation histories (Begin/Commit/Rollback/Reopen/CreateTop/NewBucket/DeleteBucket/Put/Delete/Clear) on the real ldb driver, canonical state = reference committed tree + open-transaction tree; every transition is a replay on a fresh store; distinct_nontrivial = distinct canonical states")
}
