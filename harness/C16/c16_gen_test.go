//go:build go1.21

package protocol

// C16 — value domains, message builders, field-wise equality and the JSON body
// grammar (with an independent accept/reject predictor) used by c16_test.go.

import (
	"bytes"
	"encoding/hex"
	"fmt"
	"math"
	"math/big"
	"strings"

	"github.com/google/uuid"
	"github.com/massnetorg/mass-core/poc/chiapos"
	"github.com/massnetorg/mass-core/poc/pocutil"
	engine_v2 "massnet.org/mass/poc/engine.v2"
	"massnet.org/mass/zz_verif/vk"
)

// ------------------------------------------------------------------ names

var c16Types = []MsgType{MsgTypeRequestQualities, MsgTypeReportQualities, MsgTypeRequestProof,
	MsgTypeReportProof, MsgTypeRequestSignature, MsgTypeReportSignature}

func c16TypeName(t MsgType) string {
	switch t {
	case MsgTypeRequestQualities:
		return "request-qualities"
	case MsgTypeReportQualities:
		return "report-qualities"
	case MsgTypeRequestProof:
		return "request-proof"
	case MsgTypeReportProof:
		return "report-proof"
	case MsgTypeRequestSignature:
		return "request-signature"
	case MsgTypeReportSignature:
		return "report-signature"
	}
	return "unknown-type"
}

// c16TypeOf names the message type announced by the first two bytes.
func c16TypeOf(data []byte) string {
	if len(data) < 2 {
		return "short"
	}
	return c16TypeName(MsgType(uint16(data[0])<<8 | uint16(data[1])))
}

func c16HasCgo(t MsgType) bool {
	return t == MsgTypeReportQualities || t == MsgTypeReportProof || t == MsgTypeReportSignature
}

// ------------------------------------------------------------------ domains

type c16Dom struct {
	tids    []uuid.UUID
	hashes  []pocutil.Hash
	targets []*big.Int
	u64s    []uint64
	u32s    []uint32
	u8s     []uint8
	strs    []string
	blobs   [][]byte
	g1s     []*chiapos.G1Element
	g2s     []*chiapos.G2Element
}

func c16Pattern(n int, seed byte) []byte {
	b := make([]byte, n)
	for i := range b {
		b[i] = byte(i)*7 + seed
	}
	return b
}

func c16NewDom() *c16Dom {
	d := &c16Dom{}
	d.tids = []uuid.UUID{uuid.Nil, uuid.MustParse("6ba7b810-9dad-11d1-80b4-00c04fd430c8")}
	var ff, pat pocutil.Hash
	for i := range ff {
		ff[i] = 0xff
		pat[i] = byte(i)
	}
	d.hashes = []pocutil.Hash{{}, ff, pat}
	one := big.NewInt(1)
	d.targets = []*big.Int{big.NewInt(0), big.NewInt(1), new(big.Int).Lsh(one, 255),
		new(big.Int).Sub(new(big.Int).Lsh(one, 256), one)}
	d.u64s = []uint64{0, 1, math.MaxUint64}
	d.u32s = []uint32{0, 1, math.MaxUint32}
	d.u8s = []uint8{0, 1, math.MaxUint8}
	d.strs = []string{"", "a", strings.Repeat("x", 300), "\u00ff\u2603z", "q\"uo\\te<>&\u2028\n\x00'"}
	d.blobs = [][]byte{nil, {0x00}, c16Pattern(32, 3), c16Pattern(4096, 5)}

	// BLS elements: produced only through the library's own generator /
	// key-generation / signing functions, never hand-written.
	scheme := chiapos.NewAugSchemeMPL()
	var sks []*chiapos.PrivateKey
	for _, sb := range []byte{0x00, 0x01} {
		sk, err := scheme.KeyGen(bytes.Repeat([]byte{sb}, 32))
		if err != nil {
			vk.Fatalf("C16: chiapos KeyGen: %v", err)
		}
		sks = append(sks, sk)
	}
	d.g1s = []*chiapos.G1Element{chiapos.NewG1ElementGenerator(), chiapos.NewG1Element()}
	for _, sk := range sks {
		pk, err := sk.GetG1()
		if err != nil {
			vk.Fatalf("C16: chiapos GetG1: %v", err)
		}
		d.g1s = append(d.g1s, pk)
	}
	d.g2s = []*chiapos.G2Element{chiapos.NewG2ElementGenerator(), chiapos.NewG2Element()}
	for i, sk := range sks {
		sig, err := scheme.Sign(sk, []byte{'m', byte('a' + i)})
		if err != nil {
			vk.Fatalf("C16: chiapos Sign: %v", err)
		}
		d.g2s = append(d.g2s, sig)
	}
	for i, g := range d.g1s {
		if g == nil {
			vk.Fatalf("C16: G1 domain element %d is nil", i)
		}
		if _, err := chiapos.NewG1ElementFromBytes(g.Bytes()); err != nil {
			vk.Fatalf("C16: G1 domain element %d (%x) is rejected by the library's own parser: %v", i, g.Bytes(), err)
		}
		for j := 0; j < i; j++ {
			if *d.g1s[j] == *g {
				vk.Fatalf("C16: G1 domain elements %d and %d coincide", j, i)
			}
		}
	}
	for i, g := range d.g2s {
		if g == nil {
			vk.Fatalf("C16: G2 domain element %d is nil", i)
		}
		if _, err := chiapos.NewG2ElementFromBytes(g.Bytes()); err != nil {
			vk.Fatalf("C16: G2 domain element %d (%x) is rejected by the library's own parser: %v", i, g.Bytes(), err)
		}
		for j := 0; j < i; j++ {
			if *d.g2s[j] == *g {
				vk.Fatalf("C16: G2 domain elements %d and %d coincide", j, i)
			}
		}
	}
	return d
}

func c16Blob(b []byte) []byte {
	if b == nil {
		return nil
	}
	return append([]byte{}, b...)
}

// c16Unrank decodes i in the mixed radix given by dims (first dim fastest).
func c16Unrank(i int, dims []int) []int {
	ch := make([]int, len(dims))
	for k, d := range dims {
		ch[k] = i % d
		i /= d
	}
	return ch
}

func c16Prod(dims []int) int {
	n := 1
	for _, d := range dims {
		n *= d
	}
	return n
}

// ---- Quality: SpaceID, PublicKey, PoolPublicKey, Index, KSize, Quality, PlotID, Slot
var c16QualityDims = []int{5, 4, 4, 3, 3, 4, 3, 3}

func (d *c16Dom) quality(ch []int) *Quality {
	return &Quality{
		WorkSpaceQuality: &engine_v2.WorkSpaceQuality{
			SpaceID:       d.strs[ch[0]],
			PublicKey:     d.g1s[ch[1]].Copy(),
			PoolPublicKey: d.g1s[ch[2]].Copy(),
			Index:         d.u32s[ch[3]],
			KSize:         d.u8s[ch[4]],
			Quality:       c16Blob(d.blobs[ch[5]]),
			PlotID:        [32]byte(d.hashes[ch[6]]),
		},
		Slot: d.u64s[ch[7]],
	}
}

// eachChoice returns choice vector k of an each-choice covering: field j takes
// value k mod |domain j|.
func c16EachChoice(k int, dims []int) []int {
	ch := make([]int, len(dims))
	for j, d := range dims {
		ch[j] = k % d
	}
	return ch
}

const c16ReducedQualities = 6

// ---- the six message types -------------------------------------------------

type c16RT struct {
	typ   MsgType
	n     int
	build func(i int) Message
	dims  []int // nil for report-qualities (list shapes)
}

func (d *c16Dom) roundTripTypes() []*c16RT {
	var out []*c16RT
	{ // RequestQualities: TaskID, Challenge, ParentTarget, ParentSlot, Height
		dims := []int{2, 3, 4, 3, 3}
		out = append(out, &c16RT{typ: MsgTypeRequestQualities, n: c16Prod(dims), dims: dims, build: func(i int) Message {
			ch := c16Unrank(i, dims)
			return &RequestQualities{TaskID: d.tids[ch[0]], Challenge: d.hashes[ch[1]],
				ParentTarget: new(big.Int).Set(d.targets[ch[2]]), ParentSlot: d.u64s[ch[3]], Height: d.u64s[ch[4]]}
		}})
	}
	{ // ReportQualities: TaskID x list shapes
		nq := c16Prod(c16QualityDims)
		R := c16ReducedQualities
		shapes := 1 + nq + R*R + R*R*R
		out = append(out, &c16RT{typ: MsgTypeReportQualities, n: 2 * shapes, build: func(i int) Message {
			m := &ReportQualities{TaskID: d.tids[i%2]}
			s := i / 2
			red := func(k int) *Quality { return d.quality(c16EachChoice(k, c16QualityDims)) }
			switch {
			case s == 0:
			case s < 1+nq:
				m.Qualities = []*Quality{d.quality(c16Unrank(s-1, c16QualityDims))}
			case s < 1+nq+R*R:
				s -= 1 + nq
				m.Qualities = []*Quality{red(s % R), red(s / R)}
			default:
				s -= 1 + nq + R*R
				m.Qualities = []*Quality{red(s % R), red(s / R % R), red(s / R / R)}
			}
			return m
		}})
	}
	{ // RequestProof: TaskID, Height, SpaceID, Challenge, Index
		dims := []int{2, 3, 5, 3, 3}
		out = append(out, &c16RT{typ: MsgTypeRequestProof, n: c16Prod(dims), dims: dims, build: func(i int) Message {
			ch := c16Unrank(i, dims)
			return &RequestProof{TaskID: d.tids[ch[0]], Height: d.u64s[ch[1]], SpaceID: d.strs[ch[2]],
				Challenge: d.hashes[ch[3]], Index: d.u32s[ch[4]]}
		}})
	}
	{ // ReportProof: TaskID, SpaceID, Challenge, PoolPublicKey, PlotPublicKey, KSize, Proof
		dims := []int{2, 5, 3, 4, 4, 3, 4}
		out = append(out, &c16RT{typ: MsgTypeReportProof, n: c16Prod(dims), dims: dims, build: func(i int) Message {
			return d.reportProof(c16Unrank(i, dims))
		}})
	}
	{ // RequestSignature: TaskID, Height, SpaceID, Hash
		dims := []int{2, 3, 5, 3}
		out = append(out, &c16RT{typ: MsgTypeRequestSignature, n: c16Prod(dims), dims: dims, build: func(i int) Message {
			ch := c16Unrank(i, dims)
			return &RequestSignature{TaskID: d.tids[ch[0]], Height: d.u64s[ch[1]], SpaceID: d.strs[ch[2]], Hash: d.hashes[ch[3]]}
		}})
	}
	{ // ReportSignature: TaskID, SpaceID, Hash, Signature
		dims := []int{2, 5, 3, 4}
		out = append(out, &c16RT{typ: MsgTypeReportSignature, n: c16Prod(dims), dims: dims, build: func(i int) Message {
			ch := c16Unrank(i, dims)
			return &ReportSignature{TaskID: d.tids[ch[0]], SpaceID: d.strs[ch[1]], Hash: d.hashes[ch[2]], Signature: d.g2s[ch[3]].Copy()}
		}})
	}
	return out
}

// reportProof builds the value a collector sends for the documented fields; the
// fields the wire format does not carry are set to what the decoder documents
// (Ordinal = UnknownOrdinal, PublicKey = plot public key, no PuzzleHash, no Error).
func (d *c16Dom) reportProof(ch []int) *ReportProof {
	plot := d.g1s[ch[4]].Copy()
	return &ReportProof{TaskID: d.tids[ch[0]], Proof: &Proof{
		SpaceID: d.strs[ch[1]],
		Proof: &chiapos.ProofOfSpace{
			Challenge:     [32]byte(d.hashes[ch[2]]),
			PoolPublicKey: d.g1s[ch[3]].Copy(),
			PlotPublicKey: plot,
			KSize:         d.u8s[ch[5]],
			Proof:         c16Blob(d.blobs[ch[6]]),
		},
		PublicKey: plot.Copy(),
		Ordinal:   engine_v2.UnknownOrdinal,
	}}
}

// ------------------------------------------------------------------ equality

func c16EqG1(a, b *chiapos.G1Element) bool {
	if a == nil || b == nil {
		return a == b
	}
	return *a == *b
}

func c16EqG2(a, b *chiapos.G2Element) bool {
	if a == nil || b == nil {
		return a == b
	}
	return *a == *b
}

func c16EqBig(a, b *big.Int) bool {
	if a == nil || b == nil {
		return a == b
	}
	return a.Cmp(b) == 0
}

// c16Equal compares two messages field by field (value equality; nil and empty
// byte strings / lists are the same value). It returns "" when equal, otherwise
// the path of the first differing field.
func c16Equal(a, b Message) string {
	if a == nil || b == nil {
		if a == nil && b == nil {
			return ""
		}
		return "nil-message"
	}
	if a.MsgType() != b.MsgType() {
		return "MsgType"
	}
	if a.ID() != b.ID() {
		return "TaskID"
	}
	switch x := a.(type) {
	case *RequestQualities:
		y, ok := b.(*RequestQualities)
		switch {
		case !ok || x == nil || y == nil:
			return "type"
		case x.TaskID != y.TaskID:
			return "TaskID"
		case x.Challenge != y.Challenge:
			return "Challenge"
		case !c16EqBig(x.ParentTarget, y.ParentTarget):
			return "ParentTarget"
		case x.ParentSlot != y.ParentSlot:
			return "ParentSlot"
		case x.Height != y.Height:
			return "Height"
		}
	case *ReportQualities:
		y, ok := b.(*ReportQualities)
		switch {
		case !ok || x == nil || y == nil:
			return "type"
		case x.TaskID != y.TaskID:
			return "TaskID"
		case len(x.Qualities) != len(y.Qualities):
			return "Qualities.len"
		}
		for i := range x.Qualities {
			if f := c16EqualQuality(x.Qualities[i], y.Qualities[i]); f != "" {
				return "Qualities[]." + f
			}
		}
	case *RequestProof:
		y, ok := b.(*RequestProof)
		switch {
		case !ok || x == nil || y == nil:
			return "type"
		case x.TaskID != y.TaskID:
			return "TaskID"
		case x.Height != y.Height:
			return "Height"
		case x.SpaceID != y.SpaceID:
			return "SpaceID"
		case x.Challenge != y.Challenge:
			return "Challenge"
		case x.Index != y.Index:
			return "Index"
		}
	case *ReportProof:
		y, ok := b.(*ReportProof)
		switch {
		case !ok || x == nil || y == nil:
			return "type"
		case x.TaskID != y.TaskID:
			return "TaskID"
		}
		if f := c16EqualProof(x.Proof, y.Proof); f != "" {
			return "Proof." + f
		}
	case *RequestSignature:
		y, ok := b.(*RequestSignature)
		switch {
		case !ok || x == nil || y == nil:
			return "type"
		case x.TaskID != y.TaskID:
			return "TaskID"
		case x.Height != y.Height:
			return "Height"
		case x.SpaceID != y.SpaceID:
			return "SpaceID"
		case x.Hash != y.Hash:
			return "Hash"
		}
	case *ReportSignature:
		y, ok := b.(*ReportSignature)
		switch {
		case !ok || x == nil || y == nil:
			return "type"
		case x.TaskID != y.TaskID:
			return "TaskID"
		case x.SpaceID != y.SpaceID:
			return "SpaceID"
		case x.Hash != y.Hash:
			return "Hash"
		case !c16EqG2(x.Signature, y.Signature):
			return "Signature"
		}
	default:
		return "unknown-go-type"
	}
	return ""
}

func c16EqualQuality(x, y *Quality) string {
	if x == nil || y == nil {
		if x == nil && y == nil {
			return ""
		}
		return "nil"
	}
	if x.WorkSpaceQuality == nil || y.WorkSpaceQuality == nil {
		if x.WorkSpaceQuality == nil && y.WorkSpaceQuality == nil && x.Slot == y.Slot {
			return ""
		}
		return "WorkSpaceQuality.nil"
	}
	switch {
	case x.SpaceID != y.SpaceID:
		return "SpaceID"
	case !c16EqG1(x.PublicKey, y.PublicKey):
		return "PublicKey"
	case !c16EqG1(x.PoolPublicKey, y.PoolPublicKey):
		return "PoolPublicKey"
	case x.Index != y.Index:
		return "Index"
	case x.KSize != y.KSize:
		return "KSize"
	case !bytes.Equal(x.Quality, y.Quality):
		return "Quality"
	case (x.Error == nil) != (y.Error == nil):
		return "Error"
	case x.PlotID != y.PlotID:
		return "PlotID"
	case x.Slot != y.Slot:
		return "Slot"
	}
	return ""
}

func c16EqualProof(x, y *Proof) string {
	if x == nil || y == nil {
		if x == nil && y == nil {
			return ""
		}
		return "nil"
	}
	if x.SpaceID != y.SpaceID {
		return "SpaceID"
	}
	if x.Proof == nil || y.Proof == nil {
		if x.Proof == nil && y.Proof == nil {
			return ""
		}
		return "Proof.nil"
	}
	switch {
	case x.Proof.Challenge != y.Proof.Challenge:
		return "Proof.Challenge"
	case !c16EqG1(x.Proof.PoolPublicKey, y.Proof.PoolPublicKey):
		return "Proof.PoolPublicKey"
	case x.Proof.PuzzleHash != y.Proof.PuzzleHash:
		return "Proof.PuzzleHash"
	case !c16EqG1(x.Proof.PlotPublicKey, y.Proof.PlotPublicKey):
		return "Proof.PlotPublicKey"
	case x.Proof.KSize != y.Proof.KSize:
		return "Proof.KSize"
	case !bytes.Equal(x.Proof.Proof, y.Proof.Proof):
		return "Proof.Proof"
	case !c16EqG1(x.PublicKey, y.PublicKey):
		return "PublicKey"
	case x.Ordinal != y.Ordinal:
		return "Ordinal"
	case (x.Error == nil) != (y.Error == nil):
		return "Error"
	}
	return ""
}

// c16SpaceIDs lists the SpaceID strings carried by a message (for the
// invalid-UTF-8 classification of a round-trip difference).
func c16SpaceIDs(m Message) []string {
	switch x := m.(type) {
	case *ReportQualities:
		var out []string
		for _, q := range x.Qualities {
			if q != nil && q.WorkSpaceQuality != nil {
				out = append(out, q.SpaceID)
			}
		}
		return out
	case *RequestProof:
		return []string{x.SpaceID}
	case *ReportProof:
		if x.Proof != nil {
			return []string{x.Proof.SpaceID}
		}
	case *RequestSignature:
		return []string{x.SpaceID}
	case *ReportSignature:
		return []string{x.SpaceID}
	}
	return nil
}

// ------------------------------------------------------------------ grammar

type c16Kind int

const (
	kUUID c16Kind = iota
	kHash
	kHexAny
	kG1
	kG2
	kStr
	kU64
	kU32
	kU8
	kList // "qualities": array of quality objects
	kObj  // "proof": proof object
)

type c16Field struct {
	name   string
	kind   c16Kind
	valid  string // valid string content (without quotes) or number literal
	nested bool   // field of the container element
}

type c16Grammar struct {
	typ    MsgType
	fields []c16Field
}

const c16ValidTID = "6ba7b810-9dad-11d1-80b4-00c04fd430c8"

func (d *c16Dom) grammars() []*c16Grammar {
	h := hex.EncodeToString(d.hashes[2][:])
	g1a := hex.EncodeToString(d.g1s[2].Bytes())
	g1b := hex.EncodeToString(d.g1s[3].Bytes())
	g2 := hex.EncodeToString(d.g2s[2].Bytes())
	blob := hex.EncodeToString(d.blobs[2])
	return []*c16Grammar{
		{MsgTypeRequestQualities, []c16Field{
			{"task_id", kUUID, c16ValidTID, false}, {"challenge", kHash, h, false},
			{"parent_target", kHexAny, "0fedcba987654321", false},
			{"parent_slot", kU64, "7", false}, {"height", kU64, "9", false}}},
		{MsgTypeReportQualities, []c16Field{
			{"task_id", kUUID, c16ValidTID, false}, {"qualities", kList, "", false},
			{"space_id", kStr, "space-1", true}, {"public_key", kG1, g1a, true}, {"pool_public_key", kG1, g1b, true},
			{"index", kU32, "7", true}, {"k_size", kU8, "32", true}, {"quality", kHexAny, blob, true},
			{"plot_id", kHash, h, true}, {"slot", kU64, "9", true}}},
		{MsgTypeRequestProof, []c16Field{
			{"task_id", kUUID, c16ValidTID, false}, {"height", kU64, "9", false}, {"space_id", kStr, "space-1", false},
			{"challenge", kHash, h, false}, {"index", kU32, "7", false}}},
		{MsgTypeReportProof, []c16Field{
			{"task_id", kUUID, c16ValidTID, false}, {"proof", kObj, "", false},
			{"space_id", kStr, "space-1", true}, {"challenge", kHash, h, true}, {"pool_public_key", kG1, g1b, true},
			{"plot_public_key", kG1, g1a, true}, {"k_size", kU8, "32", true}, {"proof", kHexAny, blob, true}}},
		{MsgTypeRequestSignature, []c16Field{
			{"task_id", kUUID, c16ValidTID, false}, {"height", kU64, "9", false}, {"space_id", kStr, "space-1", false},
			{"hash", kHash, h, false}}},
		{MsgTypeReportSignature, []c16Field{
			{"task_id", kUUID, c16ValidTID, false}, {"space_id", kStr, "space-1", false}, {"hash", kHash, h, false},
			{"signature", kG2, g2, false}}},
	}
}

var (
	c16StrClasses  = []string{"valid", "absent", "null", "empty", "num", "arr", "obj", "bool", "badhex", "oddhex", "short", "long", "upper", "rawff", "escaped"}
	c16UUIDExtra   = []string{"braces", "urn", "nodash"}
	c16GExtra      = []string{"noflag", "inf-noncanon", "x0"}
	c16NumClasses  = []string{"valid", "absent", "null", "zero", "max", "over", "neg", "negzero", "float", "exp", "str", "arr", "obj", "bool", "bignum", "leadzero", "plus"}
	c16ListClasses = []string{"valid", "absent", "null", "empty", "nullelem", "valid+null", "null+valid", "emptyobj", "two", "valid+emptyobj", "num", "str", "bool", "obj", "numelem", "strelem", "arrelem"}
	c16ObjClasses  = []string{"valid", "absent", "null", "empty", "num", "str", "bool", "arr", "arr-of-valid"}
)

// c16Classes: the value classes of a field kind; index 0 is always "valid".
func c16Classes(k c16Kind) []string {
	switch k {
	case kUUID:
		return append(append([]string{}, c16StrClasses...), c16UUIDExtra...)
	case kG1, kG2:
		return append(append([]string{}, c16StrClasses...), c16GExtra...)
	case kHash, kHexAny, kStr:
		return c16StrClasses
	case kU64, kU32, kU8:
		return c16NumClasses
	case kList:
		return c16ListClasses
	case kObj:
		return c16ObjClasses
	}
	return nil
}

// c16KeepsElem: container classes that still contain the (nested) element.
func c16KeepsElem(class string) bool {
	switch class {
	case "valid", "valid+null", "null+valid", "two", "valid+emptyobj", "arr-of-valid":
		return true
	}
	return false
}

func c16JSONStr(s string) string { return `"` + s + `"` }

// c16Literal renders the JSON literal of a scalar field in a class (present =
// false: the key is omitted).
func c16Literal(f c16Field, class string) (lit string, present bool) {
	v := f.valid
	switch f.kind {
	case kU64, kU32, kU8:
		max := map[c16Kind]string{kU64: "18446744073709551615", kU32: "4294967295", kU8: "255"}[f.kind]
		over := map[c16Kind]string{kU64: "18446744073709551616", kU32: "4294967296", kU8: "256"}[f.kind]
		switch class {
		case "valid":
			return v, true
		case "absent":
			return "", false
		case "null":
			return "null", true
		case "zero":
			return "0", true
		case "max":
			return max, true
		case "over":
			return over, true
		case "neg":
			return "-1", true
		case "negzero":
			return "-0", true
		case "float":
			return "1.5", true
		case "exp":
			return "1e0", true
		case "str":
			return `"1"`, true
		case "arr":
			return "[]", true
		case "obj":
			return "{}", true
		case "bool":
			return "true", true
		case "bignum":
			return strings.Repeat("9", 400), true
		case "leadzero":
			return "01", true
		case "plus":
			return "+1", true
		}
	default:
		switch class {
		case "valid":
			return c16JSONStr(v), true
		case "absent":
			return "", false
		case "null":
			return "null", true
		case "empty":
			return `""`, true
		case "num":
			return "123", true
		case "arr":
			return "[]", true
		case "obj":
			return "{}", true
		case "bool":
			return "true", true
		case "badhex":
			return c16JSONStr("g" + v[1:]), true
		case "oddhex":
			return c16JSONStr(v[:len(v)-1]), true
		case "short":
			return c16JSONStr(v[:len(v)-2]), true
		case "long":
			return c16JSONStr(v + "00"), true
		case "upper":
			return c16JSONStr(strings.ToUpper(v)), true
		case "rawff":
			return "\"\xff" + v[1:] + "\"", true
		case "escaped":
			return fmt.Sprintf("\"\\u%04x%s\"", v[0], v[1:]), true
		case "braces":
			return c16JSONStr("{" + v + "}"), true
		case "urn":
			return c16JSONStr("urn:uuid:" + v), true
		case "nodash":
			return c16JSONStr(strings.ReplaceAll(v, "-", "")), true
		case "noflag":
			return c16JSONStr(strings.Repeat("11", len(v)/2)), true
		case "inf-noncanon":
			return c16JSONStr("c0" + strings.Repeat("00", len(v)/2-2) + "01"), true
		case "x0":
			return c16JSONStr("80" + strings.Repeat("00", len(v)/2-1)), true
		}
	}
	panic("c16: no literal for class " + class)
}

// c16Accepts is the reference predictor: does a decoder that implements the
// documented field formats accept this (kind, class)? It is written from the
// format description only (UUID text forms of RFC 4122 as accepted by
// google/uuid; hashes = exactly 64 hex digits; G1/G2 = 48/96-byte compressed
// group elements; byte strings = any even-length hex including ""; integers =
// JSON integers in range; absent and null leave the zero value).
func c16Accepts(k c16Kind, class string) bool {
	switch k {
	case kU64, kU32, kU8:
		switch class {
		case "valid", "absent", "null", "zero", "max":
			return true
		}
		return false
	case kStr:
		switch class {
		case "num", "arr", "obj", "bool":
			return false
		}
		return true
	case kHexAny:
		switch class {
		case "valid", "absent", "null", "empty", "short", "long", "upper", "escaped":
			return true
		}
		return false
	case kHash, kG1, kG2:
		switch class {
		case "valid", "upper", "escaped":
			return true
		}
		return false
	case kUUID:
		switch class {
		case "valid", "upper", "escaped", "braces", "urn", "nodash":
			return true
		}
		return false
	case kList:
		switch class {
		case "valid", "absent", "null", "empty", "two":
			return true
		}
		return false
	case kObj:
		return class == "valid"
	}
	return false
}

// c16Dev is one deviation from the valid body: field index and class.
type c16Dev struct {
	field int
	class string
}

func (g *c16Grammar) container() int {
	for i, f := range g.fields {
		if f.kind == kList || f.kind == kObj {
			return i
		}
	}
	return -1
}

// body renders the JSON body with the given deviations applied and returns the
// reference prediction.
func (g *c16Grammar) body(devs []c16Dev) (body []byte, accept bool) {
	classOf := func(i int) string {
		for _, d := range devs {
			if d.field == i {
				return d.class
			}
		}
		return "valid"
	}
	accept = true
	var elem bytes.Buffer
	if g.container() >= 0 {
		elem.WriteByte('{')
		first := true
		for i, f := range g.fields {
			if !f.nested {
				continue
			}
			lit, present := c16Literal(f, classOf(i))
			if !present {
				continue
			}
			if !first {
				elem.WriteByte(',')
			}
			first = false
			elem.WriteString(c16JSONStr(f.name) + ":" + lit)
		}
		elem.WriteByte('}')
	}
	var b bytes.Buffer
	b.WriteByte('{')
	first := true
	for i, f := range g.fields {
		if f.nested {
			// judged as part of the element; counts when the element is kept
			if c16KeepsElem(classOf(g.container())) && !c16Accepts(f.kind, classOf(i)) {
				accept = false
			}
			continue
		}
		cl := classOf(i)
		if !c16Accepts(f.kind, cl) {
			accept = false
		}
		var lit string
		present := true
		switch f.kind {
		case kList, kObj:
			e := elem.String()
			switch cl {
			case "valid":
				if f.kind == kList {
					lit = "[" + e + "]"
				} else {
					lit = e
				}
			case "absent":
				present = false
			case "null":
				lit = "null"
			case "empty":
				if f.kind == kList {
					lit = "[]"
				} else {
					lit = "{}"
				}
			case "nullelem":
				lit = "[null]"
			case "valid+null":
				lit = "[" + e + ",null]"
			case "null+valid":
				lit = "[null," + e + "]"
			case "emptyobj":
				lit = "[{}]"
			case "two":
				lit = "[" + e + "," + e + "]"
			case "valid+emptyobj":
				lit = "[" + e + ",{}]"
			case "num":
				lit = "1"
			case "str":
				lit = `"x"`
			case "bool":
				lit = "true"
			case "obj":
				lit = "{}"
			case "arr":
				lit = "[]"
			case "numelem":
				lit = "[1]"
			case "strelem":
				lit = `["x"]`
			case "arrelem":
				lit = "[[]]"
			case "arr-of-valid":
				lit = "[" + e + "]"
			default:
				panic("c16: container class " + cl)
			}
		default:
			lit, present = c16Literal(f, cl)
		}
		if !present {
			continue
		}
		if !first {
			b.WriteByte(',')
		}
		first = false
		b.WriteString(c16JSONStr(f.name) + ":" + lit)
	}
	b.WriteByte('}')
	return b.Bytes(), accept
}

func (g *c16Grammar) devName(d c16Dev) string {
	f := g.fields[d.field]
	n := f.name
	if f.nested {
		n = g.fields[g.container()].name + "." + n
	}
	return n + "=" + d.class
}

// singles / doubles enumerate the deviation sets.
func (g *c16Grammar) singles() [][]c16Dev {
	var out [][]c16Dev
	for i, f := range g.fields {
		for _, cl := range c16Classes(f.kind)[1:] {
			out = append(out, []c16Dev{{i, cl}})
		}
	}
	return out
}

func (g *c16Grammar) doubles() (out [][]c16Dev, pruned int) {
	c := g.container()
	for i, fi := range g.fields {
		for j := i + 1; j < len(g.fields); j++ {
			fj := g.fields[j]
			for _, ci := range c16Classes(fi.kind)[1:] {
				for _, cj := range c16Classes(fj.kind)[1:] {
					// a deviation inside the element is moot when the element is gone
					if (i == c && fj.nested && !c16KeepsElem(ci)) || (j == c && fi.nested && !c16KeepsElem(cj)) {
						pruned++
						continue
					}
					out = append(out, []c16Dev{{i, ci}, {j, cj}})
				}
			}
		}
	}
	return out, pruned
}

// whole-body transformations of the valid body (reference prediction attached).
type c16BodyVariant struct {
	name   string
	body   []byte
	accept bool
}

func (g *c16Grammar) bodyVariants() []c16BodyVariant {
	valid, _ := g.body(nil)
	v := string(valid)
	inner := v[1 : len(v)-1]
	upperKeys := v
	for _, f := range g.fields {
		upperKeys = strings.ReplaceAll(upperKeys, c16JSONStr(f.name)+":", c16JSONStr(strings.ToUpper(f.name))+":")
	}
	allNull := "{"
	for i, f := range g.fields {
		if f.nested {
			continue
		}
		if i > 0 {
			allNull += ","
		}
		allNull += c16JSONStr(f.name) + ":null"
	}
	allNull += "}"
	mk := func(name, body string, accept bool) c16BodyVariant { return c16BodyVariant{name, []byte(body), accept} }
	return []c16BodyVariant{
		mk("valid", v, true),
		mk("whitespace", " \t\r\n" + strings.ReplaceAll(v, ",", " ,\n ") + " \n", true),
		mk("unknown-key", `{"zz_unknown":{"a":[1,2,{"b":null}]},` + inner + "}", true),
		mk("unknown-key-last", "{" + inner + `,"":[]}`, true),
		mk("duplicate-keys", "{" + inner + "," + inner + "}", true),
		mk("upper-case-keys", upperKeys, true),
		mk("bom", "\xef\xbb\xbf" + v, false),
		mk("trailing-garbage", v + "x", false),
		mk("trailing-object", v + v, false),
		mk("trailing-nul", v + "\x00", false),
		mk("leading-nul", "\x00" + v, false),
		mk("empty-body", "", false),
		mk("all-absent", "{}", false),
		mk("all-null", allNull, false),
		mk("json-null", "null", false),
		mk("json-array", "[" + v + "]", false),
		mk("json-string", `"` + strings.ReplaceAll(v, `"`, `\"`) + `"`, false),
		mk("json-number", "1", false),
		mk("json-true", "true", false),
		mk("unterminated", v[:len(v)-1], false),
		mk("single-quotes", strings.ReplaceAll(v, `"`, "'"), false),
		mk("trailing-comma", "{" + inner + ",}", false),
		mk("deep-unknown", `{"zz":` + strings.Repeat("[", 10001) + strings.Repeat("]", 10001) + "," + inner + "}", false),
		mk("deep-unknown-ok", `{"zz":` + strings.Repeat("[", 9000) + strings.Repeat("]", 9000) + "," + inner + "}", true),
	}
}
