//go:build go1.21

package protocol

// C16 — the cluster wire codec is total and lossless.
//
// Bounded-exhaustive exploration of the real EncodeMessage / DecodeMessage:
//
//	roundtrip  full product of small per-field domains for the six message types:
//	           DecodeMessage(EncodeMessage(m)) equals m field by field, re-encodes to
//	           the same bytes, and encoding does not modify m;
//	sweep      every byte string of length <= 3, and every string of length 4
//	           (thorough: 5) whose first two bytes are a type in 0..7;
//	mutation   for every valid encoding of a representative set: every single-byte
//	           substitution (all 256 values at every position), every truncation,
//	           every insertion of a structural character / "null" at every position
//	           (thorough: double substitutions on the structural positions);
//	grammar    JSON bodies in which every field independently takes a value class
//	           (absent, null, valid, "", wrong type, bad/odd/short/long hex, ...): all
//	           single and double deviations from the valid body, under every type
//	           prefix 0..7 and 0xffff, compared with an accept/reject predictor written
//	           from the format description;
//	memory     inputs of the receive limit (2 MiB) measured call by call;
//	recvlimit  connection.Conn over net.Pipe: frames up to the limit are delivered,
//	           a frame above the limit closes the connection before its body is read
//	           or a buffer of that size is allocated.
//
// Every DecodeMessage call runs under vk.Catch; an accepted message must be
// well formed (re-encodable, and the re-encoding decodes to the same value).
// Allocation guard: every unit of work is bracketed by runtime.MemStats
// (TotalAlloc); the process-wide delta is an upper bound for every call in the
// unit, and a unit above the threshold is re-run call by call with all other
// workers stopped. Hangs: no timing oracle; a stuck unit is reported by the
// global deadline as a cap together with the unit in flight.

import (
	"bytes"
	"context"
	"encoding/binary"
	"encoding/hex"
	"errors"
	"fmt"
	"io"
	"math/big"
	"net"
	"os"
	"path/filepath"
	"reflect"
	"runtime"
	"sort"
	"strconv"
	"strings"
	"sync"
	"sync/atomic"
	"testing"
	"time"
	"unicode/utf8"

	"github.com/massnetorg/mass-core/logging"
	"github.com/massnetorg/mass-core/poc/chiapos"
	"massnet.org/mass/fractal/connection"
	"massnet.org/mass/zz_verif/vk"
)

const (
	c16MemLimit  = 512 << 20 // allocation allowed to one DecodeMessage call (inputs <= 2 MiB): a constant multiple (256x) of the receive limit
	c16RecvLimit = 2 * 1024 * 1024
)

type c16 struct {
	r    *vk.Run
	dom  *c16Dom
	excl sync.RWMutex // units hold R; a call-by-call re-measurement holds W
	stop atomic.Bool

	inflight sync.Map // unit id -> start time

	nAccept, nError, nPanic atomic.Int64
	nDeep                   atomic.Int64
	memUnits, memEscalated  atomic.Int64
	memPerCall              atomic.Int64
	memMaxUnit              atomic.Int64
	memMaxCall              atomic.Int64

	mu         sync.Mutex
	perPhase   map[string]*[3]int64 // accept, error, panic
	memMaxWhat string
	memMaxIn   int
}

type c16Case struct {
	Kind  string `json:"kind"` // "decode" | "roundtrip" | "memory" | "recvlimit"
	Phase string `json:"phase,omitempty"`
	Hex   string `json:"hex,omitempty"`
	Text  string `json:"text,omitempty"`
	Len   int    `json:"len,omitempty"`
	Type  int    `json:"type,omitempty"`
	Index int    `json:"index,omitempty"`
	Name  string `json:"name,omitempty"`
}

func c16Preview(data []byte) string {
	if len(data) > 160 {
		return strconv.QuoteToASCII(string(data[:120])) + fmt.Sprintf("...(%d bytes)", len(data))
	}
	return strconv.QuoteToASCII(string(data))
}

func c16DecodeCase(phase string, data []byte) c16Case {
	c := c16Case{Kind: "decode", Phase: phase, Len: len(data), Text: c16Preview(data)}
	if len(data) <= 1<<16 {
		c.Hex = hex.EncodeToString(data)
	}
	return c
}

func c16TypeNum(data []byte) int {
	if len(data) < 2 {
		return -1
	}
	return int(binary.BigEndian.Uint16(data))
}

func c16FirstLine(s string) string {
	if i := strings.IndexByte(s, '\n'); i >= 0 {
		return s[:i]
	}
	return s
}

func (c *c16) count(phase string, v int) {
	c.mu.Lock()
	p := c.perPhase[phase]
	if p == nil {
		p = new([3]int64)
		c.perPhase[phase] = p
	}
	p[v]++
	c.mu.Unlock()
}

// ------------------------------------------------------------------ decode oracle

const (
	vAccept = 0
	vError  = 1
	vPanic  = 2
)

// decodeCheck is the totality oracle for one input.
func (c *c16) decodeCheck(phase string, data []byte, deep bool, cnt *[3]int64) int {
	var m Message
	var err error
	p := vk.Catch(func() { m, err = DecodeMessage(data) })
	tn := c16TypeOf(data)
	if p != "" {
		cnt[vPanic]++
		fp := "C16/panic/" + vk.PanicSite(p) + "/" + tn
		c.r.Violation(fp, fmt.Sprintf("DecodeMessage panicked (%s) on the %d-byte %s input %s [phase %s]",
			c16FirstLine(p), len(data), tn, c16Preview(data), phase), c16DecodeCase(phase, data))
		return vPanic
	}
	if err != nil {
		cnt[vError]++
		return vError
	}
	cnt[vAccept]++
	if bad, why := c.wellFormed(m, data, deep); bad != "" {
		c.r.Violation("C16/illformed/"+tn+"/"+bad, fmt.Sprintf("DecodeMessage accepted the %d-byte %s input %s but the result is not a well-formed message: %s [phase %s]",
			len(data), tn, c16Preview(data), why, phase), c16DecodeCase(phase, data))
	}
	return vAccept
}

func c16IsNil(m Message) bool {
	if m == nil {
		return true
	}
	v := reflect.ValueOf(m)
	return v.Kind() == reflect.Ptr && v.IsNil()
}

// wellFormed: an accepted message has the announced type, re-encodes without
// panic or error, and (deep) its encoding decodes to the same value and bytes.
func (c *c16) wellFormed(m Message, data []byte, deep bool) (bad, why string) {
	if c16IsNil(m) {
		return "nil-message", "nil message with nil error"
	}
	if len(data) < 2 || uint16(m.MsgType()) != binary.BigEndian.Uint16(data) {
		return "wrong-type", fmt.Sprintf("message type %d for prefix % x", m.MsgType(), data[:2])
	}
	var enc []byte
	var err error
	if p := vk.Catch(func() { enc, err = EncodeMessage(m) }); p != "" {
		return "reencode-panic/" + vk.PanicSite(p), "EncodeMessage panics: " + c16FirstLine(p)
	}
	if err != nil {
		return "reencode-error", "EncodeMessage: " + err.Error()
	}
	if len(enc) < 2 || !bytes.Equal(enc[:2], data[:2]) {
		return "reencode-type", fmt.Sprintf("re-encoding starts with % x", enc[:2])
	}
	if !deep {
		return "", ""
	}
	c.nDeep.Add(1)
	var m2 Message
	if p := vk.Catch(func() { m2, err = DecodeMessage(enc) }); p != "" {
		return "redecode-panic/" + vk.PanicSite(p), "decoding the re-encoding panics: " + c16FirstLine(p)
	}
	if err != nil {
		return "redecode-error", "the re-encoding " + c16Preview(enc) + " is rejected: " + err.Error()
	}
	if f := c16Equal(m, m2); f != "" {
		return "unstable/" + f, "decode(encode(msg)) differs from msg in " + f
	}
	var enc2 []byte
	if p := vk.Catch(func() { enc2, err = EncodeMessage(m2) }); p != "" || err != nil || !bytes.Equal(enc, enc2) {
		return "unstable-bytes", "second re-encoding differs"
	}
	return "", ""
}

// ------------------------------------------------------------------ guarded units

type c16Visit func(data []byte, tag string)

// unit runs gen (deterministic; calls visit for every input) under the
// allocation guard.
func (c *c16) unit(id string, phase string, deep bool, gen func(visit c16Visit)) {
	if c.stop.Load() {
		return
	}
	if c.r.Expired() {
		c.stop.Store(true)
		return
	}
	c.inflight.Store(id, time.Now())
	defer c.inflight.Delete(id)
	var cnt [3]int64
	var n int64
	var m0, m1 runtime.MemStats
	c.excl.RLock()
	runtime.ReadMemStats(&m0)
	gen(func(data []byte, tag string) {
		n++
		c.decodeCheck(phase, data, deep, &cnt)
	})
	runtime.ReadMemStats(&m1)
	c.excl.RUnlock()
	c.memUnits.Add(1)
	c.r.Eval(int(n))
	c.nAccept.Add(cnt[vAccept])
	c.nError.Add(cnt[vError])
	c.nPanic.Add(cnt[vPanic])
	c.mu.Lock()
	p := c.perPhase[phase]
	if p == nil {
		p = new([3]int64)
		c.perPhase[phase] = p
	}
	for i := range cnt {
		p[i] += cnt[i]
	}
	c.mu.Unlock()
	delta := int64(m1.TotalAlloc - m0.TotalAlloc)
	for {
		old := c.memMaxUnit.Load()
		if delta <= old || c.memMaxUnit.CompareAndSwap(old, delta) {
			break
		}
	}
	if delta < c16MemLimit {
		return // upper bound for every call of the unit
	}
	c.memEscalated.Add(1)
	c.excl.Lock()
	gen(func(data []byte, tag string) { c.measureCall(phase, data, tag) })
	c.excl.Unlock()
}

// measureCall measures the bytes allocated by one DecodeMessage call. Must run
// with c.excl held for writing (no other unit is running).
func (c *c16) measureCall(phase string, data []byte, tag string) (delta int64, outcome string) {
	var m0, m1 runtime.MemStats
	var err error
	runtime.ReadMemStats(&m0)
	p := vk.Catch(func() { _, err = DecodeMessage(data) })
	runtime.ReadMemStats(&m1)
	delta = int64(m1.TotalAlloc - m0.TotalAlloc)
	c.memPerCall.Add(1)
	switch {
	case p != "":
		outcome = "panic"
	case err != nil:
		outcome = "error"
	default:
		outcome = "accept"
	}
	if delta > c.memMaxCall.Load() {
		c.memMaxCall.Store(delta)
		c.mu.Lock()
		c.memMaxWhat = phase + "/" + c16TypeOf(data) + "/" + tag
		c.memMaxIn = len(data)
		c.mu.Unlock()
	}
	if delta >= c16MemLimit {
		if tag == "" {
			tag = phase
		}
		c.r.Violation("C16/memory/"+c16TypeOf(data)+"/"+tag,
			fmt.Sprintf("DecodeMessage allocated %d bytes (%.0fx the input; limit %d) for the %d-byte input %s (outcome %s)", delta, float64(delta)/float64(max(len(data), 1)), int64(c16MemLimit), len(data), c16Preview(data), outcome),
			c16Case{Kind: "memory", Phase: phase, Name: tag, Len: len(data), Text: c16Preview(data), Type: c16TypeNum(data)})
	}
	return delta, outcome
}

// units runs n units in parallel.
func (c *c16) units(n int, fn func(u int)) {
	vk.ParallelFor(n, func(u int) {
		if c.stop.Load() {
			return
		}
		fn(u)
	})
}

// phase runs fn in a worker goroutine; the only thing the caller does with time
// is to apply the global deadline as a cap.
func (c *c16) phase(name string, fn func()) bool {
	t0 := time.Now()
	done := make(chan struct{})
	go func() {
		defer close(done)
		fn()
	}()
	tick := time.NewTicker(200 * time.Millisecond)
	defer tick.Stop()
	for {
		select {
		case <-done:
			if c.stop.Load() {
				c.r.Cap("deadline reached in phase " + name + " (remaining units skipped)")
				return false
			}
			c.r.Set("wall_s_"+name, time.Since(t0).Seconds())
			return true
		case <-tick.C:
			if c.r.Expired() {
				c.stop.Store(true)
				// give running units a moment to finish; what is left is stuck
				select {
				case <-done:
					c.r.Cap("deadline reached in phase " + name + " (remaining units skipped)")
				case <-time.After(20 * time.Second):
					var ids []string
					c.inflight.Range(func(k, v interface{}) bool {
						ids = append(ids, fmt.Sprintf("%v (running %.0fs)", k, time.Since(v.(time.Time)).Seconds()))
						return true
					})
					sort.Strings(ids)
					c.r.Cap("deadline reached in phase " + name + "; units still running: " + strings.Join(ids, "; "))
				}
				return false
			}
		}
	}
}

// ------------------------------------------------------------------ round trip

func (c *c16) roundTrip() {
	types := c.dom.roundTripTypes()
	var invalidUTF8Lost, invalidUTF8Total atomic.Int64
	for _, rt := range types {
		rt := rt
		tn := c16TypeName(rt.typ)
		const chunk = 64
		nUnits := (rt.n + chunk - 1) / chunk
		c.units(nUnits, func(u int) {
			if c.r.Expired() {
				c.stop.Store(true)
				return
			}
			id := fmt.Sprintf("roundtrip/%s/%d", tn, u)
			c.inflight.Store(id, time.Now())
			defer c.inflight.Delete(id)
			lo, hi := u*chunk, (u+1)*chunk
			if hi > rt.n {
				hi = rt.n
			}
			for i := lo; i < hi; i++ {
				c.roundTripOne(rt, i, &invalidUTF8Total, &invalidUTF8Lost)
			}
			c.r.Eval(hi - lo)
		})
		c.r.DistinctN(rt.n)
		c.r.Set("roundtrip_messages_"+tn, rt.n)
	}
	c.r.Set("roundtrip_messages_with_invalid_utf8_space_id", invalidUTF8Total.Load())
	c.r.Set("roundtrip_invalid_utf8_space_id_lost", invalidUTF8Lost.Load())
}

func (c *c16) roundTripOne(rt *c16RT, i int, utfTotal, utfLost *atomic.Int64) {
	tn := c16TypeName(rt.typ)
	m := rt.build(i)
	ref := rt.build(i) // independent copy: the expected value
	rcase := c16Case{Kind: "roundtrip", Type: int(rt.typ), Index: i}
	fail := func(clause, what string) {
		c.r.Violation("C16/roundtrip/"+tn+"/"+clause, fmt.Sprintf("%s message #%d (%s): %s", tn, i, c16Describe(ref), what), rcase)
	}
	badUTF := false
	for _, s := range c16SpaceIDs(ref) {
		if !utf8.ValidString(s) {
			badUTF = true
		}
	}
	if badUTF {
		utfTotal.Add(1)
	}
	var enc []byte
	var err error
	if p := vk.Catch(func() { enc, err = EncodeMessage(m) }); p != "" {
		fail("encode-panic/"+vk.PanicSite(p), "EncodeMessage panics: "+c16FirstLine(p))
		return
	}
	if err != nil {
		fail("encode-error", "EncodeMessage: "+err.Error())
		return
	}
	if f := c16Equal(m, ref); f != "" {
		fail("encode-modifies/"+f, "EncodeMessage modified the message in "+f)
		return
	}
	if len(enc) > c16RecvLimit {
		fail("oversize", fmt.Sprintf("encoding has %d bytes, above the receive limit", len(enc)))
	}
	var dec Message
	if p := vk.Catch(func() { dec, err = DecodeMessage(enc) }); p != "" {
		fail("decode-panic/"+vk.PanicSite(p), "DecodeMessage panics on the encoding "+c16Preview(enc)+": "+c16FirstLine(p))
		return
	}
	rcase.Hex = hex.EncodeToString(enc[:min(len(enc), 4096)])
	if err != nil {
		fail("decode-error", "the encoding "+c16Preview(enc)+" is rejected: "+err.Error())
		return
	}
	if c16IsNil(dec) {
		fail("decode-nil", "nil message with nil error")
		return
	}
	if reflect.TypeOf(dec) != reflect.TypeOf(ref) {
		fail("decode-type", fmt.Sprintf("decoded as %T", dec))
		return
	}
	if f := c16Equal(ref, dec); f != "" {
		if badUTF && strings.HasSuffix(f, "SpaceID") {
			// one root cause for all five SpaceID-carrying types: the string travels
			// as a JSON string and encoding/json replaces invalid UTF-8 by U+FFFD.
			utfLost.Add(1)
			c.r.Violation("C16/roundtrip/space-id-invalid-utf8", fmt.Sprintf("%s message #%d (%s): a SpaceID that is not valid UTF-8 comes back changed (field %s; wire %s)",
				tn, i, c16Describe(ref), f, c16Preview(enc)), rcase)
			return
		}
		fail("field/"+f, "decode(encode(m)) differs from m in "+f+"; wire "+c16Preview(enc))
		return
	}
	var enc2 []byte
	if p := vk.Catch(func() { enc2, err = EncodeMessage(dec) }); p != "" {
		fail("reencode-panic/"+vk.PanicSite(p), "EncodeMessage of the decoded message panics: "+c16FirstLine(p))
		return
	}
	if err != nil || !bytes.Equal(enc, enc2) {
		fail("reencode-bytes", fmt.Sprintf("re-encoding differs (err %v): %s vs %s", err, c16Preview(enc), c16Preview(enc2)))
	}
}

func c16Describe(m Message) string {
	var b []byte
	var err error
	if p := vk.Catch(func() { b, err = m.Bytes() }); p != "" || err != nil {
		return fmt.Sprintf("%T", m)
	}
	return c16Preview(b)
}

// probes of what the wire format does not carry / what the encoder cannot
// take: recorded as information, not judged.
func (c *c16) probes() {
	d := c.dom
	info := map[string]string{}
	rt := func(m Message) (Message, string) {
		var enc []byte
		var err error
		var dec Message
		if p := vk.Catch(func() { enc, err = EncodeMessage(m) }); p != "" {
			return nil, "encode panics at " + vk.PanicSite(p)
		}
		if err != nil {
			return nil, "encode error " + err.Error()
		}
		if p := vk.Catch(func() { dec, err = DecodeMessage(enc) }); p != "" {
			return nil, "decode panics at " + vk.PanicSite(p)
		}
		if err != nil {
			return nil, "decode error " + err.Error()
		}
		return dec, ""
	}
	base := func() *ReportProof { return d.reportProof([]int{1, 1, 2, 2, 3, 1, 2}) }
	note := func(name string, m, ref Message) {
		dec, e := rt(m)
		if e != "" {
			info[name] = e
			return
		}
		if f := c16Equal(m, dec); f != "" {
			info[name] = "not carried (differs in " + f + ")"
		} else {
			info[name] = "carried"
		}
		_ = ref
	}
	p1 := base()
	p1.Proof.Ordinal = 7
	note("ReportProof.Proof.Ordinal=7", p1, nil)
	p2 := base()
	p2.Proof.Error = errors.New("x")
	note("ReportProof.Proof.Error!=nil", p2, nil)
	p3 := base()
	p3.Proof.Proof.PuzzleHash = [32]byte{1}
	note("ReportProof.Proof.Proof.PuzzleHash!=0", p3, nil)
	p4 := base()
	p4.Proof.PublicKey = d.g1s[0].Copy()
	note("ReportProof.Proof.PublicKey!=PlotPublicKey", p4, nil)
	p5 := base()
	p5.Proof.Proof.PoolPublicKey = nil
	note("ReportProof.Proof.Proof.PoolPublicKey=nil", p5, nil)
	p6 := base()
	p6.Proof = nil
	note("ReportProof.Proof=nil", p6, nil)
	q := d.quality([]int{1, 2, 3, 1, 1, 2, 2, 1})
	q.Error = errors.New("x")
	note("Quality.Error!=nil", &ReportQualities{TaskID: d.tids[1], Qualities: []*Quality{q}}, nil)
	note("ReportQualities.Qualities=[nil]", &ReportQualities{TaskID: d.tids[1], Qualities: []*Quality{nil}}, nil)
	note("Quality.WorkSpaceQuality=nil", &ReportQualities{TaskID: d.tids[1], Qualities: []*Quality{{Slot: 1}}}, nil)
	note("RequestQualities.ParentTarget=nil", &RequestQualities{TaskID: d.tids[1]}, nil)
	note("RequestQualities.ParentTarget=-1", &RequestQualities{TaskID: d.tids[1], ParentTarget: big.NewInt(-1)}, nil)
	note("ReportSignature.Signature=nil", &ReportSignature{TaskID: d.tids[1]}, nil)
	c.r.Set("outside_domain_probes", info)
}

// ------------------------------------------------------------------ sweeps

func (c *c16) sweepShort() {
	// length 0 and 1
	c.unit("sweep/len01", "sweep", true, func(visit c16Visit) {
		visit([]byte{}, "len0")
		visit(nil, "nil")
		for b := 0; b < 256; b++ {
			visit([]byte{byte(b)}, "len1")
		}
	})
	// length 2 and 3: unit = first byte and four second bytes
	c.units(256*64, func(u int) {
		b0 := byte(u / 64)
		c.unit(fmt.Sprintf("sweep/len23/%02x/%d", b0, u%64), "sweep", true, func(visit c16Visit) {
			buf := make([]byte, 3)
			buf[0] = b0
			for k := 0; k < 4; k++ {
				buf[1] = byte(u%64*4 + k)
				visit(buf[:2], "len2")
				for b2 := 0; b2 < 256; b2++ {
					buf[2] = byte(b2)
					visit(buf[:3], "len3")
				}
			}
		})
	})
	n := 2 + 256 + 65536 + 16777216
	c.r.Set("sweep_all_strings_up_to_len", 3)
	c.r.Set("sweep_all_strings_count", n)
	c.r.DistinctN(6 * (1 + 256)) // those that reach a message decoder
}

// sweepTyped: every body of the given length behind each type prefix 0..7.
func (c *c16) sweepTyped(bodyLen int) {
	switch bodyLen {
	case 2:
		c.units(8*256, func(u int) {
			t, c0 := u/256, byte(u%256)
			c.unit(fmt.Sprintf("sweep4/%d/%02x", t, c0), "sweep", true, func(visit c16Visit) {
				buf := []byte{0, byte(t), c0, 0}
				for c1 := 0; c1 < 256; c1++ {
					buf[3] = byte(c1)
					visit(buf, "len4")
				}
			})
		})
		c.r.DistinctN(6 * 65536)
	case 3:
		c.units(8*256*16, func(u int) {
			t, c0, hi := u/(256*16), byte(u/16%256), u%16
			c.unit(fmt.Sprintf("sweep5/%d/%02x/%x", t, c0, hi), "sweep", true, func(visit c16Visit) {
				buf := []byte{0, byte(t), c0, 0, 0}
				for k := 0; k < 16; k++ {
					buf[3] = byte(hi*16 + k)
					for c2 := 0; c2 < 256; c2++ {
						buf[4] = byte(c2)
						visit(buf, "len5")
					}
				}
			})
		})
		c.r.DistinctN(6 * 16777216)
	}
	c.r.Set("sweep_typed_total_len", bodyLen+2)
}

// ------------------------------------------------------------------ mutation

// mutationBase: representative valid encodings (each-choice cover of the field
// domains; the 300-character string and the 4096-byte blob are replaced by the
// 32-byte ones to bound the work).
func (c *c16) mutationBase() (encs [][]byte, names []string) {
	d := c.dom
	small := *d
	small.strs = []string{"", "a", "space-2", "\u00ff\u2603z", "q\"uo\\te<>& \n\x00'"}
	small.blobs = [][]byte{nil, {0x00}, c16Pattern(32, 3), c16Pattern(5, 9)}
	kCgo := vk.Pick(c.r, 3, 5)
	var skipped []string
	defer func() {
		if len(skipped) > 0 {
			c.r.Set("mutation_base_messages_skipped_not_round_tripping", skipped)
		}
	}()
	add := func(name string, m Message) {
		var enc []byte
		var err error
		if p := vk.Catch(func() { enc, err = EncodeMessage(m) }); p != "" || err != nil {
			skipped = append(skipped, name)
			return
		}
		var derr error
		if p := vk.Catch(func() { _, derr = DecodeMessage(enc) }); p != "" || derr != nil {
			skipped = append(skipped, name) // already a round-trip violation; nothing valid to mutate
			return
		}
		encs = append(encs, enc)
		names = append(names, name)
	}
	for _, rt := range small.roundTripTypes() {
		tn := c16TypeName(rt.typ)
		if rt.dims == nil {
			// report-qualities: lists of length 0, 1, 1, 2 (thorough: also 1, 3)
			q := func(j int) *Quality { return small.quality(c16EachChoice(j, c16QualityDims)) }
			add(tn+"/len0", &ReportQualities{TaskID: small.tids[1]})
			add(tn+"/len1a", &ReportQualities{TaskID: small.tids[0], Qualities: []*Quality{q(0)}})
			add(tn+"/len1b", &ReportQualities{TaskID: small.tids[1], Qualities: []*Quality{q(1)}})
			add(tn+"/len2", &ReportQualities{TaskID: small.tids[1], Qualities: []*Quality{q(2), q(3)}})
			if c.r.Thorough() {
				add(tn+"/len1c", &ReportQualities{TaskID: small.tids[1], Qualities: []*Quality{q(4)}})
				add(tn+"/len3", &ReportQualities{TaskID: small.tids[0], Qualities: []*Quality{q(5), q(6), q(7)}})
			}
			continue
		}
		k := 5
		if c16HasCgo(rt.typ) {
			k = kCgo
		} else if c.r.Thorough() {
			// request types (no cgo behind them): the whole product of the domains
			for idx := 0; idx < rt.n; idx++ {
				add(fmt.Sprintf("%s/#%d", tn, idx), rt.build(idx))
			}
			continue
		}
		for j := 0; j < k; j++ {
			ch := c16EachChoice(j, rt.dims)
			idx, mul := 0, 1
			for a, dd := range rt.dims {
				idx += ch[a] * mul
				mul *= dd
			}
			add(fmt.Sprintf("%s/%d", tn, j), rt.build(idx))
		}
	}
	return encs, names
}

var c16Structural = []string{"{", "}", "[", "]", "\"", ",", ":", "\x00", "\\", "null", " "}

func (c *c16) mutation() {
	encs, names := c.mutationBase()
	total := 0
	for _, e := range encs {
		total += len(e)
	}
	c.r.Set("mutation_base_encodings", len(encs))
	c.r.Set("mutation_base_bytes", total)
	var inputs atomic.Int64

	// substitutions: unit = (encoding, position), all 256 values (255 mutants + identity)
	type pos struct{ e, p int }
	var ps []pos
	for e := range encs {
		for p := range encs[e] {
			ps = append(ps, pos{e, p})
		}
	}
	c.units(len(ps), func(u int) {
		e, p := ps[u].e, ps[u].p
		typ := MsgType(binary.BigEndian.Uint16(encs[e]))
		deep := c.r.Thorough() || !c16HasCgo(typ)
		c.unit(fmt.Sprintf("mutation/subst/%s@%d", names[e], p), "mutation", deep, func(visit c16Visit) {
			buf := append([]byte{}, encs[e]...)
			for v := 0; v < 256; v++ {
				buf[p] = byte(v)
				visit(buf, "substitution")
			}
		})
		inputs.Add(256)
	})
	// truncations and insertions: unit = (encoding, block of 16 positions)
	type blk struct{ e, lo int }
	var bs []blk
	for e := range encs {
		for lo := 0; lo <= len(encs[e]); lo += 16 {
			bs = append(bs, blk{e, lo})
		}
	}
	c.units(len(bs), func(u int) {
		e, lo := bs[u].e, bs[u].lo
		enc := encs[e]
		c.unit(fmt.Sprintf("mutation/trunc-insert/%s@%d", names[e], lo), "mutation", true, func(visit c16Visit) {
			n := 0
			for p := lo; p < lo+16 && p <= len(enc); p++ {
				visit(enc[:p], "truncation")
				n++
				// deletion of one byte
				if p < len(enc) {
					visit(append(append([]byte{}, enc[:p]...), enc[p+1:]...), "deletion")
					n++
				}
				for _, s := range c16Structural {
					b := make([]byte, 0, len(enc)+len(s))
					b = append(append(append(b, enc[:p]...), s...), enc[p:]...)
					visit(b, "insertion")
					n++
				}
			}
			_ = n
		})
		hi := min(lo+16, len(enc)+1)
		inputs.Add(int64((hi - lo) * (2 + len(c16Structural))))
	})
	// thorough: double substitutions on the structural positions
	if c.r.Thorough() {
		alphabet := []byte{'{', '}', '[', ']', '"', ',', ':', 0x00, '\\', ' ', '0'}
		type pp struct{ e, a int }
		var sp [][]int
		var work []pp
		for e, enc := range encs {
			var s []int
			for p, b := range enc {
				if p < 2 || strings.IndexByte("{}[]\",:", b) >= 0 {
					s = append(s, p)
				}
			}
			sp = append(sp, s)
			for a := range s {
				work = append(work, pp{e, a})
			}
		}
		var pairs atomic.Int64
		c.units(len(work), func(u int) {
			e, a := work[u].e, work[u].a
			s := sp[e]
			c.unit(fmt.Sprintf("mutation/double/%s@%d", names[e], s[a]), "mutation", false, func(visit c16Visit) {
				buf := append([]byte{}, encs[e]...)
				for b := a + 1; b < len(s); b++ {
					for _, x := range alphabet {
						for _, y := range alphabet {
							buf[s[a]], buf[s[b]] = x, y
							visit(buf, "double-substitution")
						}
					}
					buf[s[b]] = encs[e][s[b]]
				}
			})
			pairs.Add(int64((len(s) - a - 1) * len(alphabet) * len(alphabet)))
		})
		c.r.Set("mutation_double_substitutions", pairs.Load())
		inputs.Add(pairs.Load())
	}
	c.r.Set("mutation_inputs", inputs.Load())
}

// ------------------------------------------------------------------ grammar

var c16Prefixes = []uint16{0, 1, 2, 3, 4, 5, 6, 7, 0xffff}

func c16WithPrefix(t uint16, body []byte) []byte {
	out := make([]byte, 2+len(body))
	binary.BigEndian.PutUint16(out, t)
	copy(out[2:], body)
	return out
}

func (c *c16) grammar() {
	var bodies, predAccept, predReject, agree, pruned atomic.Int64
	var mismatched sync.Map // "type/field=class" of single deviations that disagreed
	type job struct {
		g    *c16Grammar
		devs []c16Dev
		name string
		body []byte // for whole-body variants
		acc  bool
	}
	judge := func(g *c16Grammar, name string, devs []c16Dev, body []byte, accept bool, cnt *[3]int64) {
		tn := c16TypeName(g.typ)
		data := c16WithPrefix(uint16(g.typ), body)
		v := c.decodeCheck("grammar", data, true, cnt)
		bodies.Add(1)
		if accept {
			predAccept.Add(1)
		} else {
			predReject.Add(1)
		}
		if v == vPanic {
			return // reported as a panic
		}
		if (v == vAccept) == accept {
			agree.Add(1)
			return
		}
		dir := "rejects-valid"
		if v == vAccept {
			dir = "accepts-invalid"
		}
		label := name
		if len(devs) == 1 {
			mismatched.Store(tn+"/"+name, true)
		} else if len(devs) == 2 {
			// attribute to a component that already disagrees on its own
			for _, d := range devs {
				if _, ok := mismatched.Load(tn + "/" + g.devName(d)); ok {
					label = g.devName(d)
					break
				}
			}
		}
		var err error
		vk.Catch(func() { _, err = DecodeMessage(data) })
		c.r.Violation("C16/grammar/"+tn+"/"+dir+"/"+label,
			fmt.Sprintf("%s body with %s: the format description says %s, DecodeMessage returns err=%v; input %s",
				tn, name, map[bool]string{true: "accept", false: "reject"}[accept], err, c16Preview(data)),
			c16DecodeCase("grammar", data))
	}
	run := func(jobs []job) {
		const chunk = 32
		c.units((len(jobs)+chunk-1)/chunk, func(u int) {
			lo, hi := u*chunk, min((u+1)*chunk, len(jobs))
			id := fmt.Sprintf("grammar/%s/%s..", c16TypeName(jobs[lo].g.typ), jobs[lo].name)
			// own prefix: judged against the predictor (outside unit(): needs the verdict)
			if c.stop.Load() {
				return
			}
			c.inflight.Store(id, time.Now())
			var cnt [3]int64
			var m0, m1 runtime.MemStats
			c.excl.RLock()
			runtime.ReadMemStats(&m0)
			type rendered struct {
				body []byte
			}
			rs := make([]rendered, 0, hi-lo)
			for _, j := range jobs[lo:hi] {
				body, acc := j.body, j.acc
				if j.body == nil {
					body, acc = j.g.body(j.devs)
				}
				rs = append(rs, rendered{body})
				judge(j.g, j.name, j.devs, body, acc, &cnt)
			}
			runtime.ReadMemStats(&m1)
			c.excl.RUnlock()
			c.inflight.Delete(id)
			c.memUnits.Add(1)
			c.r.Eval(hi - lo)
			c.nAccept.Add(cnt[vAccept])
			c.nError.Add(cnt[vError])
			c.nPanic.Add(cnt[vPanic])
			c.mu.Lock()
			p := c.perPhase["grammar"]
			if p == nil {
				p = new([3]int64)
				c.perPhase["grammar"] = p
			}
			for i := range cnt {
				p[i] += cnt[i]
			}
			c.mu.Unlock()
			if int64(m1.TotalAlloc-m0.TotalAlloc) >= c16MemLimit {
				c.memEscalated.Add(1)
				c.excl.Lock()
				for k, j := range jobs[lo:hi] {
					c.measureCall("grammar", c16WithPrefix(uint16(j.g.typ), rs[k].body), j.name)
				}
				c.excl.Unlock()
			}
			// the same bodies behind every other prefix: totality only
			c.unit(id+"/other-prefixes", "grammar-prefix", false, func(visit c16Visit) {
				for k, j := range jobs[lo:hi] {
					for _, t := range c16Prefixes {
						if t == uint16(j.g.typ) {
							continue
						}
						visit(c16WithPrefix(t, rs[k].body), j.name)
					}
				}
			})
		})
	}
	gs := c.dom.grammars()
	// wave 1: the valid body, whole-body variants and single deviations
	var w1, w2 []job
	classCount := map[string]int{}
	for _, g := range gs {
		if _, acc := g.body(nil); !acc {
			vk.Fatalf("C16: predictor rejects the valid %s body", c16TypeName(g.typ))
		}
		for _, bv := range g.bodyVariants() {
			b := bv.body
			if b == nil {
				b = []byte{}
			}
			w1 = append(w1, job{g: g, name: "body:" + bv.name, body: b, acc: bv.accept})
		}
		for _, d := range g.singles() {
			w1 = append(w1, job{g: g, devs: d, name: g.devName(d[0])})
			classCount[c16TypeName(g.typ)]++
		}
		ds, pr := g.doubles()
		pruned.Add(int64(pr))
		for _, d := range ds {
			w2 = append(w2, job{g: g, devs: d, name: g.devName(d[0]) + "," + g.devName(d[1])})
		}
	}
	run(w1)
	run(w2)
	c.r.DistinctN(len(w1) + len(w2))
	c.r.Set("grammar_single_deviations_and_body_variants", len(w1))
	c.r.Set("grammar_single_deviations_per_type", classCount)
	c.r.Set("grammar_double_deviations", len(w2))
	c.r.Set("grammar_double_deviations_pruned_moot", pruned.Load())
	c.r.Set("grammar_bodies_judged", bodies.Load())
	c.r.Set("grammar_predicted_accept", predAccept.Load())
	c.r.Set("grammar_predicted_reject", predReject.Load())
	c.r.Set("grammar_agree_with_predictor", agree.Load())
	c.r.Set("grammar_type_prefixes", len(c16Prefixes))
}

// ------------------------------------------------------------------ memory (call by call)

type c16Big struct {
	name   string
	family string // fingerprint class (one per root cause)
	typ    MsgType
	data   func() []byte
}

func (c *c16) bigInputs() []c16Big {
	const limit = c16RecvLimit
	var out []c16Big
	pad := func(prefix, unit, suffix string) func(t MsgType) []byte {
		return func(t MsgType) []byte {
			n := (limit - 2 - len(prefix) - len(suffix)) / len(unit)
			b := make([]byte, 0, limit)
			b = append(b, byte(t>>8), byte(t))
			b = append(b, prefix...)
			b = append(b, strings.Repeat(unit, n)...)
			b = append(b, suffix...)
			return b
		}
	}
	for _, g := range c.dom.grammars() {
		g := g
		valid, _ := g.body(nil)
		inner := string(valid[1 : len(valid)-1])
		add := func(name string, mk func(t MsgType) []byte) {
			fam := name
			if strings.HasPrefix(name, "qualities-") && name != "qualities-valid-elements" && name != "qualities-nulls" {
				fam = "qualities-many-small-elements"
			}
			out = append(out, c16Big{name: name, family: fam, typ: g.typ, data: func() []byte { return mk(g.typ) }})
		}
		// every field in turn replaced by a maximal string / number
		for i, f := range g.fields {
			if f.kind == kList || f.kind == kObj {
				continue
			}
			i, f := i, f
			for _, fill := range []string{"a", "9"} {
				fill := fill
				isNum := f.kind == kU64 || f.kind == kU32 || f.kind == kU8
				if isNum != (fill == "9") {
					continue
				}
				add("huge-"+g.devNameField(i), func(t MsgType) []byte {
					// render the body with a marker in place of the value, then blow the marker up
					marker := "@@HUGE@@"
					if isNum {
						marker = "77770000"
					}
					g2 := *g
					g2.fields = append([]c16Field{}, g.fields...)
					g2.fields[i].valid = marker
					body, _ := g2.body(nil)
					s := string(body)
					k := strings.Index(s, marker)
					return pad(s[:k], fill, s[k+len(marker):])(t)
				})
			}
		}
		add("unknown-key-huge-string", pad(`{"zz":"`, "a", `",`+inner+"}"))
		add("unknown-key-many-elements", pad(`{"zz":[`, "0,", `0],`+inner+"}"))
		add("many-duplicate-keys", pad(`{`, `"task_id":"x",`, inner+"}"))
		add("many-unknown-keys", pad(`{`, `"z":0,`, inner+"}"))
		add("leading-whitespace", pad("", " ", string(valid)))
		add("deep-nesting", pad(`{"zz":`, "[", ""))
		add("deep-nesting-objects", pad("", `{"a":`, ""))
		add("escapes", pad(`{"zz":"`, `\u0041`, `",`+inner+"}"))
		add("all-ff", pad("", "\xff", ""))
		add("all-nul", pad("", "\x00", ""))
		add("all-quotes", pad("", "\"", ""))
		switch g.typ {
		case MsgTypeReportQualities:
			elem := string(valid[strings.Index(string(valid), "[")+1 : strings.LastIndex(string(valid), "]")])
			tid := `{"task_id":"` + c16ValidTID + `","qualities":[`
			add("qualities-empty-objects", pad(tid, "{},", "{}]}"))
			add("qualities-nulls", pad(tid, "null,", "null]}"))
			add("qualities-empty-arrays", pad(tid, "[],", "[]]}"))
			add("qualities-numbers", pad(tid, "0,", "0]}"))
			add("qualities-valid-elements", pad(tid, elem+",", elem+"]}"))
			add("qualities-valid-then-invalid", pad(tid+elem+",", "{},", "{}]}"))
			add("qualities-bad-task-id", pad(`{"task_id":"","qualities":[`, "{},", "{}]}"))
		case MsgTypeReportProof:
			add("proof-many-keys", pad(`{"task_id":"`+c16ValidTID+`","proof":{`, `"k_size":1,`, `"k_size":1}}`))
		}
	}
	return out
}

func (g *c16Grammar) devNameField(i int) string {
	f := g.fields[i]
	if f.nested {
		return g.fields[g.container()].name + "." + f.name
	}
	return f.name
}

func (c *c16) memory() {
	bigs := c.bigInputs()
	type row struct {
		Name    string  `json:"input"`
		Len     int     `json:"len"`
		Alloc   int64   `json:"allocated"`
		Ratio   float64 `json:"ratio"`
		Outcome string  `json:"outcome"`
	}
	var rows []row
	c.excl.Lock()
	defer c.excl.Unlock()
	// warm up lazily initialised state so that it is not charged to a call
	DecodeMessage([]byte{0, 1, '{', '}'})
	for _, b := range bigs {
		if c.r.Expired() {
			c.stop.Store(true)
			return
		}
		id := "memory/" + c16TypeName(b.typ) + "/" + b.name
		c.inflight.Store(id, time.Now())
		data := b.data()
		if len(data) > c16RecvLimit {
			vk.Fatalf("C16: generated input %s has %d bytes", id, len(data))
		}
		runtime.GC()
		delta, outcome := c.measureCall("memory", data, b.family)
		// the same call through the totality oracle
		var cnt [3]int64
		c.decodeCheck("memory", data, false, &cnt)
		c.r.Eval(1)
		c.count("memory", map[string]int{"accept": vAccept, "error": vError, "panic": vPanic}[outcome])
		rows = append(rows, row{c16TypeName(b.typ) + "/" + b.name, len(data), delta, float64(delta) / float64(len(data)), outcome})
		c.inflight.Delete(id)
	}
	sort.Slice(rows, func(i, j int) bool { return rows[i].Alloc > rows[j].Alloc })
	c.r.Set("memory_inputs_at_receive_limit", len(rows))
	if len(rows) > 12 {
		c.r.Set("memory_largest_allocations", rows[:12])
	} else {
		c.r.Set("memory_largest_allocations", rows)
	}
	// and every base encoding of the mutation set, call by call
	encs, names := c.mutationBase()
	var worst int64
	for i, e := range encs {
		d, _ := c.measureCall("memory", e, "valid/"+names[i])
		if d > worst {
			worst = d
		}
	}
	c.r.Set("memory_valid_encoding_max_allocation", worst)
}

// ------------------------------------------------------------------ receive limit (connection.Conn)

func c16Frame(size uint32) []byte {
	var h [4]byte
	binary.BigEndian.PutUint32(h[:], size)
	return h[:]
}

func (c *c16) recvLimit() {
	type cfg struct {
		limit   uint32
		deflt   bool
		ok      []uint32
		tooBig  []uint32
		payload func(n uint32) []byte
	}
	var cfgs []cfg
	for _, l := range []uint32{0, 1, 16} {
		var ok, big []uint32
		for s := uint32(1); s <= l; s++ {
			ok = append(ok, s)
		}
		for s := l + 1; s <= l+8; s++ {
			big = append(big, s)
		}
		big = append(big, 1<<16, 0xffffffff)
		cfgs = append(cfgs, cfg{limit: l, ok: ok, tooBig: big})
	}
	L := uint32(c16RecvLimit)
	cfgs = append(cfgs, cfg{limit: L, deflt: true, ok: []uint32{1, 2, 1000, L - 1, L}, tooBig: []uint32{L + 1, 2 * L, 1 << 31, 0xffffffff}})
	encs, _ := c.mutationBase()
	conns, delivered, rejected, skippedGiant := 0, 0, 0, 0
	limitBroken := false
	ctx := context.Background()
	for _, cf := range cfgs {
		for _, big := range cf.tooBig {
			if c.r.Expired() {
				c.stop.Store(true)
				return
			}
			id := fmt.Sprintf("recvlimit/limit=%d/oversize=%d", cf.limit, big)
			c.inflight.Store(id, time.Now())
			a, b := net.Pipe()
			opts := []connection.Option{connection.WithNetConn(a), connection.KeepaliveInterval(0), connection.KeepaliveTimeout(0)}
			if !cf.deflt {
				opts = append(opts, connection.MaxRecvMsgSize(cf.limit))
			}
			conn, closer, err := connection.NewConn(opts...)
			if err != nil {
				vk.Fatalf("C16: NewConn: %v", err)
			}
			conns++
			rcase := c16Case{Kind: "recvlimit", Name: id}
			alive := true
			// frames within the limit are delivered unchanged, control frames (size 0) in between
			send := func(size uint32, payload []byte) {
				if !alive {
					return
				}
				if _, err := b.Write(c16Frame(size)); err != nil {
					c.r.Violation("C16/recvlimit/header-refused", fmt.Sprintf("%s: writing the header of a %d-byte frame fails: %v", id, size, err), rcase)
					alive = false
					return
				}
				if size == 0 {
					var echo [4]byte // keepalive answer of a Conn without own keepalive
					if _, err := io.ReadFull(b, echo[:]); err != nil {
						alive = false
					}
					return
				}
				if _, err := b.Write(payload); err != nil {
					c.r.Violation("C16/recvlimit/frame-within-limit-rejected", fmt.Sprintf("%s: a %d-byte frame (limit %d) is not read: %v", id, size, cf.limit, err), rcase)
					alive = false
					return
				}
				got, err := conn.Read(ctx)
				if err != nil || !bytes.Equal(got, payload) {
					c.r.Violation("C16/recvlimit/frame-within-limit-altered", fmt.Sprintf("%s: a %d-byte frame (limit %d) is delivered as %d bytes, err=%v", id, size, cf.limit, len(got), err), rcase)
					alive = false
					return
				}
				delivered++
			}
			send(0, nil)
			for _, s := range cf.ok {
				send(s, c16Pattern(int(s), 11))
				send(0, nil)
			}
			if cf.deflt && alive {
				// frame -> Conn.Read -> DecodeMessage (what fractal.MessageReceiver does)
				for _, e := range encs {
					if !alive {
						break
					}
					b.Write(c16Frame(uint32(len(e))))
					b.Write(e)
					got, err := conn.Read(ctx)
					if err != nil || !bytes.Equal(got, e) {
						c.r.Violation("C16/recvlimit/frame-within-limit-altered", fmt.Sprintf("%s: encoded message frame of %d bytes delivered as %d bytes, err=%v", id, len(e), len(got), err), rcase)
						alive = false
						break
					}
					if _, err := DecodeMessage(got); err != nil {
						c.r.Violation("C16/recvlimit/delivered-message-undecodable", fmt.Sprintf("%s: %v", id, err), rcase)
					}
					delivered++
				}
			}
			if alive && limitBroken && big >= 1<<24 {
				skippedGiant++ // the limit is already known not to hold: do not provoke a multi-GiB allocation
			} else if alive {
				var m0, m1 runtime.MemStats
				body := c16Pattern(int(min(big, 4<<20)), 13)
				runtime.ReadMemStats(&m0)
				if _, err := b.Write(c16Frame(big)); err != nil {
					c.r.Violation("C16/recvlimit/header-refused", fmt.Sprintf("%s: writing the oversize header fails: %v", id, err), rcase)
				} else {
					// A receiver that honours the limit never reads a body byte: the write
					// below can only end with the pipe being closed.
					n, werr := b.Write(body)
					got, rerr := conn.Read(ctx)
					runtime.ReadMemStats(&m1)
					alloc := int64(m1.TotalAlloc - m0.TotalAlloc)
					if rerr == nil || n > 0 || werr == nil {
						limitBroken = true
					}
					switch {
					case rerr == nil:
						c.r.Violation("C16/recvlimit/oversize-frame-delivered", fmt.Sprintf("%s: a %d-byte frame above the limit %d was delivered (%d bytes)", id, big, cf.limit, len(got)), rcase)
					case n > 0 || werr == nil:
						c.r.Violation("C16/recvlimit/oversize-body-read", fmt.Sprintf("%s: %d body bytes of a %d-byte frame above the limit %d were read (write err %v, read err %v)", id, n, big, cf.limit, werr, rerr), rcase)
					case !errors.Is(rerr, io.EOF):
						c.r.Violation("C16/recvlimit/close-error", fmt.Sprintf("%s: Read after an oversize frame returns %v, not EOF", id, rerr), rcase)
					default:
						rejected++
					}
					if big >= 1<<20 && alloc >= 1<<20 {
						c.r.Violation("C16/recvlimit/oversize-allocation", fmt.Sprintf("%s: %d bytes allocated while rejecting a %d-byte frame", id, alloc, big), rcase)
					}
				}
			}
			closer()
			b.Close()
			c.r.Eval(1)
			c.inflight.Delete(id)
		}
	}
	c.r.Set("recvlimit_connections", conns)
	c.r.Set("recvlimit_frames_delivered", delivered)
	c.r.Set("recvlimit_oversize_frames_rejected", rejected)
	if skippedGiant > 0 {
		c.r.Set("recvlimit_giant_frames_skipped_after_violation", skippedGiant)
	}
}

// ------------------------------------------------------------------ replay

func (c *c16) replay(path string) {
	var cs c16Case
	vk.LoadReplay(path, &cs)
	fmt.Printf("VERIF-REPLAY %+v\n", cs)
	switch cs.Kind {
	case "decode":
		data, err := hex.DecodeString(cs.Hex)
		if err != nil || (cs.Hex == "" && cs.Len > 0) {
			vk.Fatalf("C16 replay: input not stored in the replay file (len %d); re-run the phase %s", cs.Len, cs.Phase)
		}
		var cnt [3]int64
		v := c.decodeCheck(cs.Phase, data, true, &cnt)
		var m Message
		p := vk.Catch(func() { m, err = DecodeMessage(data) })
		fmt.Printf("VERIF-REPLAY verdict=%d msg=%+v err=%v\n%s\n", v, m, err, p)
		if cs.Phase == "grammar" {
			fmt.Println("VERIF-REPLAY note: accept/reject predictions are only evaluated in the full run")
		}
	case "roundtrip":
		for _, rt := range c.dom.roundTripTypes() {
			if int(rt.typ) == cs.Type {
				var a, b atomic.Int64
				c.roundTripOne(rt, cs.Index, &a, &b)
			}
		}
	case "memory":
		c.excl.Lock()
		for _, b := range c.bigInputs() {
			if (b.name == cs.Name || b.family == cs.Name) && int(b.typ) == cs.Type {
				d, o := c.measureCall("memory", b.data(), b.family)
				fmt.Printf("VERIF-REPLAY %s/%s allocated=%d outcome=%s\n", c16TypeName(b.typ), b.name, d, o)
			}
		}
		c.excl.Unlock()
	case "recvlimit":
		c.recvLimit()
	default:
		vk.Fatalf("C16 replay: unknown case kind %q", cs.Kind)
	}
}

// ------------------------------------------------------------------ main

func TestVerifC16(t *testing.T) {
	r := vk.Start("C16", "exploration")
	if scratch := os.Getenv("VERIF_SCRATCH"); scratch != "" {
		logging.Init(filepath.Join(scratch, "c16logs"), "c16", "fatal", 1, true)
	}
	c := &c16{r: r, perPhase: map[string]*[3]int64{}}
	c.dom = c16NewDom()
	r.Assume(
		"BLS elements of the domains come from the library itself (generator, identity, KeyGen+GetG1, Sign); malformed elements are the classes of the grammar and whatever the byte mutations produce",
		"allocations made by the cgo BLS parser on the C heap are not visible to runtime.MemStats",
		"fields the wire format does not carry (Proof.Ordinal, Proof.Error, Proof.PublicKey, ProofOfSpace.PuzzleHash, Quality.Error) are fixed to the values the decoder documents; see coverage.outside_domain_probes",
		"recvlimit drives connection.Conn through its exported API over net.Pipe; fractal.MessageReceiver itself (package fractal imports protocol) is outside this in-package harness",
	)
	if p := r.ReplayPath(); p != "" {
		c.replay(p)
		r.Finish("replay")
		return
	}
	r.Sample(map[string]string{"roundtrip": c16Describe(c.dom.roundTripTypes()[1].build(2*4321 + 1))})
	r.Sample(map[string]string{"decode": `\x00\x02{"task_id":"` + c16ValidTID + `","qualities":[null]}`})
	r.Sample(map[string]string{"decode": `\x00\x04{"task_id":"` + c16ValidTID + `","proof":null}`})
	r.Sample(map[string]string{"grammar": "report-signature: hash=oddhex,signature=inf-noncanon"})

	ok := c.phase("roundtrip", func() { c.roundTrip(); c.probes() })
	ok = ok && c.phase("sweep", func() {
		c.sweepShort()
		c.sweepTyped(2)
		if r.Thorough() {
			c.sweepTyped(3)
		}
	})
	ok = ok && c.phase("grammar", c.grammar)
	ok = ok && c.phase("memory", c.memory)
	ok = ok && c.phase("recvlimit", c.recvLimit)
	ok = ok && c.phase("mutation", c.mutation)

	r.Set("decode_accepted", c.nAccept.Load())
	r.Set("decode_rejected", c.nError.Load())
	r.Set("decode_panicked", c.nPanic.Load())
	r.Set("decode_accepted_checked_deep", c.nDeep.Load())
	pp := map[string]map[string]int64{}
	for k, v := range c.perPhase {
		pp[k] = map[string]int64{"accepted": v[vAccept], "rejected": v[vError], "panicked": v[vPanic]}
	}
	r.Set("decode_outcomes_per_phase", pp)
	r.Set("memory_limit_per_call", int64(c16MemLimit))
	r.Set("memory_guarded_units", c.memUnits.Load())
	r.Set("memory_units_remeasured_call_by_call", c.memEscalated.Load())
	r.Set("memory_calls_measured_individually", c.memPerCall.Load())
	r.Set("memory_max_unit_delta_process_wide", c.memMaxUnit.Load())
	r.Set("memory_max_single_call", map[string]interface{}{"allocated": c.memMaxCall.Load(), "input": c.memMaxWhat, "input_len": c.memMaxIn})
	_ = chiapos.PublicKeyBytes
	r.Finish("roundtrip over the full product of per-field domains; decode totality over all short strings, all single-byte mutations of representative encodings and all single/double field-class deviations of the JSON bodies; per-call allocation guard; receive limit at connection.Conn")
}
