//go:build go1.21

package skchia

// C09 (lifecycle state machine) and C13 (no deadlock / panic) for the engine-v2 chia keeper
// on the keeper harness K2 (k2_test.go).
//
// Scenario families
//   (a) "production": every space starts Ready - the only state NewWorkSpace produces - and the
//       keeper is configured as NewSpaceKeeperChiaPoS does, with ConfigureByFlags(SFAll, plot, mine)
//       for the three settings none / plot / mine (the latter two fill the plotter queue).
//   (b) "unreachable-registered": some spaces start Registered. NOT reachable from NewWorkSpace;
//       explored because the registered/plotting machinery (request channel, queue, plotter steps
//       1-3) is still in the code. Fingerprints raised in this family contain /unreachable-registered/.

import (
	"bufio"
	"encoding/json"
	"fmt"
	"net"
	"os"
	"path/filepath"
	"sort"
	"strings"
	"sync"
	"sync/atomic"
	"testing"

	"massnet.org/mass/poc/engine.v2"
	"massnet.org/mass/zz_verif/qsched"
	"massnet.org/mass/zz_verif/seqx"
	"massnet.org/mass/zz_verif/vk"
)

type k2Scenario struct {
	Name        string     `json:"name"`
	Family      string     `json:"family"`  // "a" production-reachable, "b" unreachable-registered
	Initial     string     `json:"initial"` // one letter per workspace: R registered, Y ready
	Cfg         string     `json:"cfg"`     // none | plot | mine
	ChanCap     int        `json:"chan_cap"`
	MaxChan     int        `json:"max_requests_waiting_in_channel"` // -1: unbounded (C13)
	Horizon     int        `json:"horizon"`                         // depth bound of the search (actions incl. gate releases)
	MaxInFlight int        `json:"max_in_flight"`
	Alphabet    []k2Action `json:"-"`
	// Script, if set: no search - the fixed action list is executed once and drained (confirmation
	// of a finding at the production channel capacity)
	Script []string `json:"-"`
}

type k2Replay struct {
	Scenario k2Scenario `json:"scenario"`
	Actions  []string   `json:"actions"`
}

type k2Ctx struct {
	r                                            *vk.Run
	prop                                         string
	sc                                           k2Scenario
	acts                                         []k2Action
	actID                                        map[string]int
	checkC09                                     bool
	checkC13                                     bool
	terminals, deadlocks, quiescent, divergences int64
	opsRefused, opsAccepted, minerQueries        int64
	gateEdges                                    map[string]int64
	outcomes                                     map[string]bool
	sample                                       []string
	remote                                       bool
	viols                                        []k2Viol
	// poisoned: an instance could not be torn down (goroutines of it are stuck for good, e.g. on a state lock
	// that is never released); the process must not host further instances
	poisoned bool
}

func k2NewCtx(r *vk.Run, prop string, sc k2Scenario, c09, c13 bool) *k2Ctx {
	return &k2Ctx{r: r, prop: prop, sc: sc, actID: map[string]int{}, checkC09: c09, checkC13: c13, outcomes: map[string]bool{}, gateEdges: map[string]int64{}}
}

func (c *k2Ctx) id(a k2Action) int {
	if id, ok := c.actID[a.String()]; ok {
		return id
	}
	c.acts = append(c.acts, a)
	c.actID[a.String()] = len(c.acts) - 1
	return len(c.acts) - 1
}

func k2Short(names []string) string {
	if len(names) <= 40 {
		return fmt.Sprint(names)
	}
	return fmt.Sprintf("%v ... (%d actions in all, the elided ones repeat %s) ... %v", names[:6], len(names), names[6], names[len(names)-3:])
}

func (c *k2Ctx) names(hist []int, op int) []string {
	var out []string
	for _, h := range hist {
		out = append(out, c.acts[h].String())
	}
	if op >= 0 {
		out = append(out, c.acts[op].String())
	}
	return out
}

// viol: fingerprint = <prop>/<clause>/[unreachable-registered/]skchia:<site>
func (c *k2Ctx) viol(clause, site, msg string, hist []int, op int) {
	infix := ""
	fam := "production-reachable family (a)"
	if c.sc.Family == "b" {
		infix = "unreachable-registered/"
		fam = "family (b): registered spaces, not reachable from NewWorkSpace"
	}
	v := k2Viol{FP: c.prop + "/" + clause + "/" + infix + "skchia:" + site,
		What: fmt.Sprintf("%s [skchia keeper, scenario %s, %s, initial=%s cfg=%s chan_cap=%d] after %s", msg, c.sc.Name, fam, c.sc.Initial, c.sc.Cfg, c.sc.ChanCap, k2Short(c.names(hist, op))),
		Case: k2Replay{c.sc, c.names(hist, op)}}
	if c.remote {
		// a worker process hands its violations to the coordinator, which records them in the order of
		// the breadth-first search: the recorded history of a fingerprint is one of the shortest
		c.viols = append(c.viols, v)
		return
	}
	k2Report(c.r, v)
}

// k2Report: what is observed in family (b) is recorded as a diagnostic, not as a violation: those histories start
// from a Registered space, which no constructor of this package can produce (NewWorkSpace always yields Ready and
// Progress() is constantly 100), so they are not executions of the real system and say nothing about the property.
func k2Report(r *vk.Run, v k2Viol) {
	if strings.Contains(v.FP, "/unreachable-registered/") {
		r.Add("diagnostic:"+v.FP, 1)
		return
	}
	r.Violation(v.FP, v.What, v.Case)
}

type k2Viol struct {
	FP   string   `json:"fp"`
	What string   `json:"what"`
	Case k2Replay `json:"case"`
}

var k2AllFlags = func() []engine.WorkSpaceStateFlags {
	var out []engine.WorkSpaceStateFlags
	for m := 0; m < 16; m++ {
		out = append(out, engine.WorkSpaceStateFlags(m))
	}
	return out
}()

func k2Site(a k2Action) string {
	s := a.String()
	if i := strings.IndexAny(s, "(["); i > 0 {
		s = s[:i]
	}
	return "after-" + strings.ReplaceAll(s, ":", "-")
}

// ---------------------------------------------------------------- reference model

// modelSingle applies one single-workspace request to the model of that workspace and returns
// the documented result (engine.go ActionType comments, capacity.go comments above *WS).
func k2ModelSingle(m *k2Model, op string) error {
	if !m.Used || m.Deleted {
		return ErrWorkSpaceDoesNotExist
	}
	switch op {
	case "plot": // ready -> ready, mining -> mining; registered/plotting: handed to the plotter
		m.AskedAny = true
	case "mine": // ready -> mining, mining -> mining; registered/plotting: handed to the plotter
		m.AskedAny, m.AskedMine = true, true
		m.StopVia = ""
		if m.State == engine.Ready {
			m.State = engine.Mining
		}
	case "stop": // mining -> ready, ready -> ready, registered -> registered, plotting -> registered (by the call or by the plotter's step 3)
		m.AskedAny, m.AskedMine = false, false
		if m.State == engine.Mining {
			m.State = engine.Ready
		}
	case "remove", "delete": // only registered / ready
		if m.State != engine.Registered && m.State != engine.Ready {
			return ErrWorkSpaceIsNotStill
		}
		m.Used = false
		m.AskedAny, m.AskedMine = false, false
		if op == "delete" {
			m.Deleted = true
		}
	}
	return nil
}

// ---------------------------------------------------------------- invariants I1-I5 at a quiescent state

func (c *k2Ctx) invariants(k *k2Sys, a k2Action, hist []int, op int) bool {
	site := k2Site(a)
	plotting := 0
	inList := map[string]int{}
	for _, ws := range k.sk.workSpaceList {
		inList[ws.id.String()]++
	}
	for i, ws := range k.ws {
		sid := ws.id.String()
		m := k.model[i]
		in := 0
		for s := engine.FirstState; s < allState; s++ {
			if k.sk.workSpaceIndex[s].Has(sid) {
				in++
				if s != ws.state {
					c.viol("index-disagrees-with-state", site, fmt.Sprintf("workspace %s has state %s but is indexed under %s", k2Names[i], ws.state, s), hist, op)
					return false
				}
			}
		}
		if ws.state < engine.Registered || ws.state > engine.Mining {
			c.viol("invalid-state", site, fmt.Sprintf("workspace %s has state %d", k2Names[i], ws.state), hist, op)
			return false
		}
		inAll := k.sk.workSpaceIndex[allState].Has(sid)
		if inAll && in != 1 {
			c.viol("not-in-exactly-one-state", site, fmt.Sprintf("workspace %s is in %d per-state indexes", k2Names[i], in), hist, op)
			return false
		}
		if inAll == m.Deleted {
			c.viol("all-index", site, fmt.Sprintf("workspace %s: deleted=%v (model) but in index[all]=%v", k2Names[i], m.Deleted, inAll), hist, op)
			return false
		}
		if !inAll && in != 0 {
			c.viol("deleted-still-indexed", site, fmt.Sprintf("deleted workspace %s remains in a per-state index", k2Names[i]), hist, op)
			return false
		}
		if ws.using != m.Used {
			c.viol("used-disagrees-with-model", site, fmt.Sprintf("workspace %s: using=%v, model says %v", k2Names[i], ws.using, m.Used), hist, op)
			return false
		}
		if (inList[sid] == 1) != ws.using || inList[sid] > 1 {
			c.viol("list-disagrees-with-using", site, fmt.Sprintf("workspace %s: using=%v but %d entries in workSpaceList", k2Names[i], ws.using, inList[sid]), hist, op)
			return false
		}
		if ws.state != m.State {
			c.viol("state-disagrees-with-model", site, fmt.Sprintf("workspace %s is %s, the reference model says %s", k2Names[i], ws.state, m.State), hist, op)
			return false
		}
		if ws.state == engine.Plotting && inAll {
			plotting++
		}
	}
	if plotting > 1 {
		c.viol("two-plotting", site, "more than one workspace is plotting", hist, op)
		return false
	}
	// queries: only when the state lock is free (an operation blocked while holding it is C13's subject)
	if !k.sk.stateLock.TryRLock() {
		return true
	}
	k.sk.stateLock.RUnlock()
	want := func(f engine.WorkSpaceStateFlags) []string {
		var w []string
		for i, m := range k.model {
			if m.Used && !m.Deleted && f.Contains(m.State.Flag()) {
				w = append(w, k2Names[i])
			}
		}
		sort.Strings(w)
		return w
	}
	for _, f := range k2AllFlags {
		ids, err1 := k.sk.WorkSpaceIDs(f)
		infos, err2 := k.sk.WorkSpaceInfos(f)
		if err1 != nil || err2 != nil {
			c.viol("query-error", site, fmt.Sprint(err1, err2), hist, op)
			return false
		}
		var a1, b1 []string
		for _, id := range ids {
			a1 = append(a1, k.nameOf(id))
		}
		for _, inf := range infos {
			b1 = append(b1, k.nameOf(inf.SpaceID))
			if i, ok := k.sid[inf.SpaceID]; ok && inf.State != k.model[i].State {
				c.viol("info-state", site, fmt.Sprintf("WorkSpaceInfos reports %s for workspace %s, the model says %s", inf.State, k2Names[i], k.model[i].State), hist, op)
				return false
			}
		}
		sort.Strings(a1)
		sort.Strings(b1)
		w := want(f)
		if fmt.Sprint(a1) != fmt.Sprint(w) || fmt.Sprint(b1) != fmt.Sprint(w) {
			c.viol("flag-filter-disagreement", site, fmt.Sprintf("flags %v: WorkSpaceIDs=%v WorkSpaceInfos=%v model=%v", f, a1, b1, w), hist, op)
			return false
		}
	}
	// what the miner is offered
	if !k.sk.Started() {
		if _, err := k.qualitySet(engine.SFMining, false); err != ErrSpaceKeeperIsNotRunning {
			c.viol("stopped-keeper-offers-spaces", site, fmt.Sprintf("GetQualities on a stopped keeper returned %v", err), hist, op)
			return false
		}
		if _, err := k.qualitySet(engine.SFMining, true); err != ErrSpaceKeeperIsNotRunning {
			c.viol("stopped-keeper-offers-spaces", site, fmt.Sprintf("GetQualitiesReader on a stopped keeper returned %v", err), hist, op)
			return false
		}
		return true
	}
	for _, f := range k2AllFlags {
		before := make([]int64, len(k.db))
		for i, d := range k.db {
			before[i] = d.qualities
		}
		got, err := k.qualitySet(f, false)
		c.minerQueries++
		if err != nil {
			c.viol("getqualities-error", site, err.Error(), hist, op)
			return false
		}
		w := want(f)
		var touched []string
		for i, d := range k.db {
			if d.qualities != before[i] {
				touched = append(touched, k2Names[i])
			}
		}
		if fmt.Sprint(got) != fmt.Sprint(w) || fmt.Sprint(touched) != fmt.Sprint(w) {
			clause := "qualities-flag-filter"
			if f == engine.SFMining {
				clause = "miner-offered-non-mining-space"
			}
			c.viol(clause, site, fmt.Sprintf("GetQualities(%v) returned qualities of %v and read the plots of %v; the used spaces in those states are %v", f, got, touched, w), hist, op)
			return false
		}
		if f == engine.SFMining || f == engine.SFAll {
			got, err := k.qualitySet(f, true)
			if err != nil || fmt.Sprint(got) != fmt.Sprint(w) {
				clause := "qualities-flag-filter"
				if f == engine.SFMining {
					clause = "miner-offered-non-mining-space"
				}
				c.viol(clause, site+"-reader", fmt.Sprintf("GetQualitiesReader(%v) delivered %v (err %v); the used spaces in those states are %v", f, got, err, w), hist, op)
				return false
			}
		}
	}
	return true
}

// ---------------------------------------------------------------- one step against the model

// expectation of an API request, computed from the model before the call is issued
type k2Expect struct {
	single error
	bulk   map[string]error // by workspace name
}

func (c *k2Ctx) expect(k *k2Sys, a k2Action) k2Expect {
	var e k2Expect
	if a.WS == 9 {
		e.single = ErrWorkSpaceDoesNotExist
		return e
	}
	if a.WS >= 0 {
		e.single = k2ModelSingle(&k.model[a.WS], a.Op)
		return e
	}
	e.bulk = map[string]error{}
	// the bulk forms select from the configured list by state, then act on each selected space in turn
	var sel []int
	for _, ws := range k.sk.workSpaceList {
		i := k.sid[ws.id.String()]
		if a.Flags.Contains(k.model[i].State.Flag()) {
			sel = append(sel, i)
		}
	}
	for _, i := range sel {
		e.bulk[k2Names[i]] = k2ModelSingle(&k.model[i], a.Op)
	}
	return e
}

func k2ErrStr(e error) string {
	if e == nil {
		return "nil"
	}
	return strings.ReplaceAll(e.Error(), " ", "-")
}

// step performs action a, maintains model and monitors, and (report=true) evaluates the C09 oracle.
// It returns the blocked goroutines and false if exploration must not continue behind this state.
func (c *k2Ctx) step(k *k2Sys, a k2Action, report bool, hist []int, op int) ([]qsched.GoroutineInfo, bool) {
	if !c.checkC09 {
		blocked := k.do(a)
		if a.Kind == "probe" && k.probeMutated && report {
			c.viol("data-race/queue-modified-while-its-mutex-is-held", "addSpaces-Push-vs-plotterQueue.Delete",
				"the plotter's addSpaces pushed a request into the plot queue ("+k.probeNote+"): Push/Empty/Size are the promoted, unlocked methods of the embedded prque, while plotterQueue.Delete (StopWS/RemoveWS/DeleteWS) pops every item and swaps the queue under that mutex - the two can run at the same time and corrupt the queue (a worker process of a thorough run died of a nil dereference in spacePlotter.func2 = addSpaces, while delete(a) ran beside a plotter draining the channel)", hist, op)
		}
		return blocked, true
	}
	before := k.wsStates()
	usedBefore := make([]bool, len(k.model))
	for i := range k.model {
		usedBefore[i] = k.model[i].Used
	}
	var exp k2Expect
	if a.Kind == "op" {
		exp = c.expect(k, a)
	}
	blocked := k.do(a)
	site := k2Site(a)
	if a.Kind == "op" {
		o := k.ops[len(k.ops)-1]
		if !o.Done() {
			if report {
				c.viol("request-did-not-return", site, "the request has not returned at quiescence (no gate is involved in an API call)", hist, op)
			}
			return blocked, false
		}
		if o.Pan != "" {
			if report {
				c.viol("panic", vk.PanicSite(o.Pan), "panic in "+a.String()+": "+o.Pan[:min(len(o.Pan), 300)], hist, op)
			}
			return blocked, false
		}
		if a.WS >= 0 {
			if o.Err != exp.single {
				if report {
					c.viol("error-disagrees-with-model", site+"-"+k2ErrStr(exp.single), fmt.Sprintf("%s returned %q, documented result is %q", a, k2ErrStr(o.Err), k2ErrStr(exp.single)), hist, op)
				}
				return blocked, false
			}
			if exp.single != nil {
				c.opsRefused++
			} else {
				c.opsAccepted++
			}
		} else {
			got, _ := o.Val.(map[string]error)
			var gs, ws []string
			for sid, e := range got {
				gs = append(gs, k.nameOf(sid)+"="+k2ErrStr(e))
			}
			for n, e := range exp.bulk {
				ws = append(ws, n+"="+k2ErrStr(e))
				if e != nil {
					c.opsRefused++
				} else {
					c.opsAccepted++
				}
			}
			sort.Strings(gs)
			sort.Strings(ws)
			if o.Err != nil || fmt.Sprint(gs) != fmt.Sprint(ws) {
				if report {
					c.viol("error-disagrees-with-model", site+"-bulk", fmt.Sprintf("%s returned %v (err %v), documented result is %v", a, gs, o.Err, ws), hist, op)
				}
				return blocked, false
			}
		}
		// stop on a plotting space: the documented move to registered may be made by the call itself
		if a.Op == "stop" {
			for i := range k.ws {
				if k.model[i].State == engine.Plotting && k.ws[i].state == engine.Registered && (a.WS == i || a.WS < 0) {
					k.model[i].State = engine.Registered
				}
			}
			for i := range k.ws {
				e, sel := exp.bulk[k2Names[i]]
				if (a.WS == i && exp.single == nil) || (a.WS < 0 && sel && e == nil) {
					k.model[i].StopVia = k.outstanding(i, blocked)
				}
			}
		}
		// the model has predicted the state after the call; the invariants compare (state-disagrees-with-model)
		return blocked, true
	}
	if (a.Kind == "kstop" || a.Kind == "kstart") && k.lifeOp.Done() && (k.lifeOp.Err != nil || k.lifeOp.Pan != "") {
		if report {
			c.viol("keeper-stop-start-failed", strings.TrimPrefix(site, "after-"), fmt.Sprintf("%s returned %v %s", a, k.lifeOp.Err, k.lifeOp.Pan[:min(len(k.lifeOp.Pan), 200)]), hist, op)
		}
		return blocked, false
	}
	// plotter steps and keeper stop/start: every observed state change must be a documented edge
	after := k.wsStates()
	for i := range k.ws {
		ob, na := strings.TrimRight(before[i], "u-"), strings.TrimRight(after[i], "u-")
		if ob == na {
			continue
		}
		edge := ob + "->" + na
		m := &k.model[i]
		ok := false
		if a.Kind == "gate" {
			switch a.Name {
			case "popped": // step 1
				ok = edge == "registered->plotting" || edge == "ready->mining"
			case "plot.returned": // step 3
				ok = edge == "plotting->registered" || edge == "plotting->ready" || edge == "plotting->mining"
			}
		}
		if !ok {
			if report {
				c.viol("undocumented-transition", strings.TrimPrefix(site, "after-")+":"+edge, fmt.Sprintf("workspace %s moved %s during %s", k2Names[i], edge, a), hist, op)
			}
			return blocked, false
		}
		c.gateEdges[edge]++
		m.State = k.ws[i].state
		if !usedBefore[i] {
			continue // a removed space is not in the keeper's list any more; its index entry is not observable through the API
		}
		via := m.StopVia
		if via == "" {
			via = "no-outstanding-request"
		}
		switch {
		case ob == "plotting" && (na == "ready" || na == "mining") && !m.AskedAny:
			if report {
				c.viol("stopped-space-plot-completed", "stop-while-plotting", fmt.Sprintf("workspace %s was stopped while plotting (documented: plotting -> registered), yet it became %s", k2Names[i], na), hist, op)
			}
			m.AskedAny, m.AskedMine = true, na == "mining" // reported once per site; exploration continues behind it
		case na == "plotting" && !m.AskedAny:
			if report {
				c.viol("stopped-space-replotted", via, fmt.Sprintf("workspace %s was stopped (%s) or never asked to plot, and not asked again, but entered plotting", k2Names[i], via), hist, op)
			}
			m.AskedAny = true
		case na == "mining" && !m.AskedMine:
			if report {
				c.viol("stopped-space-mined", via, fmt.Sprintf("workspace %s was stopped (%s) or never asked to mine, and not asked again, but entered mining", k2Names[i], via), hist, op)
			}
			m.AskedAny, m.AskedMine = true, true
		}
	}
	return blocked, true
}

// ---------------------------------------------------------------- C13: drain and deadlock diagnosis

var k2Calls = []string{"MineWS", "PlotWS", "StopWS", "RemoveWS", "DeleteWS", "WorkSpaceIDs", "WorkSpaceInfos", "GetQualitiesReader", "GetQualities", "getQualities", "ConfigureByFlags"}

// deadlockRoots names the calls blocked on something other than the state lock (lock waiters and
// the Stop waiting for the plotter are consequences).
func k2DeadlockRoots(blocked []qsched.GoroutineInfo) (roots []string, sendUnderLock bool) {
	var parts []string
	for _, g := range blocked {
		if !strings.Contains(g.Stack, "spacekeeper/skchia.") {
			continue
		}
		if strings.HasPrefix(g.Reason, "sync.Mutex") || strings.HasPrefix(g.Reason, "sync.RWMutex") {
			continue // waiting for the state lock (RWMutex.Lock queues on its writer mutex): a consequence
		}
		if strings.Contains(g.Stack, "(*SpaceKeeper).OnStop(") {
			continue
		}
		name := ""
		for _, f := range k2Calls {
			if strings.Contains(g.Stack, "(*SpaceKeeper)."+f+"(") {
				name = f
				break
			}
		}
		if name == "" && strings.Contains(g.Stack, "(*SpaceKeeper).spacePlotter") {
			name = "plotter"
		}
		if name == "" {
			continue
		}
		if g.Reason == "chan send" && (name == "MineWS" || name == "PlotWS") {
			sendUnderLock = true
		}
		parts = append(parts, name+":"+strings.ReplaceAll(g.Reason, " ", "-"))
	}
	sort.Strings(parts)
	for i, p := range parts {
		if i == 0 || p != parts[i-1] {
			roots = append(roots, p)
		}
	}
	return
}

func (c *k2Ctx) checkPanics(k *k2Sys, hist []int, op int) bool {
	for i, o := range k.ops {
		if o.Done() && o.Pan != "" {
			c.viol("panic", vk.PanicSite(o.Pan), "panic in "+k.opDesc[i]+": "+o.Pan[:min(len(o.Pan), 300)], hist, op)
			return false
		}
	}
	if k.lifeOp != nil && k.lifeOp.Done() && k.lifeOp.Pan != "" {
		c.viol("panic", vk.PanicSite(k.lifeOp.Pan), "panic in "+k.lifeOp.Name+": "+k.lifeOp.Pan[:min(len(k.lifeOp.Pan), 300)], hist, op)
		return false
	}
	return true
}

// drain: no harness action is left. Every parked gate is released (a call waiting for a parked
// plotter is waiting for the harness, not blocked), the keeper is stopped, gates are released
// again. Anything still pending then is blocked for ever: decided from wait reasons, not time.
func (c *k2Ctx) drain(k *k2Sys, hist []int, op int) {
	c.terminals++
	blocked := k.quiesce()
	var stopOp *qsched.Op
	releaseAll := func() {
		for step := 0; step < 64; step++ {
			g := k.s.Parked()
			if len(g) == 0 {
				return
			}
			blocked = k.do(k2Action{Kind: "gate", Name: g[0], WS: -1})
		}
	}
	releaseAll()
	if k.sk.Started() && (k.lifeOp == nil || k.lifeOp.Done()) {
		blocked = k.do(k2Action{Kind: "kstop", WS: -1})
		stopOp = k.lifeOp
		releaseAll()
	}
	if !c.checkPanics(k, hist, op) {
		return
	}
	var pend []string
	for i, o := range k.ops {
		if !o.Done() {
			pend = append(pend, k.opDesc[i])
		}
	}
	if k.lifeOp != nil && !k.lifeOp.Done() {
		pend = append(pend, k.lifeOp.Name)
	}
	outcome := "clean"
	if len(pend) > 0 {
		c.deadlocks++
		roots, send := k2DeadlockRoots(blocked)
		site := strings.Join(roots, "+")
		running := "running"
		if !k.sk.Started() && stopOp == nil {
			running = "stopped"
		}
		switch {
		case len(roots) == 0:
			outcome = "deadlock:state-lock-never-released"
			c.viol("deadlock/state-lock-never-released", "no-call-blocked-outside-the-state-lock", fmt.Sprintf("calls that never return: %v; every blocked call waits for the state lock and no call holds it", pend), hist, op)
		case send:
			if running == "stopped" {
				site += "+keeper-stopped" // no plotter exists that could ever receive
			}
			outcome = "deadlock:" + site
			c.viol("deadlock/send-under-stateLock", site, fmt.Sprintf("calls that never return: %v; blocked outside the state lock: %s (keeper %s; the request channel is full, the sender holds the state lock, nobody makes room)", pend, site, running), hist, op)
		default:
			outcome = "deadlock:" + site
			c.viol("deadlock/blocked-forever", site, fmt.Sprintf("calls that never return: %v; blocked: %s", pend, site), hist, op)
		}
	} else if stopOp != nil && stopOp.Err != nil {
		outcome = "stop-error"
		c.viol("stop-failed", "keeper.Stop", fmt.Sprintf("keeper.Stop() returned %v", stopOp.Err), hist, op)
	}
	c.outcomes[outcome] = true
}

// ---------------------------------------------------------------- exploration

// k2Parse resolves an action name of the scenario.
func (c *k2Ctx) parse(name string) int {
	if id, ok := c.actID[name]; ok {
		return id
	}
	if strings.HasPrefix(name, "gate:") {
		return c.id(k2Action{Kind: "gate", Name: strings.TrimPrefix(name, "gate:"), WS: -1})
	}
	for _, a := range c.sc.Alphabet {
		if a.String() == name {
			return c.id(a)
		}
	}
	vk.Fatalf("unknown action %q in scenario %s", name, c.sc.Name)
	return -1
}

// try executes hist+op on a fresh keeper. Go's select picks at random when the quit channel and
// a request are ready together: a replay that takes the other branch is repeated; if it cannot
// be reproduced the subtree is recorded as unexplored (cap), never as a verdict.
func (c *k2Ctx) try(hist []int, op int) (key string, ops []int, expand bool) {
	for attempt := 0; attempt < 40; attempt++ {
		var diverged bool
		key, ops, expand, diverged = c.try1(hist, op)
		if !diverged {
			return
		}
		c.divergences++
	}
	c.r.Cap("a history through a randomly resolved select (keeper stop vs. pending request) could not be reproduced in 40 replays; its subtree is unexplored")
	return "", nil, false
}

func (c *k2Ctx) try1(hist []int, op int) (string, []int, bool, bool) {
	k := k2New(c.sc.Initial, c.sc.Cfg, c.sc.ChanCap)
	defer func() {
		if ok, note := k.close(); !ok {
			c.poisoned = true
			if c.checkC13 {
				c.viol("deadlock/cannot-be-stopped", k.closeRoots, note+" (state reached by the history below, then all gates opened)", hist, op)
			} else {
				c.r.Cap("an instance could not be torn down (" + note + "); that is C13's subject")
			}
		}
	}()
	var blocked []qsched.GoroutineInfo
	all := append([]int{}, hist...)
	if op >= 0 {
		all = append(all, op)
	}
	for i, id := range all {
		a := c.acts[id]
		en := false
		for _, e := range k.enabled(c.sc.Alphabet, c.sc.MaxChan, c.sc.MaxInFlight) {
			if e.String() == a.String() {
				en = true
			}
		}
		if !en {
			return "", nil, false, true
		}
		last := i == len(all)-1
		var ok bool
		blocked, ok = c.step(k, a, last, hist, op)
		if !ok {
			if !last {
				return "", nil, false, true // a prefix that was fine before: select randomness
			}
			return "", nil, false, false
		}
		if last {
			c.quiescent++
			if c.checkC09 && !c.invariants(k, a, hist, op) {
				return "", nil, false, false
			}
			if c.checkC13 && !c.checkPanics(k, hist, op) {
				return "", nil, false, false
			}
		}
	}
	if len(all) == 0 && c.checkC09 && !c.invariants(k, k2Action{Kind: "init"}, nil, -1) {
		return "", nil, false, false
	}
	if c.sample == nil && len(all) >= 5 {
		c.sample = c.names(hist, op)
	}
	en := k.enabled(c.sc.Alphabet, c.sc.MaxChan, c.sc.MaxInFlight)
	key := k.stateKey(blocked, strings.Join(c.names(hist, op), ","))
	if c.checkC13 {
		// from EVERY reached state (not only where the search ends) everything is let run out; the
		// instance is discarded afterwards, so this does not disturb the search
		c.drain(k, hist, op)
	}
	if len(en) == 0 {
		return key, nil, false, false
	}
	var ops []int
	for _, e := range en {
		ops = append(ops, c.id(e))
	}
	return key, ops, true, false
}

var k2SingleOps = []string{"plot", "mine", "stop", "remove", "delete"}

// k2Alphabet: single requests on each workspace, requests on an unknown id, bulk forms
// for the given flag sets, queries, keeper stop/start.
func k2Alphabet(n int, bulk map[string][]engine.WorkSpaceStateFlags, unknown, life bool, queries []string) []k2Action {
	var out []k2Action
	for _, op := range k2SingleOps {
		for w := 0; w < n; w++ {
			out = append(out, k2Action{Kind: "op", Op: op, WS: w})
		}
	}
	if unknown {
		out = append(out, k2Action{Kind: "op", Op: "mine", WS: 9}, k2Action{Kind: "op", Op: "remove", WS: 9})
	}
	for _, op := range k2SingleOps {
		for _, f := range bulk[op] {
			out = append(out, k2Action{Kind: "op", Op: op, WS: -1, Flags: f})
		}
	}
	for _, q := range queries {
		out = append(out, k2Action{Kind: "query", Name: q, WS: -1})
	}
	if life {
		out = append(out, k2Action{Kind: "kstop", WS: -1}, k2Action{Kind: "kstart", WS: -1})
	}
	return out
}

// ---- process pool: the scheduler decides quiescence from a dump of ALL goroutines of a process, so one
// process runs one keeper at a time. The parent runs the breadth-first search (seqx) and hands every
// transition (history + one action, by name) to one of Workers() child processes over a unix socket.

type k2Job struct {
	Sc   int      `json:"sc"`
	Hist []string `json:"hist"`
	Op   string   `json:"op"` // "" with empty Hist: describe the initial state
	Done bool     `json:"done"`
}

type k2Res struct {
	Key    string   `json:"key"`
	Ops    []string `json:"ops"`
	Expand bool     `json:"expand"`
	Viols  []k2Viol `json:"viols,omitempty"`
	Retire bool     `json:"retire,omitempty"` // the worker cannot host further instances and leaves after this reply
}

type k2Conn struct {
	c  net.Conn
	rd *bufio.Reader
}

func (w *k2Conn) call(j k2Job) (k2Res, error) {
	var res k2Res
	b, _ := json.Marshal(j)
	if _, err := w.c.Write(append(b, '\n')); err != nil {
		return res, err
	}
	line, err := w.rd.ReadBytes('\n')
	if err != nil {
		return res, err
	}
	return res, json.Unmarshal(line, &res)
}

// k2Serve is the child side.
func k2Serve(r *vk.Run, prop string, scenarios []k2Scenario, c09, c13 bool, rule string) {
	conn, err := net.Dial("unix", os.Getenv("VERIF_K2_SOCK"))
	if err != nil {
		vk.Fatalf("worker: %v", err)
	}
	rd := bufio.NewReaderSize(conn, 1<<20)
	ctxs := make([]*k2Ctx, len(scenarios))
	for i, sc := range scenarios {
		ctxs[i] = k2NewCtx(r, prop, sc, c09, c13)
		ctxs[i].remote = true
	}
	for {
		line, err := rd.ReadBytes('\n')
		if err != nil {
			vk.Fatalf("worker: coordinator went away: %v", err)
		}
		var j k2Job
		if err := json.Unmarshal(line, &j); err != nil {
			vk.Fatalf("worker: %v", err)
		}
		if j.Done {
			break
		}
		c := ctxs[j.Sc]
		var hist []int
		for _, h := range j.Hist {
			hist = append(hist, c.parse(h))
		}
		op := -1
		if j.Op != "" {
			op = c.parse(j.Op)
			r.Eval(1)
		}
		key, ops, expand := c.try(hist, op)
		res := k2Res{Key: key, Expand: expand, Viols: c.viols, Retire: c.poisoned}
		c.viols = nil
		for _, o := range ops {
			res.Ops = append(res.Ops, c.acts[o].String())
		}
		b, _ := json.Marshal(res)
		if _, err := conn.Write(append(b, '\n')); err != nil {
			vk.Fatalf("worker: %v", err)
		}
		if c.poisoned {
			break
		}
	}
	var outcomes []string
	for _, c := range ctxs {
		r.Add("quiescent_states_checked", c.quiescent)
		r.Add("terminal_executions_drained", c.terminals)
		r.Add("deadlocked_executions", c.deadlocks)
		r.Add("requests_accepted_per_model", c.opsAccepted)
		r.Add("requests_refused_per_model", c.opsRefused)
		r.Add("miner_queries", c.minerQueries)
		r.Add("replay_divergences_retried", c.divergences)
		for e, cnt := range c.gateEdges {
			r.Add("plotter_edge "+e, cnt)
		}
		for o := range c.outcomes {
			outcomes = append(outcomes, c.sc.Name+": "+o)
		}
		if c.sample != nil {
			r.Sample(map[string]interface{}{"scenario": c.sc.Name, "family": c.sc.Family, "initial": c.sc.Initial, "cfg": c.sc.Cfg, "schedule": c.sample})
		}
	}
	if outcomes != nil {
		r.Set("terminal_outcomes", outcomes)
	}
	r.Finish(rule)
}

func k2Run(r *vk.Run, prop string, scenarios []k2Scenario, c09, c13 bool, rule string) {
	if p := r.ReplayPath(); p != "" {
		var rp k2Replay
		vk.LoadReplay(p, &rp)
		sc := rp.Scenario
		for _, s := range scenarios {
			if s.Name == sc.Name {
				sc.Alphabet = s.Alphabet
			}
		}
		if sc.Alphabet == nil {
			vk.Fatalf("replay: scenario %s is not part of this tier; run the replay with the tier that produced it", sc.Name)
		}
		c := k2NewCtx(r, prop, sc, c09, c13)
		var ids []int
		for _, name := range rp.Actions {
			ids = append(ids, c.parse(name))
		}
		from := 0
		if len(ids) > 60 {
			from = len(ids) - 1 // a scripted history: only the whole of it
		}
		for i := from; i < len(ids) && !c.poisoned; i++ {
			c.try(ids[:i], ids[i])
		}
		r.Eval(len(ids))
		r.DistinctN(len(ids))
		r.Finish("replay")
	}
	r.Assume(
		"skchia keeper built in-package with the fields NewSpaceKeeperChiaPoS sets; the index is filled with WorkSpace values over a fake massdb.MassDB (BLS keys from the library's KeyGen, GetQualities returns one quality and counts calls) instead of plot files; configuration through the real ConfigureByFlags(SFAll, plot, mine)",
		"family (a) production-reachable: all spaces Ready (the only state NewWorkSpace produces), cfg none/plot/mine; family (b) unreachable-registered: some spaces Registered - not reachable from NewWorkSpace, explored because the plotter machinery is in the code; fingerprints raised there contain /unreachable-registered/",
		"API bodies hold stateLock for their whole body (PlotWS: read lock) and the plotter holds it for steps 1 and 3, so gate granularity (queue.nonempty, popped, step1.done, plot.returned, space.done, idle) covers every order observable through states; unsynchronised accesses between gates (GetQualities reads workSpaceList without the lock; wg.Add inside the plotter goroutine) are not enumerated",
		"quiescence from runtime.Stack wait reasons; ants pool housekeeping goroutines ignored; request channel capacities 0-2 (C13) stand for 'however many requests are outstanding' (production: 1024); in C09 capacity 8 and at most max_requests_waiting_in_channel queued requests so that no request blocks",
		fmt.Sprintf("bounds: %d scenarios, each searched to the depth listed under coverage.scenarios (or to the fixpoint of its canonical state space if that comes first)", len(scenarios)))
	if _, _, child := r.Shard(); child {
		k2Serve(r, prop, scenarios, c09, c13, rule)
		return
	}
	r.PanicIsViolation = true
	n := vk.Workers()
	sock := filepath.Join(os.Getenv("VERIF_SCRATCH"), "k2.sock")
	os.Remove(sock)
	ln, err := net.Listen("unix", sock)
	if err != nil {
		vk.Fatalf("listen %s: %v", sock, err)
	}
	os.Setenv("VERIF_K2_SOCK", sock)
	pool := make(chan *k2Conn, n)
	var live, accepted, left int32 // left: workers that retired or died
	allGone := make(chan struct{}) // closed when no worker is left (all connected ones retired or died, or all children exited)
	var goneOnce sync.Once
	leave := func() {
		atomic.AddInt32(&left, 1)
		if atomic.AddInt32(&live, -1) == 0 && atomic.LoadInt32(&accepted) == int32(n) {
			goneOnce.Do(func() { close(allGone) })
		}
	}
	go func() {
		for {
			c, err := ln.Accept()
			if err != nil {
				return
			}
			atomic.AddInt32(&live, 1)
			atomic.AddInt32(&accepted, 1)
			pool <- &k2Conn{c: c, rd: bufio.NewReaderSize(c, 1<<20)}
		}
	}()
	rpc := func(j k2Job) (k2Res, bool) {
		for {
			var w *k2Conn
			select {
			case w = <-pool:
			case <-allGone:
				return k2Res{}, false
			}
			res, err := w.call(j)
			if err != nil {
				// the worker died (a panic in a goroutine of the keeper kills the process: RunShards reports it)
				w.c.Close()
				leave()
				r.Cap("a worker process died while executing a transition; that transition and its subtree are unexplored")
				r.Set("transition_during_which_a_worker_died", fmt.Sprintf("scenario %d: %v + %s", j.Sc, j.Hist, j.Op))
				return k2Res{}, false
			}
			for _, v := range res.Viols {
				k2Report(r, v)
			}
			if res.Retire {
				w.c.Close()
				leave()
				r.Cap("a worker process retired because an instance could not be torn down (goroutines stuck for good); if all workers retire the rest of the search is skipped")
			} else {
				pool <- w
			}
			return res, true
		}
	}
	var dump *os.File // diagnostic switch VERIF_K2_DUMPKEYS=<file>: every (key, history) the search sees
	if p := os.Getenv("VERIF_K2_DUMPKEYS"); p != "" {
		dump, _ = os.Create(p)
		defer dump.Close()
	}
	coordDone := make(chan struct{})
	var states, trans int64
	var per []string
	go func() {
		defer close(coordDone)
		for si, sc := range scenarios {
			var mu sync.Mutex
			ids := map[string]int{}
			var names []string
			id := func(s string) int {
				mu.Lock()
				defer mu.Unlock()
				if i, ok := ids[s]; ok {
					return i
				}
				names = append(names, s)
				ids[s] = len(names) - 1
				return len(names) - 1
			}
			name := func(i int) string {
				mu.Lock()
				defer mu.Unlock()
				return names[i]
			}
			if sc.Script != nil {
				n := len(sc.Script)
				res, ok := rpc(k2Job{Sc: si, Hist: sc.Script[:n-1], Op: sc.Script[n-1]})
				if !ok {
					break
				}
				if res.Key == "" && len(res.Viols) == 0 {
					r.Cap("scripted scenario " + sc.Name + " could not be executed as written (an action of the script was not enabled)")
					per = append(per, fmt.Sprintf("%s: scripted %d actions - NOT executed as written", sc.Name, n))
					continue
				}
				states++
				trans += int64(n)
				per = append(per, fmt.Sprintf("%s: family=%s initial=%s cfg=%s chan_cap=%d scripted %d actions, then drained (see terminal_outcomes)", sc.Name, sc.Family, sc.Initial, sc.Cfg, sc.ChanCap, n))
				continue
			}
			init, ok := rpc(k2Job{Sc: si})
			if !ok {
				break
			}
			var initOps []int
			for _, o := range init.Ops {
				initOps = append(initOps, id(o))
			}
			res := seqx.Explore(seqx.Spec{Depth: sc.Horizon, InitKey: init.Key, InitOps: initOps, Stop: r.Expired,
				Try: func(hist []int, op int) (string, []int, bool) {
					j := k2Job{Sc: si, Op: name(op)}
					for _, h := range hist {
						j.Hist = append(j.Hist, name(h))
					}
					res, ok := rpc(j)
					if !ok {
						return "", nil, false
					}
					var ops []int
					for _, o := range res.Ops {
						ops = append(ops, id(o))
					}
					if dump != nil {
						mu.Lock()
						fmt.Fprintf(dump, "%s\t%v+%s\n", res.Key, j.Hist, j.Op)
						mu.Unlock()
					}
					return res.Key, ops, res.Expand
				}})
			if !res.Complete {
				r.Cap("deadline hit in scenario " + sc.Name)
			}
			fix := len(res.PerLevel) > 0 && res.PerLevel[len(res.PerLevel)-1] == 0 && res.Complete
			states += int64(res.States)
			trans += res.Transitions
			per = append(per, fmt.Sprintf("%s: family=%s initial=%s cfg=%s chan_cap=%d max_waiting=%d in_flight<=%d alphabet=%d+gates depth_bound=%d states=%d transitions=%d max_depth=%d new_states_per_level=%v whole_state_space_exhausted=%v",
				sc.Name, sc.Family, sc.Initial, sc.Cfg, sc.ChanCap, sc.MaxChan, sc.MaxInFlight, len(sc.Alphabet), sc.Horizon+1, res.States, res.Transitions, res.MaxDepth, res.PerLevel, fix))
		}
		// release the workers
		// (every one of the n children: one that connects late still has to be told)
		for sent := int32(0); sent+atomic.LoadInt32(&left) < int32(n); {
			select {
			case w := <-pool:
				b, _ := json.Marshal(k2Job{Done: true})
				w.c.Write(append(b, '\n'))
				sent++
			case <-allGone:
				return
			}
		}
	}()
	r.RunShards(n, 1)
	goneOnce.Do(func() { close(allGone) })
	<-coordDone
	ln.Close()
	r.Set("states", states)
	r.Set("transitions", trans)
	r.Set("traces_validated_against_impl", trans)
	r.Set("scenarios", per)
	r.DistinctN(int(states))
	r.Finish(rule)
}

var (
	k2BulkA = map[string][]engine.WorkSpaceStateFlags{
		"mine": {engine.SFAll, engine.SFReady}, "stop": {engine.SFAll, engine.SFMining}, "plot": {engine.SFAll},
		"remove": {engine.SFReady}, "delete": {engine.SFReady | engine.SFMining},
	}
	k2BulkB = map[string][]engine.WorkSpaceStateFlags{
		"mine": {engine.SFAll, engine.SFRegistered}, "stop": {engine.SFAll, engine.SFPlotting | engine.SFMining}, "plot": {engine.SFAll},
		"remove": {engine.SFRegistered | engine.SFReady},
	}
)

// k2Only: experiment switches (not used by ./check): VERIF_K2_ONLY=<substring of scenario names>, VERIF_K2_DEPTH=<depth bound>.
func k2Only(scs []k2Scenario) []k2Scenario {
	if d := os.Getenv("VERIF_K2_DEPTH"); d != "" {
		var n int
		fmt.Sscan(d, &n)
		for i := range scs {
			scs[i].Horizon = n - 1
		}
	}
	only := os.Getenv("VERIF_K2_ONLY")
	if only == "" {
		return scs
	}
	var f []k2Scenario
	for _, s := range scs {
		if strings.Contains(s.Name, only) {
			f = append(f, s)
		}
	}
	return f
}

func TestVerifC09Chia(t *testing.T) {
	r := vk.Start("C09", "model_checking")
	var scs []k2Scenario
	add := func(fam, init, cfg string, depth, maxChan int, alpha []k2Action) {
		scs = append(scs, k2Scenario{Name: fmt.Sprintf("%s-%s-%s", fam, init, cfg), Family: fam, Initial: init, Cfg: cfg, ChanCap: 8,
			MaxChan: maxChan, Horizon: depth - 1, MaxInFlight: 1, Alphabet: alpha})
	}
	// family (a): production-reachable. Depth bound 20 is never reached for two workspaces: the search
	// ends when no new canonical state appears (whole reachable state space of the scenario).
	for _, cfg := range []string{"none", "mine", "plot"} {
		add("a", "YY", cfg, 20, 2, k2Alphabet(2, k2BulkA, true, true, nil))
	}
	yyy := map[string][]engine.WorkSpaceStateFlags{"mine": {engine.SFAll}, "stop": {engine.SFAll}}
	add("a", "YYY", "mine", vk.Pick(r, 7, 20), 2, k2Alphabet(3, yyy, false, true, nil))
	if r.Thorough() {
		add("a", "YYY", "none", 20, 2, k2Alphabet(3, k2BulkA, true, true, nil))
	}
	// family (b): registered spaces (not reachable from NewWorkSpace)
	add("b", "RY", "none", vk.Pick(r, 8, 24), 2, k2Alphabet(2, k2BulkB, false, true, nil))
	add("b", "RR", "none", vk.Pick(r, 6, 10), 2, k2Alphabet(2, k2BulkB, false, false, nil))
	if r.Thorough() {
		add("b", "RRY", "none", 6, 2, k2Alphabet(3, nil, false, false, nil))
	}
	k2Run(r, "C09", k2Only(scs), true, false,
		"explicit-state search (BFS by replay on fresh instances, canonical-state pruning) over the real skchia.SpaceKeeper with a fake plot database: actions = ActOnWorkSpace(plot/mine/stop/remove/delete) on each of 2-3 workspaces and on an unknown id, ActOnWorkSpaces for several flag sets, keeper Stop/Start, and the release of each plotter gate (queue.nonempty, popped, step1.done, plot.returned, space.done, idle); reference model = map workspace -> (state, used, deleted, asked) following the documented transition table; in every reached state: exactly-one-state and index consistency, state/used/list agree with the model, at most one plotting, all 16 flag filters agree between WorkSpaceIDs/WorkSpaceInfos/model, GetQualities/GetQualitiesReader(SFMining) offer exactly the used mining spaces (and for every other flag set exactly the spaces in those states; a stopped keeper offers nothing), returned errors equal the model's, every plotter-made state change is a documented edge, a stopped or never-asked space does not enter plotting/mining until asked again")
}

func TestVerifC13Chia(t *testing.T) {
	r := vk.Start("C13", "model_checking")
	queries := []string{"ids", "infos", "qualities", "qualities-reader"}
	var scs []k2Scenario
	add := func(fam, init, cfg string, cap, depth int, alpha []k2Action) {
		scs = append(scs, k2Scenario{Name: fmt.Sprintf("%s-%s-%s-cap%d", fam, init, cfg, cap), Family: fam, Initial: init, Cfg: cfg, ChanCap: cap,
			MaxChan: -1, Horizon: depth - 1, MaxInFlight: 2, Alphabet: alpha})
	}
	d := 6
	// family (a): searched until no new canonical state appears (depth bound 20 is not reached)
	add("a", "YY", "mine", 1, 20, k2Alphabet(2, nil, false, true, queries))
	add("a", "YY", "plot", 1, 20, k2Alphabet(2, nil, false, true, queries))
	add("a", "YY", "none", 1, 20, k2Alphabet(2, nil, false, true, queries))
	// family (b)
	small := func(n int) []k2Action { // requests that queue, one stop/remove, two queries, keeper stop/start
		var alpha []k2Action
		for w := 0; w < n; w++ {
			alpha = append(alpha, k2Action{Kind: "op", Op: "plot", WS: w}, k2Action{Kind: "op", Op: "mine", WS: w})
		}
		alpha = append(alpha, k2Action{Kind: "op", Op: "stop", WS: 0}, k2Action{Kind: "op", Op: "remove", WS: 0}, k2Action{Kind: "query", Name: "ids", WS: -1}, k2Action{Kind: "query", Name: "qualities", WS: -1},
			k2Action{Kind: "kstop", WS: -1}, k2Action{Kind: "kstart", WS: -1})
		return alpha
	}
	for _, cap := range []int{0, 1, 2} {
		for _, init := range []string{"RR", "RY", "RRR"} {
			if r.Quick() && (cap == 2 || init == "RRR") {
				continue
			}
			alpha := k2Alphabet(2, nil, false, true, []string{"ids", "qualities"})
			if init == "RRR" || r.Quick() {
				alpha = small(len(init))
			}
			depth := d + cap
			if cap == 0 {
				depth++
			}
			if init == "RRR" && cap > 0 {
				depth--
			}
			if r.Thorough() && cap == 2 {
				depth = 7
				if init == "RRR" {
					depth = 6
				}
			}
			add("b", init, "none", cap, depth, alpha)
		}
	}
	// lock-discipline probe of the plot queue (see k2Sys.do, case "probe")
	scs = append(scs, k2Scenario{Name: "b-RR-probe-queue-lock", Family: "b", Initial: "RR", Cfg: "none", ChanCap: 1, MaxChan: -1, Horizon: 2, MaxInFlight: 2,
		Alphabet: append(k2Alphabet(2, nil, false, true, nil), k2Action{Kind: "probe", Name: "queue-lock", WS: -1}), Script: []string{"gate:idle", "probe:queue-lock"}})
	if r.Thorough() {
		// the finding at the production constant: the plotter has popped a request and is about to take
		// the lock for step 1; 1024 plot requests fill the channel, request 1025 blocks holding the
		// (read) lock, the plotter cannot take the write lock, nobody receives any more
		script := []string{"plot(a)", "gate:idle", "gate:queue.nonempty"}
		for i := 0; i < plotterMaxChanSize+1; i++ {
			script = append(script, "plot(b)")
		}
		script = append(script, "gate:popped")
		scs = append(scs, k2Scenario{Name: "b-RR-scripted-cap1024", Family: "b", Initial: "RR", Cfg: "none", ChanCap: plotterMaxChanSize, MaxChan: -1,
			Horizon: len(script), MaxInFlight: 2, Alphabet: k2Alphabet(2, nil, false, true, nil), Script: script})
	}
	k2Run(r, "C13", k2Only(scs), false, true,
		"explicit-state search over the real skchia.SpaceKeeper with a fake plot database under the quiescence scheduler: control requests (plot/mine/stop/remove/delete), queries (WorkSpaceIDs, WorkSpaceInfos, GetQualities, GetQualitiesReader), keeper Stop and Start from up to 2 callers in flight, and the plotter gates, in every order up to a depth bound; request channel of capacity 0, 1, 2 standing for 'however many requests are outstanding'; from every reached state the execution is drained (all gates released, keeper Stop issued, gates released again): a call or Stop that has not returned then is blocked for ever (decided from goroutine wait reasons, never from time); panics in any call are violations")
}
