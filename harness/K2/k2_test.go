//go:build go1.21

package skchia

// Keeper harness K2 (skchia part of C09 and C13): the real skchia.SpaceKeeper
// (engine v2, chia plots) built in-package over a fake massdb.MassDB, its plotter
// goroutine controlled through the VerifGate hook by the quiescence scheduler.
// API calls, keeper Stop/Start and the release of each plotter gate are the
// actions; every order is explored with canonical-state pruning (k2props_test.go).

import (
	"bytes"
	"context"
	"errors"
	"fmt"
	"io"
	"os"
	"path/filepath"
	"sort"
	"strings"
	"sync"
	"sync/atomic"
	"time"

	"github.com/massnetorg/mass-core/logging"
	"github.com/massnetorg/mass-core/massutil/service"
	"github.com/massnetorg/mass-core/poc/chiapos"
	"github.com/massnetorg/mass-core/poc/pocutil"
	"github.com/panjf2000/ants/v2"
	"massnet.org/mass/poc/engine.v2"
	"massnet.org/mass/zz_verif/qsched"
	"massnet.org/mass/zz_verif/vk"
)

// ---------------------------------------------------------------- fake plot database

type k2DB struct {
	idx       int
	info      *chiapos.PlotInfo
	bl        int
	qualities int64 // number of GetQualities calls (the miner was offered this space)
	closed    int32
}

func (d *k2DB) Type() string                { return "verif.fake.chiapos" }
func (d *k2DB) Close() error                { atomic.StoreInt32(&d.closed, 1); return nil }
func (d *k2DB) Ready() bool                 { return true }
func (d *k2DB) BitLength() int              { return d.bl }
func (d *k2DB) ID() [32]byte                { return [32]byte{byte(d.idx + 1)} }
func (d *k2DB) PlotInfo() *chiapos.PlotInfo { return d.info }
func (d *k2DB) GetQualities(challenge pocutil.Hash) ([][]byte, error) {
	atomic.AddInt64(&d.qualities, 1)
	return [][]byte{{byte(d.idx + 1), challenge[0]}}, nil
}
func (d *k2DB) GetProof(challenge pocutil.Hash, index uint32) (*chiapos.ProofOfSpace, error) {
	return nil, errors.New("verif fake: no proof")
}

// BLS elements come from the library's own key generation; one set per workspace
// index, computed once per process (cgo) and shared by all instances (read-only).
var (
	k2InfoMu sync.Mutex
	k2Infos  = map[int]*chiapos.PlotInfo{}
)

func k2Info(i int) *chiapos.PlotInfo {
	k2InfoMu.Lock()
	defer k2InfoMu.Unlock()
	if inf, ok := k2Infos[i]; ok {
		return inf
	}
	scheme := chiapos.NewAugSchemeMPL()
	mk := func(tag byte) (*chiapos.PrivateKey, *chiapos.G1Element) {
		sk, err := scheme.KeyGen(bytes.Repeat([]byte{tag, byte(i + 1)}, 16))
		if err != nil {
			vk.Fatalf("K2: chiapos KeyGen: %v", err)
		}
		pk, err := sk.GetG1()
		if err != nil {
			vk.Fatalf("K2: chiapos GetG1: %v", err)
		}
		return sk, pk
	}
	_, pool := mk(0x50)
	master, farmer := mk(0x46)
	local, plot := mk(0x4c)
	inf := &chiapos.PlotInfo{PoolPublicKey: pool, FarmerPublicKey: farmer, MasterSk: master, LocalSk: local, PlotPublicKey: plot}
	k2Infos[i] = inf
	return inf
}

// ---------------------------------------------------------------- system under test

var k2Names = []string{"a", "b", "c"}

const k2Unknown = "0000000000000000000000000000000000000000000000000000000000000000-32"

// per-workspace reference model + monitors
type k2Model struct {
	State   engine.WorkSpaceState
	Used    bool
	Deleted bool
	// askedAny / askedMine: a plot or mine (resp. mine) request, or the start-up configuration,
	// is outstanding for the space and no stop came after it ("stopped" = neither)
	AskedAny, AskedMine bool
	StopVia             string // where an outstanding request sat when the space was stopped
}

type k2Sys struct {
	s       *qsched.Sched
	sk      *SpaceKeeper
	ws      []*WorkSpace
	db      []*k2DB
	sid     map[string]int
	model   []k2Model
	ops     []*qsched.Op
	opDesc  []string
	opAct   []k2Action
	checked []bool // result of ops[i] already compared with the model
	lifeOp  *qsched.Op
	issued  int
	// probe "queue-lock": the queue was modified while the harness held the queue's own mutex
	probeMutated bool
	probeNote    string
	closeRoots   string
}

var k2LogOnce sync.Once

// k2New builds a keeper the way NewSpaceKeeperChiaPoS does (same fields; the index is filled
// with in-package WorkSpace values instead of plot files), configures it with the real
// ConfigureByFlags(SFAll, execPlot, execMine) and starts it.
// initial: one letter per workspace, Y ready (what NewWorkSpace produces), R registered.
// cfg: "none" | "plot" | "mine" (config.Miner.Plot / config.Miner.Generate of the constructor).
func k2New(initial, cfg string, chanCap int) *k2Sys {
	k2LogOnce.Do(func() {
		logging.Init(filepath.Join(os.Getenv("VERIF_SCRATCH"), "k2logs"), "k2", "fatal", 1, true)
	})
	k := &k2Sys{s: qsched.New(), sid: map[string]int{}}
	pool, err := ants.NewPool(4)
	if err != nil {
		vk.Fatalf("ants pool: %v", err)
	}
	sk := &SpaceKeeper{
		allowGenerateNewSpace: true,
		dbDirs:                []string{"/verif-fake"},
		dbType:                typeMassDBChiaPoS,
		workSpaceIndex:        make([]*WorkSpaceMap, 0),
		workSpacePaths:        make(map[string]*WorkSpacePath),
		workSpaceList:         make([]*WorkSpace, 0),
		queue:                 newPlotterQueue(),
		newQueuedWorkSpaceCh:  make(chan *queuedWorkSpace, chanCap),
		workerPool:            pool,
		fileWatcher:           func() {},
	}
	sk.BaseService = service.NewBaseService(sk, TypeSpaceKeeperChiaPoS)
	sk.generateInitialIndex = func() error { return nil }
	for s := engine.FirstState; s <= allState; s++ {
		sk.workSpaceIndex = append(sk.workSpaceIndex, NewWorkSpaceMap())
	}
	for i, c := range initial {
		db := &k2DB{idx: i, info: k2Info(i), bl: 32}
		st := engine.Ready
		if c == 'R' {
			st = engine.Registered
		}
		ws := &WorkSpace{db: db, state: st, id: NewSpaceID(db.PlotInfo(), db.BitLength()), rootDir: "/verif-fake"}
		sk.addWorkSpaceToIndex(ws)
		k.ws = append(k.ws, ws)
		k.db = append(k.db, db)
		k.sid[ws.id.String()] = i
		k.model = append(k.model, k2Model{State: st, Used: true, AskedAny: cfg != "none", AskedMine: cfg == "mine"})
	}
	if _, err := sk.ConfigureByFlags(engine.SFAll, cfg == "plot", cfg == "mine"); err != nil {
		vk.Fatalf("ConfigureByFlags: %v", err)
	}
	if len(sk.workSpaceList) != len(initial) {
		vk.Fatalf("configured %d of %d workspaces", len(sk.workSpaceList), len(initial))
	}
	k.sk = sk
	VerifGate = func(x *SpaceKeeper, name string) {
		if x == sk {
			k.s.Gate(name)
		}
	}
	if err := sk.Start(); err != nil {
		vk.Fatalf("keeper start: %v", err)
	}
	k.quiesce()
	if len(k.s.Parked()) == 0 {
		vk.Fatalf("plotter did not reach its first gate; goroutines:\n%s", k.s.LastDump)
	}
	return k
}

func (k *k2Sys) quiesce() []qsched.GoroutineInfo {
	b, ok := k.s.Quiesce(20 * time.Second)
	if !ok {
		vk.Fatalf("no quiescence within 20s; last busy: %s; goroutines:\n%s", k.s.LastBusy, k.s.LastDump)
	}
	return b
}

// close tears an instance down so that none of its goroutines survives into the next one: all gates
// pass, the request channel is drained continuously (this dissolves a send-under-lock deadlock: teardown
// only), the keeper is stopped. Whether that succeeded is decided at quiescence from wait reasons, never
// from time. ok=false: a call or keeper.Stop() is blocked for good even so (note says which); the process
// is then unfit for further instances and the caller retires it.
func (k *k2Sys) close() (ok bool, note string) {
	k.s.Deactivate()
	drainDone := make(chan struct{})
	var drainWG sync.WaitGroup
	drainWG.Add(1)
	go func() {
		defer drainWG.Done()
		for {
			select {
			case <-k.sk.newQueuedWorkSpaceCh:
			case <-drainDone:
				return
			}
		}
	}()
	ok = true
	blocked := k.quiesce()
	if k.lifeOp != nil && !k.lifeOp.Done() {
		ok, note = false, k.lifeOp.Name+" has not returned although every gate is open"
	}
	if ok && k.sk.Started() {
		sk := k.sk
		stop := k.s.Start("keeper.Stop", func() (interface{}, error) { return nil, sk.Stop() })
		blocked = k.quiesce()
		if !stop.Done() {
			ok, note = false, "keeper.Stop() does not return although every gate is open and the request channel is being drained"
		}
	}
	if ok && k.inFlight() > 0 {
		ok, note = false, fmt.Sprintf("%d calls have not returned although every gate is open, the request channel is being drained and the keeper is stopped", k.inFlight())
	}
	if !ok {
		roots, _ := k2DeadlockRoots(blocked)
		if len(roots) == 0 {
			roots = []string{"state-lock-never-released"}
		}
		note += "; blocked: " + strings.Join(roots, "+")
		k.closeRoots = strings.Join(roots, "+")
	}
	close(drainDone)
	drainWG.Wait()
	k.sk.workerPool.Release()
	VerifGate = nil
	return ok, note
}

// ---------------------------------------------------------------- actions

type k2Action struct {
	Kind  string // "op" | "query" | "gate" | "kstop" | "kstart"
	Op    string // plot|mine|stop|remove|delete (single, WS>=0; WS==9: unknown id) or bulk with Flags
	WS    int
	Flags engine.WorkSpaceStateFlags // bulk form
	Name  string                     // gate name / query name
}

var k2ActionTypes = map[string]engine.ActionType{"plot": engine.Plot, "mine": engine.Mine, "stop": engine.Stop, "remove": engine.Remove, "delete": engine.Delete}

func k2FlagName(f engine.WorkSpaceStateFlags) string {
	if f == engine.SFAll {
		return "all"
	}
	var p []string
	for _, s := range f.States() {
		p = append(p, s.String())
	}
	return strings.Join(p, "+")
}

func (a k2Action) String() string {
	switch a.Kind {
	case "op":
		if a.WS == 9 {
			return a.Op + "(unknown)"
		}
		if a.WS >= 0 {
			return a.Op + "(" + k2Names[a.WS] + ")"
		}
		return a.Op + "[" + k2FlagName(a.Flags) + "]"
	case "query":
		return "query:" + a.Name
	case "gate":
		return "gate:" + a.Name
	case "probe":
		return "probe:" + a.Name
	case "kstop":
		return "keeper.Stop()"
	case "kstart":
		return "keeper.Start()"
	}
	return a.Kind
}

func (k *k2Sys) inFlight() int {
	n := 0
	for _, o := range k.ops {
		if !o.Done() {
			n++
		}
	}
	if k.lifeOp != nil && !k.lifeOp.Done() {
		n++
	}
	return n
}

func (k *k2Sys) sidOf(w int) string {
	if w == 9 {
		return k2Unknown
	}
	return k.ws[w].id.String()
}

// qualitySet asks the keeper what it offers to the miner for the flags (sorted workspace names).
func (k *k2Sys) qualitySet(flags engine.WorkSpaceStateFlags, reader bool) ([]string, error) {
	var ch pocutil.Hash
	ch[0] = 7
	var out []string
	if !reader {
		qs, err := k.sk.GetQualities(context.Background(), flags, ch)
		if err != nil {
			return nil, err
		}
		for _, q := range qs {
			out = append(out, k.nameOf(q.SpaceID))
		}
	} else {
		ctx, cancel := context.WithCancel(context.Background())
		defer cancel()
		rd, err := k.sk.GetQualitiesReader(ctx, flags, ch)
		if err != nil {
			return nil, err
		}
		for {
			q, err := rd.Read()
			if q != nil {
				out = append(out, k.nameOf(q.SpaceID))
			}
			if err == io.EOF || q == nil {
				break
			}
		}
	}
	sort.Strings(out)
	return out, nil
}

func (k *k2Sys) nameOf(sid string) string {
	if i, ok := k.sid[sid]; ok {
		return k2Names[i]
	}
	return "?" + sid
}

// do performs one action and waits for quiescence.
func (k *k2Sys) do(a k2Action) []qsched.GoroutineInfo {
	sk := k.sk
	switch a.Kind {
	case "op":
		var fn func() (interface{}, error)
		act := k2ActionTypes[a.Op]
		if a.WS >= 0 {
			sid := k.sidOf(a.WS)
			fn = func() (interface{}, error) { return nil, sk.ActOnWorkSpace(sid, act) }
		} else {
			flags := a.Flags
			fn = func() (interface{}, error) { return sk.ActOnWorkSpaces(flags, act) }
		}
		k.ops = append(k.ops, k.s.Start(a.String(), fn))
		k.opDesc = append(k.opDesc, a.String())
		k.opAct = append(k.opAct, a)
		k.checked = append(k.checked, false)
		k.issued++
	case "query":
		var fn func() (interface{}, error)
		switch a.Name {
		case "ids":
			fn = func() (interface{}, error) { return sk.WorkSpaceIDs(engine.SFAll) }
		case "infos":
			fn = func() (interface{}, error) { return sk.WorkSpaceInfos(engine.SFMining | engine.SFReady) }
		case "qualities":
			fn = func() (interface{}, error) {
				return sk.GetQualities(context.Background(), engine.SFMining, pocutil.Hash{})
			}
		case "qualities-reader":
			fn = func() (interface{}, error) {
				ctx, cancel := context.WithCancel(context.Background())
				defer cancel()
				rd, err := sk.GetQualitiesReader(ctx, engine.SFAll, pocutil.Hash{})
				if err != nil {
					return nil, err
				}
				n := 0
				for {
					q, err := rd.Read()
					if q != nil {
						n++
					}
					if err == io.EOF || q == nil {
						return n, nil
					}
				}
			}
		default:
			vk.Fatalf("unknown query %s", a.Name)
		}
		k.ops = append(k.ops, k.s.Start(a.String(), fn))
		k.opDesc = append(k.opDesc, a.String())
		k.opAct = append(k.opAct, a)
		k.checked = append(k.checked, true)
		k.issued++
	case "gate":
		if !k.s.Release(a.Name) {
			vk.Fatalf("gate %s not parked", a.Name)
		}
	case "probe":
		// Lock-discipline probe (deterministic; nothing is inferred from timing): plotterQueue.Delete - called by
		// StopWS/RemoveWS/DeleteWS - rebuilds the queue while holding the queue's mutex. The harness takes that
		// mutex in its place and lets a plot request reach a plotter that waits in its idle select. If the
		// plotter's addSpaces took the mutex for its Push it would block and the queue would keep its size.
		q := sk.queue
		q.Lock()
		before := q.Prque.Size()
		sid := k.sidOf(0)
		k.ops = append(k.ops, k.s.Start("plot(a)", func() (interface{}, error) { return nil, sk.ActOnWorkSpace(sid, engine.Plot) }))
		k.opDesc = append(k.opDesc, "plot(a)")
		k.opAct = append(k.opAct, a)
		k.checked = append(k.checked, true)
		k.quiesce()
		after := q.Prque.Size()
		q.Unlock()
		k.probeMutated = after != before
		k.probeNote = fmt.Sprintf("queue size %d -> %d while the harness held plotterQueue's mutex", before, after)
	case "kstop":
		k.lifeOp = k.s.Start("keeper.Stop", func() (interface{}, error) { return nil, sk.Stop() })
		k.issued++
	case "kstart":
		k.lifeOp = k.s.Start("keeper.Start", func() (interface{}, error) { return nil, sk.Start() })
		k.issued++
	}
	return k.quiesce()
}

// enabled actions at the current quiescent state, canonical order.
// maxChan >= 0: plot/mine requests are offered only while fewer than maxChan requests wait in the
// channel (a bound on the state, so pruning by canonical state stays exact).
func (k *k2Sys) enabled(alphabet []k2Action, maxChan, maxInFlight int) []k2Action {
	var out []k2Action
	if k.inFlight() < maxInFlight {
		lifeBusy := k.lifeOp != nil && !k.lifeOp.Done()
		for _, a := range alphabet {
			if a.WS >= 0 && a.WS != 9 && a.WS >= len(k.ws) {
				continue
			}
			if maxChan >= 0 && a.Kind == "op" && (a.Op == "plot" || a.Op == "mine") && len(k.sk.newQueuedWorkSpaceCh) >= maxChan {
				continue
			}
			if a.Kind == "kstop" && (!k.sk.Started() || lifeBusy) {
				continue
			}
			if a.Kind == "kstart" && (k.sk.Started() || lifeBusy) {
				continue
			}
			out = append(out, a)
		}
	}
	seen := map[string]bool{}
	for _, g := range k.s.Parked() {
		if !seen[g] {
			seen[g] = true
			out = append(out, k2Action{Kind: "gate", Name: g, WS: -1})
		}
	}
	return out
}

// ---------------------------------------------------------------- canonical state

func (k *k2Sys) queueItems() []string {
	q := k.sk.queue
	q.Lock()
	defer q.Unlock()
	var items []interface{}
	var prios []float32
	var out []string
	for !q.Prque.Empty() {
		it, p := q.Prque.Pop()
		items = append(items, it)
		prios = append(prios, p)
		qws := it.(*queuedWorkSpace)
		out = append(out, fmt.Sprintf("%s/%v", k.nameOf(qws.ws.id.String()), qws.wouldMining))
	}
	for i := range items {
		q.Prque.Push(items[i], prios[i])
	}
	return out
}

// chanItems peeks the request channel by draining and refilling it; only called at
// quiescence when no goroutine is blocked sending to it (and then nobody receives either:
// a plotter waiting in its select would have taken the items).
func (k *k2Sys) chanItems() []string {
	ch := k.sk.newQueuedWorkSpaceCh
	var items []*queuedWorkSpace
	for {
		select {
		case it := <-ch:
			items = append(items, it)
			continue
		default:
		}
		break
	}
	var out []string
	for _, it := range items {
		ch <- it
		out = append(out, fmt.Sprintf("%s/%v", k.nameOf(it.ws.id.String()), it.wouldMining))
	}
	return out
}

func k2BlockedSender(blocked []qsched.GoroutineInfo) bool {
	for _, g := range blocked {
		if g.Reason == "chan send" && (strings.Contains(g.Stack, "PlotWS") || strings.Contains(g.Stack, "MineWS")) {
			return true
		}
	}
	return false
}

func (k *k2Sys) parkedAt(name string) bool {
	for _, g := range k.s.Parked() {
		if g == name {
			return true
		}
	}
	return false
}

// outstanding says where a not yet executed request for workspace w sits.
func (k *k2Sys) outstanding(w int, blocked []qsched.GoroutineInfo) string {
	name := k2Names[w] + "/"
	if p := k.sk.queue.PoppedItem(); p != nil && k.sid[p.ws.id.String()] == w && k.parkedAt("popped") {
		return "request-already-popped"
	}
	if !k2BlockedSender(blocked) && len(k.sk.newQueuedWorkSpaceCh) > 0 {
		for _, it := range k.chanItems() {
			if strings.HasPrefix(it, name) {
				return "request-pending-in-channel"
			}
		}
	}
	for _, it := range k.queueItems() {
		if strings.HasPrefix(it, name) {
			return "request-left-in-queue"
		}
	}
	return ""
}

func (k *k2Sys) wsStates() []string {
	out := make([]string, len(k.ws))
	for i, ws := range k.ws {
		u := "-"
		if ws.using {
			u = "u"
		}
		out[i] = ws.state.String() + u
	}
	return out
}

func (k *k2Sys) stateKey(blocked []qsched.GoroutineInfo, hist string) string {
	var sb strings.Builder
	for i, ws := range k.ws {
		m := k.model[i]
		via := ""
		if m.Used && !m.AskedMine {
			via = m.StopVia // decides the site a later sticky-stop violation is reported under
		}
		fmt.Fprintf(&sb, "%s:%s u=%v m=%s/%v/%v ask=%v/%v/%s idx=", k2Names[i], ws.state, ws.using, m.State, m.Used, m.Deleted, m.AskedAny, m.AskedMine, via)
		sid := ws.id.String()
		for s := engine.FirstState; s <= allState; s++ {
			if k.sk.workSpaceIndex[s].Has(sid) {
				fmt.Fprintf(&sb, "%d", s)
			}
		}
		sb.WriteString("; ")
	}
	var list []string
	for _, ws := range k.sk.workSpaceList {
		list = append(list, k.nameOf(ws.id.String()))
	}
	fmt.Fprintf(&sb, "list=%v queue=%v ", list, k.queueItems())
	if p := k.sk.queue.PoppedItem(); p != nil {
		fmt.Fprintf(&sb, "popped=%s/%v ", k.nameOf(p.ws.id.String()), p.wouldMining)
	}
	if k2BlockedSender(blocked) {
		// cannot peek the channel without disturbing the blocked sender: no merging for such states
		fmt.Fprintf(&sb, "chan=FULL+blocked-sender hist=%s ", hist)
	} else if len(k.sk.newQueuedWorkSpaceCh) > 0 {
		fmt.Fprintf(&sb, "chan=%v ", k.chanItems())
	}
	fmt.Fprintf(&sb, "gates=%v ", k.s.Parked())
	var pend []string
	for i, o := range k.ops {
		if !o.Done() {
			pend = append(pend, k.opDesc[i])
		}
	}
	if k.lifeOp != nil && !k.lifeOp.Done() {
		pend = append(pend, k.lifeOp.Name)
	}
	fmt.Fprintf(&sb, "pending=%v running=%v", pend, k.sk.Started())
	// where the plotter and its monitor are blocked matters for futures (sorted: the dump order varies)
	var pl []string
	for _, g := range blocked {
		if strings.Contains(g.Stack, "spacePlotter") {
			pl = append(pl, g.Reason)
		}
	}
	sort.Strings(pl)
	fmt.Fprintf(&sb, " plotter=%v", pl)
	return sb.String()
}
