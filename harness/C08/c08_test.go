//go:build go1.21

package miner

// C08 — the miner submits only winning, correctly signed blocks at the earliest
// slot. The real PoCMiner (NewSyncMiner) runs on a virtual clock ("time" import
// rewritten to the vtime shim) against a fake chain, sync manager and space
// keeper; timer firings, tip arrivals and Stop are scheduled by the harness.

import (
	"context"
	"crypto/sha256"
	"encoding/binary"
	"errors"
	"fmt"
	"math/big"
	"os"
	"path/filepath"
	"sort"
	"strings"
	"sync"
	"testing"
	realtime "time"

	"github.com/massnetorg/mass-core/blockchain"
	"github.com/massnetorg/mass-core/logging"
	"github.com/massnetorg/mass-core/massutil"
	"github.com/massnetorg/mass-core/poc"
	"github.com/massnetorg/mass-core/poc/pocutil"
	"github.com/massnetorg/mass-core/pocec"
	"github.com/massnetorg/mass-core/wire"
	"massnet.org/mass/poc/engine"
	"massnet.org/mass/zz_verif/qsched"
	"massnet.org/mass/zz_verif/vk"
	"massnet.org/mass/zz_verif/vtime"
)

// ---------------------------------------------------------------- fixture: two keys with valid proofs for one challenge

type c8Space struct {
	sid  string
	priv *pocec.PrivateKey
	pub  *pocec.PublicKey
	x    []byte
	xp   []byte
}

type c8Fixture struct {
	spaces    [2]c8Space
	challenge pocutil.Hash
}

var c8Fix *c8Fixture
var c8FixOnce sync.Once

const c8BL = 24

func c8Key(i int) (*pocec.PrivateKey, *pocec.PublicKey) {
	h := sha256.Sum256([]byte(fmt.Sprintf("verif-miner-key-%d", i)))
	return pocec.PrivKeyFromBytes(pocec.S256(), h[:])
}

// c8Pairs enumerates x in [1,n] and returns z -> (x,x') for all pairs with P(x) = ~P(x').
func c8Pairs(pkh pocutil.Hash, n int) map[pocutil.PoCValue][2]pocutil.PoCValue {
	byY := map[pocutil.PoCValue]pocutil.PoCValue{}
	out := map[pocutil.PoCValue][2]pocutil.PoCValue{}
	for x := pocutil.PoCValue(1); x <= pocutil.PoCValue(n); x++ {
		y := pocutil.P(x, c8BL, pkh)
		if xo, ok := byY[pocutil.FlipValue(y, c8BL)]; ok {
			out[pocutil.F(x, xo, c8BL, pkh)] = [2]pocutil.PoCValue{x, xo}
			out[pocutil.F(xo, x, c8BL, pkh)] = [2]pocutil.PoCValue{xo, x}
		}
		byY[y] = x
	}
	return out
}

func c8Fixture_() *c8Fixture {
	c8FixOnce.Do(func() {
		f := &c8Fixture{}
		var maps [2]map[pocutil.PoCValue][2]pocutil.PoCValue
		for i := 0; i < 2; i++ {
			priv, pub := c8Key(i)
			f.spaces[i] = c8Space{sid: fmt.Sprintf("space-%d", i), priv: priv, pub: pub}
			maps[i] = c8Pairs(pocutil.PubKeyHash(pub), 1<<20)
		}
		var zs []int
		for z := range maps[0] {
			if _, ok := maps[1][z]; ok {
				zs = append(zs, int(z))
			}
		}
		if len(zs) == 0 {
			vk.Fatalf("C08 fixture: no common challenge prefix for the two keys")
		}
		sort.Ints(zs)
		z := pocutil.PoCValue(zs[0])
		for i := 0; i < 2; i++ {
			p := maps[i][z]
			f.spaces[i].x = pocutil.PoCValue2Bytes(p[0], c8BL)
			f.spaces[i].xp = pocutil.PoCValue2Bytes(p[1], c8BL)
		}
		ch := sha256.Sum256([]byte("verif-challenge"))
		binary.LittleEndian.PutUint64(ch[:8], uint64(z)|(binary.LittleEndian.Uint64(ch[:8])&^uint64(1<<c8BL-1)))
		f.challenge = ch
		for i := 0; i < 2; i++ {
			pr := &poc.DefaultProof{X: f.spaces[i].x, XPrime: f.spaces[i].xp, BL: c8BL}
			if err := pr.Verify(pocutil.PubKeyHash(f.spaces[i].pub), f.challenge, false); err != nil {
				vk.Fatalf("C08 fixture proof %d does not verify: %v", i, err)
			}
		}
		c8Fix = f
	})
	return c8Fix
}

// ---------------------------------------------------------------- scenario

// proof kinds: V valid+bound, U valid but not bound, E errored, I invalid (wrong challenge) but bound, J invalid and unbound
type c8Scenario struct {
	Proofs    string `json:"proofs"` // one letter per space (max 2)
	Target    string `json:"target"` // "const:<k>" index into thresholds, or "step:<j>"
	OffsetSec int    `json:"template_offset_sec"`
	Accept    string `json:"process_result"` // "accept" | "reject" | "orphan"
	// Heights, if set: the chain offers these heights in turn (it moves to the next one after
	// each accepted block): a reorg re-offers a height that was already mined
	Heights []uint64 `json:"heights,omitempty"`
	Horizon int      `json:"horizon,omitempty"`
}

const (
	c8Height  = 100
	c8NowUnix = 1700000001 // not slot-aligned on purpose
)

type c8Submit struct {
	block   *massutil.Block
	at      realtime.Time
	result  string
	ordinal int
}

type c8Sign struct {
	sid  string
	hash [32]byte
	at   realtime.Time
}

type c8World struct {
	sc         c8Scenario
	fix        *c8Fixture
	s          *qsched.Sched
	m          *PoCMiner
	tsBase     realtime.Time
	prev       wire.Hash
	best       *blockchain.BlockNode
	waiter     chan *blockchain.BlockNode
	mu         sync.Mutex
	submits    []c8Submit
	signs      []c8Sign
	getProof   []realtime.Time
	staleTip   bool // a better tip was delivered: the chain offers no template any more
	newBlock   chan *wire.Hash
	stopOp     *qsched.Op
	coinbase   *wire.MsgTx
	thresholds []*big.Int
	quals      [2][]*big.Int // reference qualities per space for slots s0..s0+7
	endTime    realtime.Time
	eventTime  map[int]realtime.Time
	signsAt    map[int]int
}

func (w *c8World) slot(t realtime.Time) uint64 { return uint64(t.Unix()) / pocSlot }

// height currently offered by the fake chain
func (w *c8World) height() uint64 {
	if len(w.sc.Heights) == 0 {
		return c8Height
	}
	n := 0
	for _, s := range w.submits {
		if s.result == "accept" {
			n++
		}
	}
	if n >= len(w.sc.Heights) {
		n = len(w.sc.Heights) - 1
	}
	return w.sc.Heights[n]
}

func (w *c8World) target(t realtime.Time) *big.Int {
	s0 := w.slot(w.tsBase)
	k := int(w.slot(t) - s0)
	parts := strings.SplitN(w.sc.Target, ":", 2)
	var n int
	fmt.Sscanf(parts[1], "%d", &n)
	if parts[0] == "const" {
		return new(big.Int).Set(w.thresholds[n])
	}
	// step: above everything before slot s0+n, below everything from then on
	if k < n {
		return new(big.Int).Set(w.thresholds[len(w.thresholds)-1])
	}
	return new(big.Int).Set(w.thresholds[0])
}

// --- fake chain

func (w *c8World) BestBlockNode() *blockchain.BlockNode { return w.best }
func (w *c8World) BestBlockHash() *wire.Hash            { return w.best.Hash }
func (w *c8World) BestBlockHeight() uint64              { return w.best.Height }
func (w *c8World) ChainID() *wire.Hash                  { return &wire.Hash{} }
func (w *c8World) BlockWaiter(height uint64) (<-chan *blockchain.BlockNode, error) {
	return w.waiter, nil
}
func (w *c8World) ProcessBlock(b *massutil.Block) (bool, error) {
	w.mu.Lock()
	defer w.mu.Unlock()
	w.submits = append(w.submits, c8Submit{block: b, at: vtime.Now(), result: w.sc.Accept})
	switch w.sc.Accept {
	case "reject":
		return false, errors.New("rejected by the fake chain")
	case "orphan":
		return true, nil
	}
	return false, nil
}
func (w *c8World) NewBlockTemplate(addrs []massutil.Address, ch chan interface{}) error {
	w.mu.Lock()
	stale := w.staleTip
	hgt := w.height()
	w.mu.Unlock()
	if stale {
		ch <- &blockchain.PoCTemplate{Err: errors.New("no template: chain moved on")}
		return nil
	}
	ch <- &blockchain.PoCTemplate{
		Height:    hgt,
		Timestamp: w.tsBase,
		Previous:  w.prev,
		Challenge: wire.Hash(w.fix.challenge),
		GetTarget: w.target,
		GetCoinbase: func(p blockchain.Proof, fee massutil.Amount) (*massutil.Tx, error) {
			return massutil.NewTx(w.coinbase), nil
		},
		PassBinding: func(p blockchain.Proof) bool {
			wp := p.(*engine.WorkSpaceProof)
			for i, c := range w.sc.Proofs {
				if w.fix.spaces[i].sid == wp.SpaceID {
					return c == 'V' || c == 'I'
				}
			}
			return false
		},
	}
	h := w.coinbase.TxHash()
	blk := &wire.MsgBlock{Header: wire.BlockHeader{Version: 1, Height: hgt, Previous: w.prev}, Transactions: []*wire.MsgTx{w.coinbase}}
	ch <- &blockchain.BlockTemplate{Block: blk, Height: hgt, MerkleCache: []*wire.Hash{&h}, WitnessMerkleCache: []*wire.Hash{&h}, TotalFee: massutil.ZeroAmount()}
	return nil
}

// --- fake sync manager
func (w *c8World) IsCaughtUp() bool { return true }
func (w *c8World) PeerCount() int   { return 1 }

// --- fake space keeper
type c8Keeper struct{ w *c8World }

func (k c8Keeper) Start() error                                              { return nil }
func (k c8Keeper) Stop() error                                               { return nil }
func (k c8Keeper) Started() bool                                             { return true }
func (k c8Keeper) Type() string                                              { return "fake" }
func (k c8Keeper) WorkSpaceIDs(engine.WorkSpaceStateFlags) ([]string, error) { return nil, nil }
func (k c8Keeper) WorkSpaceInfos(engine.WorkSpaceStateFlags) ([]engine.WorkSpaceInfo, error) {
	return nil, nil
}
func (k c8Keeper) GetProof(context.Context, string, pocutil.Hash, bool) (*engine.WorkSpaceProof, error) {
	return nil, errors.New("unused")
}
func (k c8Keeper) GetProofReader(context.Context, string, pocutil.Hash, bool) (engine.ProofReader, error) {
	return nil, errors.New("unused")
}
func (k c8Keeper) GetProofsReader(context.Context, engine.WorkSpaceStateFlags, pocutil.Hash, bool) (engine.ProofReader, error) {
	return nil, errors.New("unused")
}
func (k c8Keeper) ActOnWorkSpace(string, engine.ActionType) error { return nil }
func (k c8Keeper) ActOnWorkSpaces(engine.WorkSpaceStateFlags, engine.ActionType) (map[string]error, error) {
	return nil, nil
}
func (k c8Keeper) GetProofs(ctx context.Context, flags engine.WorkSpaceStateFlags, challenge pocutil.Hash, filter bool) ([]*engine.WorkSpaceProof, error) {
	w := k.w
	w.mu.Lock()
	w.getProof = append(w.getProof, vtime.Now())
	w.mu.Unlock()
	var out []*engine.WorkSpaceProof
	for i, c := range w.sc.Proofs {
		sp := w.fix.spaces[i]
		p := &engine.WorkSpaceProof{SpaceID: sp.sid, PublicKey: sp.pub, Ordinal: int64(i)}
		switch c {
		case 'V', 'U':
			p.Proof = &poc.DefaultProof{X: sp.x, XPrime: sp.xp, BL: c8BL}
		case 'E':
			p.Error = errors.New("space failed")
		case 'I', 'J':
			p.Proof = &poc.DefaultProof{X: sp.xp, XPrime: sp.x, BL: c8BL} // valid shape, wrong order for this challenge
			if p.Proof.Verify(pocutil.PubKeyHash(sp.pub), challenge, false) == nil {
				p.Proof = &poc.DefaultProof{X: sp.x, XPrime: sp.x, BL: c8BL}
			}
		}
		out = append(out, p)
	}
	return out, nil
}
func (k c8Keeper) SignHash(sid string, hash [32]byte) (*pocec.Signature, error) {
	w := k.w
	w.mu.Lock()
	w.signs = append(w.signs, c8Sign{sid, hash, vtime.Now()})
	w.mu.Unlock()
	for _, sp := range w.fix.spaces {
		if sp.sid == sid {
			return sp.priv.Sign(hash[:])
		}
	}
	return nil, errors.New("unknown space")
}

// ---------------------------------------------------------------- world

var c8LogOnce sync.Once

func c8New(sc c8Scenario) *c8World {
	c8LogOnce.Do(func() {
		logging.Init(filepath.Join(os.Getenv("VERIF_SCRATCH"), "c08logs"), "c08", "fatal", 1, true)
	})
	fix := c8Fixture_()
	vtime.Reset(realtime.Unix(c8NowUnix, 0))
	w := &c8World{sc: sc, fix: fix, s: qsched.New(), waiter: make(chan *blockchain.BlockNode, 4), newBlock: make(chan *wire.Hash, 16)}
	w.tsBase = realtime.Unix(c8NowUnix+int64(sc.OffsetSec), 0)
	w.prev = wire.Hash(sha256.Sum256([]byte("prev")))
	w.best = &blockchain.BlockNode{Hash: &w.prev, Height: c8Height - 1, CapSum: big.NewInt(1000), Timestamp: realtime.Unix(c8NowUnix-30, 0), Quality: big.NewInt(5)}
	w.coinbase = wire.NewMsgTx()
	w.coinbase.AddTxOut(wire.NewTxOut(100, []byte{0x51}))
	// reference qualities and thresholds
	s0 := w.slot(w.tsBase)
	var all []*big.Int
	for i := 0; i < 2; i++ {
		pr := &poc.DefaultProof{X: fix.spaces[i].x, XPrime: fix.spaces[i].xp, BL: c8BL}
		for k := uint64(0); k < 8; k++ {
			q := pr.Quality(s0+k, c8Height)
			w.quals[i] = append(w.quals[i], q)
			if k < 6 {
				all = append(all, q)
			}
		}
	}
	sort.Slice(all, func(i, j int) bool { return all[i].Cmp(all[j]) < 0 })
	w.thresholds = []*big.Int{big.NewInt(0)}
	for i := 0; i+1 < len(all); i++ {
		mid := new(big.Int).Add(all[i], all[i+1])
		mid.Rsh(mid, 1)
		if mid.Cmp(w.thresholds[len(w.thresholds)-1]) > 0 {
			w.thresholds = append(w.thresholds, mid)
		}
	}
	w.thresholds = append(w.thresholds, new(big.Int).Add(all[len(all)-1], big.NewInt(1)))
	pm, err := NewSyncMiner(true, Chain(w), SyncManager(w), c8Keeper{w}, w.newBlock, []massutil.Address{nil})
	if err != nil {
		vk.Fatalf("NewSyncMiner: %v", err)
	}
	w.m = pm.(*PoCMiner)
	if err := w.m.Start(); err != nil {
		vk.Fatalf("miner start: %v", err)
	}
	w.quiesce()
	return w
}

func (w *c8World) quiesce() {
	if _, ok := w.s.Quiesce(20 * realtime.Second); !ok {
		vk.Fatalf("C08: no quiescence; goroutines:\n%s", w.s.LastDump)
	}
}

func (w *c8World) close() {
	if w.stopOp == nil {
		w.stopOp = w.s.Start("Stop", func() (interface{}, error) { return nil, w.m.Stop() })
	}
	for i := 0; i < 400 && !w.stopOp.Done(); i++ {
		w.quiesce()
		if !vtime.FireNext() {
			realtime.Sleep(realtime.Millisecond)
		}
	}
}

func (w *c8World) do(a string) {
	switch a {
	case "tick":
		if !vtime.FireNext() {
			vk.Fatalf("C08: no timer pending")
		}
	case "better":
		w.mu.Lock()
		w.staleTip = true
		w.mu.Unlock()
		h := wire.Hash(sha256.Sum256([]byte("better")))
		w.waiter <- &blockchain.BlockNode{Hash: &h, Height: c8Height - 1, CapSum: big.NewInt(2000), Timestamp: w.best.Timestamp, Quality: big.NewInt(5)}
	case "worse":
		h := wire.Hash(sha256.Sum256([]byte("worse")))
		w.waiter <- &blockchain.BlockNode{Hash: &h, Height: c8Height - 1, CapSum: big.NewInt(10), Timestamp: w.best.Timestamp, Quality: big.NewInt(5)}
	case "stop":
		w.stopOp = w.s.Start("Stop", func() (interface{}, error) { return nil, w.m.Stop() })
	}
	w.quiesce()
}

// ---------------------------------------------------------------- reference and oracle

type c8Expect struct {
	none    bool // no block may be submitted in the first round
	slotOff int  // winning slot offset from s0
	space   int
}

func (w *c8World) reference() c8Expect {
	var elig []int
	for i, c := range w.sc.Proofs {
		switch c {
		case 'V':
			elig = append(elig, i)
		case 'I':
			return c8Expect{none: true} // a bound proof that does not verify poisons the round (safety only)
		}
	}
	if len(elig) == 0 {
		return c8Expect{none: true}
	}
	for k := 0; k < 8; k++ {
		best, bi := big.NewInt(0), -1
		for _, i := range elig {
			if w.quals[i][k].Cmp(best) > 0 {
				best, bi = w.quals[i][k], i
			}
		}
		ts := w.tsBase.Add(realtime.Duration(k*pocSlot) * realtime.Second)
		if bi >= 0 && best.Cmp(w.target(ts)) > 0 {
			return c8Expect{slotOff: k, space: bi}
		}
	}
	return c8Expect{none: true}
}

type c8Replay struct {
	Scenario c8Scenario `json:"scenario"`
	Schedule []string   `json:"schedule"`
}

type c8Stats struct {
	execs, submitted, noBlock, abandoned, actions int64
	outcomes                                      map[string]bool
}

func c8Check(r *vk.Run, w *c8World, sched []string, st *c8Stats) {
	rp := c8Replay{w.sc, sched}
	exp := w.reference()
	// event positions
	firstEvent := map[string]int{}
	for i, a := range sched {
		if _, ok := firstEvent[a]; !ok && a != "tick" {
			firstEvent[a] = i
		}
	}
	site := func(s string) string { return s + "/proofs=" + w.sc.Proofs }
	viol := func(clause, msg string) {
		r.Violation("C08/"+site(clause), fmt.Sprintf("%s [scenario %+v, schedule %v]", msg, w.sc, sched), rp)
	}
	if w.stopOp != nil && !w.stopOp.Done() {
		viol("stop-does-not-return", "Stop() has not returned after all timers were drained")
		return
	}
	if w.stopOp != nil && w.stopOp.Pan != "" {
		viol("panic", w.stopOp.Pan[:min(300, len(w.stopOp.Pan))])
		return
	}
	accepted := map[uint64]int{}
	s0 := w.slot(w.tsBase)
	for n, sub := range w.submits {
		hdr := sub.block.MsgBlock().Header
		ts := hdr.Timestamp
		// which space
		sp := -1
		for i := range w.fix.spaces {
			if pk, ok := hdr.PubKey.(*pocec.PublicKey); ok && pk.IsEqual(w.fix.spaces[i].pub) {
				sp = i
			}
		}
		if sp < 0 || sp >= len(w.sc.Proofs) {
			viol("foreign-key-in-header", "the submitted header carries a key of no offered space")
			return
		}
		kind := w.sc.Proofs[sp]
		if kind != 'V' {
			viol("ineligible-proof-submitted", fmt.Sprintf("block %d uses the proof of space %d of kind %c (not valid+bound)", n, sp, kind))
			return
		}
		dp, ok := hdr.Proof.(*poc.DefaultProof)
		if !ok || dp.Verify(pocutil.PubKeyHash(w.fix.spaces[sp].pub), w.fix.challenge, false) != nil {
			viol("proof-does-not-verify", "the submitted proof does not verify for the template challenge")
			return
		}
		if hdr.Challenge != wire.Hash(w.fix.challenge) {
			viol("wrong-challenge", "header challenge differs from the template's")
			return
		}
		if (ts.Unix()-w.tsBase.Unix())%pocSlot != 0 || ts.Before(w.tsBase) {
			viol("timestamp-off-grid", fmt.Sprintf("block timestamp %d is not template time + k slots", ts.Unix()))
			return
		}
		k := int((ts.Unix() - w.tsBase.Unix()) / pocSlot)
		q := dp.Quality(w.slot(ts), hdr.Height)
		if q.Cmp(w.target(ts)) <= 0 {
			viol("quality-not-above-target", fmt.Sprintf("block %d: quality at its slot does not exceed the target at its timestamp", n))
			return
		}
		if hdr.Target == nil || hdr.Target.Cmp(w.target(ts)) != 0 {
			viol("header-target", "header target is not the template's target at the block timestamp")
			return
		}
		if len(w.sc.Heights) == 0 && !exp.none && (k != exp.slotOff || sp != exp.space) {
			viol("not-earliest-best", fmt.Sprintf("block %d uses space %d at slot offset %d; reference: space %d at the earliest winning slot offset %d", n, sp, k, exp.space, exp.slotOff))
			return
		}
		if exp.none && len(w.sc.Heights) == 0 {
			viol("no-winner-but-submitted", fmt.Sprintf("block %d submitted although no eligible proof exceeds the target within the explored slots", n))
			return
		}
		// signature
		ph, err := hdr.PoCHash()
		sig, sok := hdr.Signature.(*pocec.Signature)
		if err != nil || !sok || !sig.Verify(ph[:], w.fix.spaces[sp].pub) {
			viol("bad-header-signature", "header signature does not verify under the winning space's key for this block's PoC hash")
			return
		}
		// not before its timestamp
		if !sub.at.After(ts) {
			viol("submitted-before-timestamp", fmt.Sprintf("ProcessBlock at virtual %d for a block stamped %d", sub.at.Unix(), ts.Unix()))
			return
		}
		// look-ahead at decision time (SignHash)
		for _, sg := range w.signs {
			if sg.hash == [32]byte(ph) {
				if w.slot(ts) > w.slot(sg.at)+allowAhead {
					viol("beyond-look-ahead", fmt.Sprintf("decided at virtual slot %d for block slot %d", w.slot(sg.at), w.slot(ts)))
					return
				}
			}
		}
		if sub.result == "accept" {
			accepted[hdr.Height]++
			if accepted[hdr.Height] > 1 {
				viol("height-mined-twice", "a second block for an already accepted height was submitted")
				return
			}
		}
		_ = s0
	}
	// abandonment: a better tip or Stop delivered before the decision => no block of that round
	decided := len(sched) + 1
	if len(w.signs) > 0 {
		decided = -1
	}
	_ = decided
	for _, ev := range []string{"better", "stop"} {
		if pos, ok := firstEvent[ev]; ok {
			// the decision (SignHash) happened before the event iff a sign exists with at <= virtual time of the event;
			// we recorded only positions, so use the conservative rule: no SignHash at all before => no submission at all
			signsBefore := 0
			for _, sg := range w.signs {
				if sg.at.Before(w.eventTime[pos]) || sg.at.Equal(w.eventTime[pos]) && w.signBeforeEvent(sg, pos) {
					signsBefore++
				}
			}
			if signsBefore == 0 && len(w.submits) > 0 {
				viol("round-not-abandoned/"+ev, fmt.Sprintf("%s was delivered before the miner decided, yet a block was submitted", ev))
				return
			}
			st.abandoned++
		}
	}
	if len(w.submits) > 0 {
		st.submitted++
	} else {
		st.noBlock++
	}
	// completeness on the undisturbed schedule: the reference winner must be submitted
	winTs := w.tsBase.Add(realtime.Duration(exp.slotOff*pocSlot) * realtime.Second)
	distinctHeights := map[uint64]bool{}
	for _, h := range w.sc.Heights {
		distinctHeights[h] = true
	}
	if len(distinctHeights) >= 2 && len(firstEvent) == 0 && len(accepted) < 2 {
		viol("reorg-scenario-vacuous", "the reorg scenario did not get to a second accepted block within its horizon (harness horizon too short)")
	}
	if len(w.sc.Heights) == 0 && len(firstEvent) == 0 && !exp.none && len(w.submits) == 0 && w.endTime.After(winTs.Add(2*realtime.Second)) {
		viol("winner-not-submitted", fmt.Sprintf("reference: space %d wins at slot offset %d, but nothing was submitted within the horizon", exp.space, exp.slotOff))
	}
	st.outcomes[fmt.Sprintf("%s/%s/%d: submits=%d events=%v", w.sc.Proofs, w.sc.Target, w.sc.OffsetSec, len(w.submits), firstEvent)] = true
}

const c8Horizon = 28

// run executes one schedule to the horizon (remaining steps are ticks), records event times.
func (w *c8World) run(sched []string) []string {
	w.eventTime = map[int]realtime.Time{}
	w.signsAt = map[int]int{}
	full := append([]string{}, sched...)
	hz := c8Horizon
	if w.sc.Horizon > 0 {
		hz = w.sc.Horizon
	}
	for len(full) < hz {
		full = append(full, "tick")
	}
	var done []string
	for i, a := range full {
		if a == "tick" && len(vtime.Pending()) == 0 {
			break
		}
		if (a == "better" || a == "worse") && w.stopOp != nil {
			continue
		}
		w.eventTime[i] = vtime.Now()
		w.mu.Lock()
		w.signsAt[i] = len(w.signs)
		w.mu.Unlock()
		w.do(a)
		done = append(done, a)
	}
	w.endTime = vtime.Now()
	return done
}

func (w *c8World) signBeforeEvent(sg c8Sign, pos int) bool {
	// index of sg among signs vs number of signs recorded when the event was delivered
	for i, s := range w.signs {
		if s == sg {
			return i < w.signsAt[pos]
		}
	}
	return false
}

func c8Scenarios(r *vk.Run) []c8Scenario {
	var out []c8Scenario
	proofSets := []string{"V", "VV", "VU", "UV", "VE", "EV", "U", "E", "I", "VI", "VJ", "UU"}
	offsets := []int{-9, -3, 0, 3, 6, 12}
	if r.Quick() {
		offsets = []int{-9, -3, 0, 3, 12}
	}
	// thresholds: 0 .. up to 13 constants; the world computes them, the count is bounded by 2*6+1
	for _, ps := range proofSets {
		for _, off := range offsets {
			w := c8New(c8Scenario{Proofs: ps, Target: "const:0", OffsetSec: off, Accept: "accept"})
			nth := len(w.thresholds)
			w.close()
			for k := 0; k < nth; k++ {
				if r.Quick() && k%2 == 1 && k != nth-1 {
					continue
				}
				out = append(out, c8Scenario{Proofs: ps, Target: fmt.Sprintf("const:%d", k), OffsetSec: off, Accept: "accept"})
			}
			for j := 1; j <= 4; j++ {
				out = append(out, c8Scenario{Proofs: ps, Target: fmt.Sprintf("step:%d", j), OffsetSec: off, Accept: "accept"})
			}
		}
	}
	// reorgs: the chain re-offers an already mined height after a higher one was mined
	for _, hs := range [][]uint64{{100, 101, 100, 100}, {100, 100, 100}, {100, 101, 102, 100, 101}} {
		out = append(out, c8Scenario{Proofs: "V", Target: "const:0", OffsetSec: 0, Accept: "accept", Heights: hs, Horizon: 90})
	}
	// rejected / orphaned submissions (the height may then be mined again, but never twice successfully)
	for _, acc := range []string{"reject", "orphan"} {
		out = append(out, c8Scenario{Proofs: "VV", Target: "const:0", OffsetSec: 0, Accept: acc}, c8Scenario{Proofs: "V", Target: "step:2", OffsetSec: 3, Accept: acc})
	}
	return out
}

// c8Schedules: deviation-bounded - the default action is "tick"; a deviation inserts one
// of {better, worse, stop} before step k.
func c8Schedules(bound int) [][]string {
	out := [][]string{{}}
	events := []string{"better", "worse", "stop"}
	pos := []int{0, 1, 2, 3, 4, 5, 6, 8, 10, 12, 16, 20}
	mk := func(at []int, ev []string) []string {
		var s []string
		for i := 0; i < c8Horizon; i++ {
			for j, a := range at {
				if a == i {
					s = append(s, ev[j])
				}
			}
			s = append(s, "tick")
		}
		return s
	}
	for _, p := range pos {
		for _, e := range events {
			out = append(out, mk([]int{p}, []string{e}))
		}
	}
	if bound >= 2 {
		for i, p1 := range pos {
			for _, p2 := range pos[i:] {
				for _, e1 := range events {
					for _, e2 := range events {
						if e1 == "stop" {
							continue
						}
						out = append(out, mk([]int{p1, p2}, []string{e1, e2}))
					}
				}
			}
		}
	}
	return out
}

func TestVerifC08(t *testing.T) {
	r := vk.Start("C08", "model_checking")
	c8Fixture_()
	st := &c8Stats{outcomes: map[string]bool{}}
	runOne := func(sc c8Scenario, sched []string) {
		w := c8New(sc)
		done := w.run(sched)
		st.actions += int64(len(done))
		w.close()
		c8Check(r, w, done, st)
		st.execs++
		r.Eval(1)
	}
	if p := r.ReplayPath(); p != "" {
		var rp c8Replay
		vk.LoadReplay(p, &rp)
		runOne(rp.Scenario, rp.Schedule)
		r.Finish("replay")
	}
	r.Assume("virtual time: the miner's package-level \"time\" import is rewritten to the vtime shim, every timer fires only when the harness says so; no real-time oracle",
		"valid proofs are real DefaultProofs at bit length 24 for two keys sharing one challenge prefix (found by enumeration at start-up and re-verified); heights below the MASSIP0002 plot filter",
		"deviation bound: at most 1 (quick) / 2 (thorough, on a subset) injected events (better tip, worse tip, Stop) at 12 positions of a 28-action horizon; the chain offers no further template after a better tip")
	idx, n, child := r.Shard()
	if !child {
		r.RunShards(vk.Workers(), 1)
		r.Finish("the real PoCMiner on a virtual clock against a fake chain/keeper: for every input scenario (proof sets of 1-2 spaces with valid, unbound, errored and invalid proofs; constant targets at every threshold between the reference qualities of the first 6 slots and step targets; 4-6 template times relative to now; accepted/rejected/orphaned submissions) and every schedule of timer firings with up to 1-2 injected events, every block handed to ProcessBlock is checked against a reference computed from the inputs: eligible verified proof, quality above target at its timestamp, earliest winning slot and best quality there, header key and signature of the winning space, not before its timestamp, within the look-ahead at decision time, no height accepted twice, no block when a better tip or Stop preceded the decision, Stop returns")
	}
	scs := c8Scenarios(r)
	s1 := c8Schedules(1)
	s2 := c8Schedules(2)
	unit := 0
	for si, sc := range scs {
		scheds := s1
		if r.Thorough() && si%3 == 0 {
			scheds = s2
		}
		for _, sched := range scheds {
			unit++
			if unit%n != idx {
				continue
			}
			if r.Expired() {
				r.Cap("deadline before all scenarios x schedules were run")
				break
			}
			runOne(sc, sched)
		}
	}
	r.Sample(map[string]interface{}{"scenario": scs[len(scs)/3], "schedule": []string{"tick", "tick", "worse", "tick", "tick", "tick", "..."}})
	r.Set("states", st.execs)
	r.Set("transitions", st.actions)
	r.Set("traces_validated_against_impl", st.execs)
	r.Set("executions_with_submission", st.submitted)
	r.Set("executions_without_submission", st.noBlock)
	r.Set("executions_with_abandonment_clause", st.abandoned)
	r.Set("scenarios", len(scs))
	r.DistinctN(len(st.outcomes))
	r.Finish("child")
}
