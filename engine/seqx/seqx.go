//go:build go1.21

// Package seqx is the bounded-exhaustive sequence explorer: explicit-state
// breadth-first search where a state is represented by the shortest (and, on
// ties, lexicographically least) operation history reaching it. Live objects
// are never cloned: a successor is computed by the harness by replaying the
// history on a fresh real instance and applying one more operation.
package seqx

import (
	"crypto/sha256"
	"sort"
	"sync"
	"sync/atomic"

	"massnet.org/mass/zz_verif/vk"
)

// Spec describes one exploration.
type Spec struct {
	// Depth is the maximum history length whose successors are still expanded;
	// histories of length Depth+1 are executed (and checked) but not expanded.
	Depth int
	// Try must: build a fresh instance, replay hist (all ops are op ids of
	// the harness), apply op, evaluate every oracle on the way, and return
	// the canonical key of the state reached. ops lists the operations
	// enabled in the reached state (the harness usually derives it from its
	// reference model). expand=false stops exploration below this state
	// (e.g. after a reported violation).
	Try func(hist []int, op int) (key string, ops []int, expand bool)
	// InitOps are the operations enabled in the initial state.
	InitOps []int
	// InitKey is the canonical key of the initial state.
	InitKey string
	// Stop, if non-nil, is polled; when it returns true the search ends early
	// and Result.Complete is false.
	Stop func() bool
}

type Result struct {
	States      int   // distinct canonical states (including the initial one)
	Transitions int64 // executions of Try
	MaxDepth    int   // longest history executed
	Complete    bool  // every state up to Depth was expanded
	PerLevel    []int // new states per level
}

type node struct {
	hist []int
	ops  []int
}

func less(a, b []int) bool {
	for i := 0; i < len(a) && i < len(b); i++ {
		if a[i] != b[i] {
			return a[i] < b[i]
		}
	}
	return len(a) < len(b)
}

// hkey: the visited set keeps a 128-bit digest of each canonical key, not the key (keys are long strings and
// thorough searches reach tens of millions of states). Two different states are merged only on a collision of
// truncated SHA-256 (probability about n^2/2^129).
type hkey [16]byte

func digest(k string) (h hkey) {
	d := sha256.Sum256([]byte(k))
	copy(h[:], d[:16])
	return
}

// Explore runs the search on vk.Workers() goroutines. The set of states and
// the representative history of each state are independent of scheduling.
func Explore(s Spec) Result {
	seen := map[hkey]struct{}{digest(s.InitKey): {}}
	frontier := []node{{nil, s.InitOps}}
	res := Result{States: 1, Complete: true}
	for level := 0; level <= s.Depth && len(frontier) > 0; level++ {
		type job struct {
			n  int
			op int
		}
		var jobs []job
		for i, n := range frontier {
			for _, op := range n.ops {
				jobs = append(jobs, job{i, op})
			}
		}
		var mu sync.Mutex
		next := map[hkey]node{}
		var stopped int32
		vk.ParallelFor(len(jobs), func(j int) {
			if atomic.LoadInt32(&stopped) != 0 {
				return
			}
			if s.Stop != nil && s.Stop() {
				atomic.StoreInt32(&stopped, 1)
				return
			}
			n := frontier[jobs[j].n]
			key, ops, expand := s.Try(n.hist, jobs[j].op)
			atomic.AddInt64(&res.Transitions, 1)
			if !expand || key == "" {
				return
			}
			h := append(append(make([]int, 0, len(n.hist)+1), n.hist...), jobs[j].op)
			dk := digest(key)
			mu.Lock()
			if _, ok := seen[dk]; !ok {
				if old, ok := next[dk]; !ok || less(h, old.hist) {
					next[dk] = node{h, ops}
				}
			}
			mu.Unlock()
		})
		if len(jobs) > 0 && level+1 > res.MaxDepth {
			res.MaxDepth = level + 1
		}
		if atomic.LoadInt32(&stopped) != 0 {
			res.Complete = false
		}
		frontier = make([]node, 0, len(next))
		for k, n := range next {
			seen[k] = struct{}{}
			frontier = append(frontier, n)
		}
		sort.Slice(frontier, func(i, j int) bool { return less(frontier[i].hist, frontier[j].hist) })
		res.States += len(next)
		res.PerLevel = append(res.PerLevel, len(next))
		if !res.Complete {
			break
		}
	}
	return res
}
