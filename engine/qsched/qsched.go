//go:build go1.21

// Package qsched is the quiescence-based controlled scheduler: the harness
// decides when operations start and when goroutines parked at gates continue;
// after every such action the scheduler waits until the whole process is
// quiescent - every goroutine (outside an ignore list) has finished, is parked
// at a gate, or is blocked on a channel / lock / wait group - decided from one
// runtime.Stack(all) snapshot by the wait reason of each goroutine. It never
// infers anything from elapsed time.
package qsched

import (
	"bytes"
	"fmt"
	"regexp"
	"runtime"
	"sort"
	"strings"
	"sync"
	"time"
)

// Op is a harness-issued call running in its own goroutine.
type Op struct {
	Name string
	done chan struct{}
	Err  error
	Val  interface{}
	Pan  string
}

func (o *Op) Done() bool {
	select {
	case <-o.done:
		return true
	default:
		return false
	}
}

type gate struct {
	name    string
	release chan struct{}
}

type Sched struct {
	mu     sync.Mutex
	parked []*gate
	// Ignore: goroutines whose ROOT (the outermost function frame and the
	// "created by" line - never the frames above, which may be a logging call made
	// by an explored goroutine) contains one of these substrings are not required to
	// be quiescent (each entry needs an argument why it cannot touch explored state).
	Ignore []string
	// Snapshots counts runtime.Stack snapshots taken (evidence).
	Snapshots int64
	active    bool
	open      func(name string) bool
	// LastDump is the last goroutine dump seen by Quiesce (for diagnostics).
	LastDump string
	// LastBusy describes the goroutine that most recently kept Quiesce waiting.
	LastBusy string
	// SlowWaits counts Quiesce calls that took longer than 20ms (diagnostic only).
	SlowWaits int64
}

func New() *Sched {
	return &Sched{active: true, Ignore: []string{
		"testing.tRunner", "testing.(*M).", "testing.runTests", "main.main", "os/signal.", "signal.signal_recv",
		"ants/v2.(*Pool).purgePeriodically", // periodic pool housekeeping on a real ticker: touches only the pool's idle-worker list
		"ants/v2.(*goWorker).run",           // idle pool workers wait for tasks (busy ones are waited for by their submitter)
		"rotatelogs", "lfshook",             // log rotation
	}}
}

// Deactivate makes all gates pass through (used when an execution is torn down).
func (s *Sched) Deactivate() {
	s.mu.Lock()
	s.active = false
	p := s.parked
	s.parked = nil
	s.mu.Unlock()
	for _, g := range p {
		close(g.release)
	}
}

// Open makes every gate whose name satisfies pred pass through from now on and releases the goroutines
// parked at such gates (staged teardown: e.g. let the plotter run out while calls stay parked).
func (s *Sched) Open(pred func(name string) bool) {
	s.mu.Lock()
	s.open = pred
	var keep, rel []*gate
	for _, g := range s.parked {
		if pred(g.name) {
			rel = append(rel, g)
		} else {
			keep = append(keep, g)
		}
	}
	s.parked = keep
	s.mu.Unlock()
	for _, g := range rel {
		close(g.release)
	}
}

// Gate parks the calling goroutine until Release(name) (no-op when inactive).
func (s *Sched) Gate(name string) {
	s.mu.Lock()
	if !s.active || (s.open != nil && s.open(name)) {
		s.mu.Unlock()
		return
	}
	g := &gate{name: name, release: make(chan struct{})}
	s.parked = append(s.parked, g)
	s.mu.Unlock()
	<-g.release
}

// Parked lists the gate names with a parked goroutine (sorted, with duplicates).
func (s *Sched) Parked() []string {
	s.mu.Lock()
	defer s.mu.Unlock()
	var out []string
	for _, g := range s.parked {
		out = append(out, g.name)
	}
	sort.Strings(out)
	return out
}

// Release lets the (first) goroutine parked at the gate continue.
func (s *Sched) Release(name string) bool {
	s.mu.Lock()
	for i, g := range s.parked {
		if g.name == name {
			s.parked = append(s.parked[:i], s.parked[i+1:]...)
			s.mu.Unlock()
			close(g.release)
			return true
		}
	}
	s.mu.Unlock()
	return false
}

// Start runs fn in a new goroutine as operation name.
func (s *Sched) Start(name string, fn func() (interface{}, error)) *Op {
	op := &Op{Name: name, done: make(chan struct{})}
	go func() {
		defer func() {
			if e := recover(); e != nil {
				buf := make([]byte, 8192)
				buf = buf[:runtime.Stack(buf, false)]
				op.Pan = fmt.Sprintf("%v\n%s", e, buf)
			}
			close(op.done)
		}()
		op.Val, op.Err = fn()
	}()
	return op
}

var hdrRe = regexp.MustCompile(`^goroutine (\d+) \[([^\],]+)(?:, [^\]]*)?\]:$`)

// blocked wait reasons (durably blocked as long as no real timer is involved)
var blockedReasons = map[string]bool{
	"chan receive": true, "chan send": true, "select": true, "select (no cases)": true,
	"sync.Mutex.Lock": true, "sync.RWMutex.Lock": true, "sync.RWMutex.RLock": true,
	"sync.WaitGroup.Wait": true, "sync.Cond.Wait": true, "semacquire": true,
	"chan receive (nil chan)": true, "chan send (nil chan)": true,
}

// GoroutineInfo is one parsed goroutine of a dump.
type GoroutineInfo struct {
	ID     string
	Reason string
	Stack  string
}

func parseDump(dump []byte) []GoroutineInfo {
	var out []GoroutineInfo
	for _, blk := range bytes.Split(dump, []byte("\n\n")) {
		lines := strings.SplitN(string(blk), "\n", 2)
		m := hdrRe.FindStringSubmatch(strings.TrimSpace(lines[0]))
		if m == nil {
			continue
		}
		st := ""
		if len(lines) > 1 {
			st = lines[1]
		}
		out = append(out, GoroutineInfo{ID: m[1], Reason: m[2], Stack: st})
	}
	return out
}

// Quiesce waits until the process is quiescent and returns the parsed
// goroutines that are blocked (for pending-call / deadlock diagnosis).
// maxWait bounds the wait as a harness-error guard only (a goroutine that
// keeps running for that long is a livelock in the code or a harness bug);
// ok=false reports it, the caller treats it as "no verdict".
func (s *Sched) Quiesce(maxWait time.Duration) (blocked []GoroutineInfo, ok bool) {
	buf := make([]byte, 1<<20)
	start := time.Now()
	spins := 0
	for {
		runtime.Gosched()
		n := runtime.Stack(buf, true)
		for n == len(buf) {
			buf = make([]byte, 2*len(buf))
			n = runtime.Stack(buf, true)
		}
		s.Snapshots++
		gs := parseDump(buf[:n])
		quiet := true
		blocked = blocked[:0]
		for _, g := range gs {
			if strings.Contains(g.Stack, "qsched.(*Sched).Quiesce") {
				continue // the scheduler's own goroutine
			}
			ign := false
			root := rootOf(g.Stack)
			for _, ig := range s.Ignore {
				if strings.Contains(ig, "goWorker") && strings.Contains(g.Stack, "massnet.org/mass/") {
					continue // a pool worker that is running (or blocked inside) repository code is NOT idle
				}
				// housekeeping goroutines are ignored only while they are blocked: a pool worker that
				// is runnable has been handed a task and is about to run repository code
				if (strings.Contains(ig, "ants/") || strings.Contains(ig, "rotatelogs") || strings.Contains(ig, "lfshook")) && !blockedReasons[g.Reason] {
					continue
				}
				if strings.Contains(root, ig) {
					ign = true
					break
				}
			}
			if ign {
				continue
			}
			if blockedReasons[g.Reason] && !runtimeInternalWait(g) {
				blocked = append(blocked, g)
				continue
			}
			quiet = false
			s.LastBusy = g.Reason + " | " + firstLines(g.Stack, 4)
			break
		}
		if quiet {
			if time.Since(start) > 20*time.Millisecond {
				s.SlowWaits++
				if s.SlowWaits <= 3 {
					fmt.Printf("QSCHED slow quiescence %v, last busy: %s\n", time.Since(start), s.LastBusy)
				}
			}
			// confirm with a second snapshot that nothing moved (a goroutine made
			// runnable by the first snapshot's observation window would show up)
			s.LastDump = string(buf[:n])
			return blocked, true
		}
		spins++
		if spins > 50 {
			time.Sleep(50 * time.Microsecond)
		}
		if time.Since(start) > maxWait {
			s.LastDump = string(buf[:n])
			return blocked, false
		}
	}
}

func firstLines(st string, n int) string {
	l := strings.SplitN(st, "\n", n+1)
	if len(l) > n {
		l = l[:n]
	}
	return strings.Join(l, " / ")
}

// rootOf returns the outermost frame (function line) and the "created by" line of a stack.
func rootOf(st string) string {
	lines := strings.Split(strings.TrimRight(st, "\n"), "\n")
	var fn []string
	for _, l := range lines {
		if !strings.HasPrefix(l, "\t") {
			fn = append(fn, l)
		}
	}
	if len(fn) == 0 {
		return ""
	}
	if len(fn) >= 2 && strings.HasPrefix(fn[len(fn)-1], "created by") {
		return fn[len(fn)-2] + "\n" + fn[len(fn)-1]
	}
	return fn[len(fn)-1]
}

// runtimeInternalWait: a [semacquire] wait is a durable block only when it is a
// sync.WaitGroup wait; the same reason is shown while a goroutine waits inside
// runtime.GC()/debug.FreeOSMemory() (e.g. called by scrypt key derivation), which
// ends by itself.
func runtimeInternalWait(g GoroutineInfo) bool {
	if g.Reason != "semacquire" {
		return false
	}
	if strings.Contains(g.Stack, "sync.(*WaitGroup).Wait") {
		return false
	}
	return true
}
