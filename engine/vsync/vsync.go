//go:build go1.21

// Package vsync is a drop-in for the parts of package "sync" used by the space keepers (import rewritten
// by the /verif driver for the files listed under "sync_rewrite"). Everything is the real thing, except
// that acquiring a Mutex or an RWMutex first calls a harness hook: the harness turns each acquisition by one of its
// operation goroutines into a scheduling point (the goroutine parks at a gate until the explorer lets it
// go on), so that other calls can be ordered between the lock scopes of one call.
package vsync

import (
	"sync"
	"sync/atomic"
)

type (
	WaitGroup = sync.WaitGroup
	Once      = sync.Once
	Map       = sync.Map
	Pool      = sync.Pool
	Cond      = sync.Cond
	Locker    = sync.Locker
)

func NewCond(l Locker) *Cond { return sync.NewCond(l) }

var hook atomic.Pointer[func(kind string)]

// SetHook installs (or, with nil, removes) the function called before every RWMutex acquisition.
func SetHook(f func(kind string)) {
	if f == nil {
		hook.Store(nil)
		return
	}
	hook.Store(&f)
}

// Mutex: as sync.Mutex, with the hook called (kind "Mutex.Lock") before every Lock.
type Mutex struct{ mu sync.Mutex }

func (m *Mutex) Lock() {
	if h := hook.Load(); h != nil {
		(*h)("Mutex.Lock")
	}
	m.mu.Lock()
}
func (m *Mutex) Unlock()       { m.mu.Unlock() }
func (m *Mutex) TryLock() bool { return m.mu.TryLock() }

type RWMutex struct{ mu sync.RWMutex }

func (m *RWMutex) Lock() {
	if h := hook.Load(); h != nil {
		(*h)("Lock")
	}
	m.mu.Lock()
}

func (m *RWMutex) RLock() {
	if h := hook.Load(); h != nil {
		(*h)("RLock")
	}
	m.mu.RLock()
}

func (m *RWMutex) Unlock()         { m.mu.Unlock() }
func (m *RWMutex) RUnlock()        { m.mu.RUnlock() }
func (m *RWMutex) TryLock() bool   { return m.mu.TryLock() }
func (m *RWMutex) TryRLock() bool  { return m.mu.TryRLock() }
func (m *RWMutex) RLocker() Locker { return m.mu.RLocker() }
