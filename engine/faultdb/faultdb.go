//go:build go1.21

// Package faultdb wraps the wallet's db.DB / DBTransaction / Bucket interfaces
// with an event counter, a fault plan and optional scheduling gates.
//
// Events: every bucket write (Put, Delete, Clear, NewBucket, DeleteBucket,
// CreateTopLevelBucket) and every Commit of a write transaction, numbered from
// 1 after Arm(). Fault kinds at event k:
//
//	FailWrite         the write returns an error, nothing is written (Commit events: same as FailCommit)
//	FailCommit        (Commit events) the underlying transaction is discarded, an error is returned
//	CrashBefore       panic(Crash{}) before the event takes effect
//	CrashAfter        the event takes effect, then panic(Crash{})
//
// After a Crash panic the harness calls Abandon() (discards an open underlying
// transaction, as a process death would) and reopens the store.
package faultdb

import (
	"errors"
	"sync"

	"massnet.org/mass/poc/wallet/db"
)

type Kind int

const (
	None Kind = iota
	FailWrite
	FailCommit
	CrashBefore
	CrashAfter
)

func (k Kind) String() string {
	return [...]string{"none", "failWrite", "failCommit", "crashBefore", "crashAfter"}[k]
}

// Crash is the panic value of an injected process death.
type Crash struct{ Event int }

var ErrInjected = errors.New("faultdb: injected storage error")

type Event struct {
	N      int
	Op     string // "Put", "Commit", ...
	Commit bool
}

// Gate, if set, is called before every transaction begin, every event and every read-transaction begin.
type Gate func(point string)

type DB struct {
	Inner db.DB
	mu    sync.Mutex
	armed bool
	n     int
	at    int
	kind  Kind
	log   []Event
	fired bool
	open  db.DBTransaction // underlying open write transaction, if any
	Gate  Gate
}

func Wrap(inner db.DB) *DB { return &DB{Inner: inner} }

// Arm resets the event counter and installs a plan (at<=0: count only).
func (d *DB) Arm(at int, kind Kind) {
	d.mu.Lock()
	d.armed, d.n, d.at, d.kind, d.log, d.fired = true, 0, at, kind, nil, false
	d.mu.Unlock()
}

func (d *DB) Disarm() { d.mu.Lock(); d.armed = false; d.mu.Unlock() }

// Events returns the events seen since Arm.
func (d *DB) Events() []Event { d.mu.Lock(); defer d.mu.Unlock(); return append([]Event{}, d.log...) }
func (d *DB) Fired() bool     { d.mu.Lock(); defer d.mu.Unlock(); return d.fired }

// Abandon discards an open underlying write transaction (process death).
func (d *DB) Abandon() {
	d.mu.Lock()
	tx := d.open
	d.open = nil
	d.mu.Unlock()
	if tx != nil {
		tx.Rollback()
	}
}

// event registers one event and says what to do with it.
func (d *DB) event(op string, commit bool) Kind {
	if d.Gate != nil {
		d.Gate(op)
	}
	d.mu.Lock()
	defer d.mu.Unlock()
	if !d.armed {
		return None
	}
	d.n++
	d.log = append(d.log, Event{d.n, op, commit})
	if d.n == d.at && !d.fired {
		d.fired = true
		k := d.kind
		if commit && k == FailWrite {
			k = FailCommit
		}
		if !commit && k == FailCommit {
			k = FailWrite
		}
		return k
	}
	return None
}

func (d *DB) Close() error { return d.Inner.Close() }

func (d *DB) BeginTx() (db.DBTransaction, error) {
	if d.Gate != nil {
		d.Gate("BeginTx")
	}
	tx, err := d.Inner.BeginTx()
	if err != nil {
		return nil, err
	}
	d.mu.Lock()
	d.open = tx
	d.mu.Unlock()
	return &Tx{d: d, in: tx}, nil
}

func (d *DB) BeginReadTx() (db.ReadTransaction, error) {
	if d.Gate != nil {
		d.Gate("BeginReadTx")
	}
	return d.Inner.BeginReadTx()
}

type Tx struct {
	d  *DB
	in db.DBTransaction
}

func (t *Tx) done() { t.d.mu.Lock(); t.d.open = nil; t.d.mu.Unlock() }

func (t *Tx) Commit() error {
	switch t.d.event("Commit", true) {
	case FailCommit:
		t.in.Rollback()
		t.done()
		return ErrInjected
	case CrashBefore:
		panic(Crash{t.d.n})
	case CrashAfter:
		err := t.in.Commit()
		t.done()
		if err != nil {
			return err
		}
		panic(Crash{t.d.n})
	}
	err := t.in.Commit()
	t.done()
	return err
}

func (t *Tx) Rollback() error { err := t.in.Rollback(); t.done(); return err }

func (t *Tx) wrap(b db.Bucket) db.Bucket {
	if b == nil {
		return nil
	}
	return &Bucket{d: t.d, in: b}
}

func (t *Tx) TopLevelBucket(name string) db.Bucket   { return t.wrap(t.in.TopLevelBucket(name)) }
func (t *Tx) BucketNames() ([]string, error)         { return t.in.BucketNames() }
func (t *Tx) FetchBucket(m db.BucketMeta) db.Bucket  { return t.wrap(t.in.FetchBucket(m)) }
func (t *Tx) DeleteTopLevelBucket(name string) error { return t.in.DeleteTopLevelBucket(name) }

func (t *Tx) CreateTopLevelBucket(name string) (db.Bucket, error) {
	switch t.d.event("CreateTopLevelBucket", false) {
	case FailWrite:
		return nil, ErrInjected
	case CrashBefore:
		panic(Crash{t.d.n})
	case CrashAfter:
		t.in.CreateTopLevelBucket(name)
		panic(Crash{t.d.n})
	}
	b, err := t.in.CreateTopLevelBucket(name)
	return t.wrap(b), err
}

type Bucket struct {
	d  *DB
	in db.Bucket
}

func (b *Bucket) wrap(x db.Bucket) db.Bucket {
	if x == nil {
		return nil
	}
	return &Bucket{d: b.d, in: x}
}

// write runs a write event.
func (b *Bucket) write(op string, f func() error) error {
	switch b.d.event(op, false) {
	case FailWrite:
		return ErrInjected
	case CrashBefore:
		panic(Crash{b.d.n})
	case CrashAfter:
		f()
		panic(Crash{b.d.n})
	}
	return f()
}

func (b *Bucket) NewBucket(name string) (db.Bucket, error) {
	var nb db.Bucket
	err := b.write("NewBucket", func() error { var e error; nb, e = b.in.NewBucket(name); return e })
	if err != nil {
		return nil, err
	}
	return b.wrap(nb), nil
}
func (b *Bucket) Bucket(name string) db.Bucket   { return b.wrap(b.in.Bucket(name)) }
func (b *Bucket) BucketNames() ([]string, error) { return b.in.BucketNames() }
func (b *Bucket) DeleteBucket(name string) error {
	return b.write("DeleteBucket", func() error { return b.in.DeleteBucket(name) })
}
func (b *Bucket) Put(k, v []byte) error {
	return b.write("Put", func() error { return b.in.Put(k, v) })
}
func (b *Bucket) Delete(k []byte) error {
	return b.write("Delete", func() error { return b.in.Delete(k) })
}
func (b *Bucket) Get(k []byte) ([]byte, error)              { return b.in.Get(k) }
func (b *Bucket) Clear() error                              { return b.write("Clear", func() error { return b.in.Clear() }) }
func (b *Bucket) GetByPrefix(p []byte) ([]*db.Entry, error) { return b.in.GetByPrefix(p) }
func (b *Bucket) GetBucketMeta() db.BucketMeta              { return b.in.GetBucketMeta() }
