//go:build go1.21

// Package vtime is a drop-in for the parts of package "time" used by the
// explored packages (import rewritten by the /verif driver), backed by a
// harness-owned virtual clock: Now() only moves when the harness fires the
// next timer. A use of an unmodelled time function is a compile error.
package vtime

import (
	"sort"
	"sync"
	"sync/atomic"
	"time"
)

type (
	Duration = time.Duration
	Time     = time.Time
	Month    = time.Month
)

const (
	Nanosecond  = time.Nanosecond
	Microsecond = time.Microsecond
	Millisecond = time.Millisecond
	Second      = time.Second
	Minute      = time.Minute
	Hour        = time.Hour
)

type timer struct {
	at     time.Time
	seq    int
	ch     chan time.Time
	period time.Duration // >0: ticker
	dead   bool
	name   string
	dur    time.Duration // the duration the timer was armed with (harness filters by it)
	c      *Clock        // the clock the timer was armed on (Reset may have installed another since)
}

type Clock struct {
	mu     sync.Mutex
	now    time.Time
	timers []*timer
	seq    int
	Fired  int64
}

var clkp atomic.Pointer[Clock]

func init() { clkp.Store(&Clock{now: time.Unix(1700000000, 0)}) }

func cur() *Clock { return clkp.Load() }

// Reset installs a fresh virtual clock starting at t (harness only).
func Reset(t time.Time) {
	clkp.Store(&Clock{now: t})
}

func Now() time.Time                  { c := cur(); c.mu.Lock(); defer c.mu.Unlock(); return c.now }
func Since(t time.Time) time.Duration { return Now().Sub(t) }
func Until(t time.Time) time.Duration { return t.Sub(Now()) }
func Unix(sec, nsec int64) time.Time  { return time.Unix(sec, nsec) }

func (c *Clock) add(d time.Duration, period time.Duration, name string) *timer {
	c.mu.Lock()
	defer c.mu.Unlock()
	c.seq++
	t := &timer{at: c.now.Add(d), seq: c.seq, ch: make(chan time.Time, 1), period: period, name: name, c: c, dur: d}
	c.timers = append(c.timers, t)
	return t
}

// Sleep blocks until the harness has advanced the clock past the deadline.
func Sleep(d time.Duration) {
	if d <= 0 {
		return
	}
	t := cur().add(d, 0, "sleep")
	<-t.ch
}

func After(d time.Duration) <-chan time.Time { return cur().add(d, 0, "after").ch }

type Timer struct {
	C <-chan time.Time
	t *timer
}

func NewTimer(d time.Duration) *Timer { t := cur().add(d, 0, "timer"); return &Timer{C: t.ch, t: t} }
func (t *Timer) Stop() bool {
	c := t.t.c
	c.mu.Lock()
	defer c.mu.Unlock()
	was := !t.t.dead
	t.t.dead = true
	return was
}

// Reset re-arms the timer to fire d from the current virtual instant (as package time: true if it was active).
func (t *Timer) Reset(d time.Duration) bool {
	c := t.t.c
	c.mu.Lock()
	defer c.mu.Unlock()
	was := !t.t.dead
	c.seq++
	t.t.at, t.t.seq, t.t.dur, t.t.dead = c.now.Add(d), c.seq, d, false
	found := false
	for _, x := range c.timers {
		found = found || x == t.t
	}
	if !found {
		c.timers = append(c.timers, t.t)
	}
	return was
}

type Ticker struct {
	C <-chan time.Time
	t *timer
}

func NewTicker(d time.Duration) *Ticker {
	t := cur().add(d, d, "ticker")
	return &Ticker{C: t.ch, t: t}
}
func (t *Ticker) Stop() { c := t.t.c; c.mu.Lock(); t.t.dead = true; c.mu.Unlock() }

// Pending lists the live timers in firing order (harness only).
func Pending() []string {
	c := cur()
	c.mu.Lock()
	defer c.mu.Unlock()
	var out []string
	for _, t := range c.live() {
		out = append(out, t.name)
	}
	return out
}

func (c *Clock) live() []*timer {
	var l []*timer
	for _, t := range c.timers {
		if !t.dead {
			l = append(l, t)
		}
	}
	sort.SliceStable(l, func(i, j int) bool {
		if !l[i].at.Equal(l[j].at) {
			return l[i].at.Before(l[j].at)
		}
		return l[i].seq < l[j].seq
	})
	c.timers = l
	return l
}

// FireNext advances the clock to the earliest live timer and fires it (a ticker is
// re-armed one period after the instant it fired at, ticks it missed are dropped; a tick that
// finds its channel full is dropped, as in package time). Returns false when no timer is pending.
func FireNext() bool { return fireOne(nil) }

func match(l []*timer, pred func(time.Duration) bool) []*timer {
	if pred == nil {
		return l
	}
	var out []*timer
	for _, t := range l {
		if pred(t.dur) {
			out = append(out, t)
		}
	}
	return out
}

func fireOne(pred func(time.Duration) bool) bool {
	clk := cur()
	clk.mu.Lock()
	l := match(clk.live(), pred)
	if len(l) == 0 {
		clk.mu.Unlock()
		return false
	}
	t := l[0]
	if t.at.After(clk.now) {
		clk.now = t.at
	}
	now := clk.now
	if t.period > 0 {
		t.at = t.at.Add(t.period)
		if !t.at.After(now) {
			t.at = now.Add(t.period)
		}
	} else {
		t.dead = true
	}
	clk.Fired++
	clk.mu.Unlock()
	select {
	case t.ch <- now:
	default:
	}
	return true
}

// Advance moves the clock forward without firing anything (harness only).
func Advance(d time.Duration) { c := cur(); c.mu.Lock(); c.now = c.now.Add(d); c.mu.Unlock() }

// FireDue advances the clock to the earliest live timer and fires every timer due at that
// instant (so that the result does not depend on the order in which goroutines armed them).
func FireDue() int { return FireDueWhere(nil) }

// PendingWhere counts the live timers whose arming duration satisfies pred.
func PendingWhere(pred func(time.Duration) bool) int {
	c := cur()
	c.mu.Lock()
	defer c.mu.Unlock()
	return len(match(c.live(), pred))
}

// FireDueWhere is FireDue restricted to the timers whose arming duration satisfies pred: the clock
// moves to the earliest of THEM (timers outside the filter that are due earlier simply fire late,
// which real timers may always do).
func FireDueWhere(pred func(time.Duration) bool) int {
	clk := cur()
	clk.mu.Lock()
	l := match(clk.live(), pred)
	if len(l) == 0 {
		clk.mu.Unlock()
		return 0
	}
	at := l[0].at
	if at.Before(clk.now) {
		at = clk.now
	}
	clk.mu.Unlock()
	n := 0
	for {
		clk.mu.Lock()
		l = match(clk.live(), pred)
		if len(l) == 0 || l[0].at.After(at) {
			clk.mu.Unlock()
			return n
		}
		clk.mu.Unlock()
		fireOne(pred)
		n++
	}
}
