//go:build go1.21

// Package vk is the common kit of the /verif harnesses: tier/seed handling,
// evidence emission, VIOLATION / KNOWN-FINDING classification against
// /verif/known_findings.json, replay-file writing, and small helpers for
// process-internal sharding. It is injected into the repository build as the
// virtual package massnet.org/mass/zz_verif/vk through `go test -overlay`.
package vk

import (
	"encoding/json"
	"fmt"
	"os"
	"os/exec"
	"path/filepath"
	"regexp"
	"runtime"
	"runtime/debug"
	"sort"
	"strconv"
	"strings"
	"sync"
	"sync/atomic"
	"syscall"
	"time"
)

// Finding is one record of /verif/known_findings.json.
type Finding struct {
	Property    string `json:"property"`
	Fingerprint string `json:"fingerprint"`
	Status      string `json:"status"` // "open" | "fixed"
	Commit      string `json:"commit,omitempty"`
	What        string `json:"what"`
}

type violation struct {
	Fingerprint string
	What        string
	Replay      string
	Count       int
}

// Run collects what one check execution covered and found.
type Run struct {
	Prop  string
	Level string
	tier  string
	seed  int64
	start time.Time

	mu         sync.Mutex
	findings   []Finding
	viol       map[string]*violation
	order      []string
	samples    []interface{}
	extra      map[string]interface{}
	assume     []string
	evals      int64
	nontrivial int64
	distinct   map[string]struct{}
	exhaustive bool
	capsHit    []string
	deadline   time.Time
	// PanicIsViolation: a shard process killed by a Go panic / fatal error in repository code
	// is a violation of the property ("never panics"), not a harness error.
	PanicIsViolation bool
}

// Start reads the environment set by /verif/check.
func Start(prop, level string) *Run {
	r := &Run{Prop: prop, Level: level, start: time.Now(), viol: map[string]*violation{},
		extra: map[string]interface{}{}, distinct: map[string]struct{}{}, exhaustive: true}
	r.tier = os.Getenv("VERIF_TIER")
	if r.tier != "thorough" {
		r.tier = "quick"
	}
	if s := os.Getenv("VERIF_SEED"); s != "" {
		r.seed, _ = strconv.ParseInt(s, 10, 64)
	}
	if p := os.Getenv("VERIF_KNOWN"); p != "" {
		b, err := os.ReadFile(p)
		if err == nil {
			var all []Finding
			if err := json.Unmarshal(b, &all); err != nil {
				Fatalf("known findings file %s: %v", p, err)
			}
			for _, f := range all {
				if f.Property == prop {
					r.findings = append(r.findings, f)
				}
			}
		}
	}
	if d := os.Getenv("VERIF_DEADLINE_S"); d != "" {
		if n, err := strconv.Atoi(d); err == nil && n > 0 {
			r.deadline = r.start.Add(time.Duration(n) * time.Second)
		}
	}
	// a shard shares its parent's deadline (shards may be queued behind others and start late)
	if at := os.Getenv("VERIF_DEADLINE_AT"); at != "" {
		if n, err := strconv.ParseInt(at, 10, 64); err == nil && n > 0 {
			r.deadline = time.Unix(n, 0)
		}
	}
	// soft memory limit: the checks create and drop real instances at a high rate (some allocate tens of MiB
	// each) under GOGC=400; the limit makes the collector keep up instead of letting the heap grow into the
	// machine's memory. 16 GiB for a top-level process, an equal share of 32 GiB for a shard.
	limit := int64(16) << 30
	if sh := os.Getenv("VERIF_SHARD"); sh != "" {
		if i := strings.Index(sh, "/"); i > 0 {
			if n, err := strconv.Atoi(sh[i+1:]); err == nil && n > 0 {
				if c, err := strconv.Atoi(os.Getenv("VERIF_SHARD_CONC")); err == nil && c > 0 {
					n = c
				}
				limit = (int64(32) << 30) / int64(n)
				if limit < 1<<30 {
					limit = 1 << 30
				}
			}
		}
	}
	if g := os.Getenv("VERIF_MEMLIMIT_GB"); g != "" {
		if n, err := strconv.Atoi(g); err == nil && n > 0 {
			limit = int64(n) << 30
		}
	}
	debug.SetMemoryLimit(limit)
	return r
}

func (r *Run) Quick() bool    { return r.tier == "quick" }
func (r *Run) Thorough() bool { return r.tier == "thorough" }
func (r *Run) Tier() string   { return r.tier }
func (r *Run) Seed() int64    { return r.seed }

// ReplayPath is the file given by `./check Cxx --replay f` ("" otherwise).
func (r *Run) ReplayPath() string { return os.Getenv("VERIF_REPLAY") }

// Pick returns q under the quick tier and t under thorough.
func Pick[T any](r *Run, q, t T) T {
	if r.Quick() {
		return q
	}
	return t
}

// Expired reports whether the internal deadline (a cap, not a verdict) passed.
// A harness that stops because of it must call Cap().
func (r *Run) Expired() bool {
	return !r.deadline.IsZero() && time.Now().After(r.deadline)
}

// Cap records that a bound/time cap was hit: the run is not exhaustive.
func (r *Run) Cap(what string) {
	r.mu.Lock()
	defer r.mu.Unlock()
	r.exhaustive = false
	for _, c := range r.capsHit {
		if c == what {
			return
		}
	}
	r.capsHit = append(r.capsHit, what)
}

// Eval counts n evaluated cases.
func (r *Run) Eval(n int) { atomic.AddInt64(&r.evals, int64(n)) }

// Distinct registers a non-trivial case by a canonical key; the number of
// distinct keys becomes coverage.distinct_nontrivial.
func (r *Run) Distinct(key string) {
	r.mu.Lock()
	r.distinct[key] = struct{}{}
	r.mu.Unlock()
}

// DistinctN adds n cases that the harness itself has established to be
// pairwise distinct and non-trivial (used where keeping keys is too costly).
func (r *Run) DistinctN(n int) { atomic.AddInt64(&r.nontrivial, int64(n)) }

func (r *Run) Sample(s interface{}) {
	r.mu.Lock()
	if len(r.samples) < 8 {
		r.samples = append(r.samples, s)
	}
	r.mu.Unlock()
}

func (r *Run) Set(k string, v interface{}) {
	r.mu.Lock()
	r.extra[k] = v
	r.mu.Unlock()
}

func (r *Run) Add(k string, n int64) {
	r.mu.Lock()
	old, _ := r.extra[k].(int64)
	r.extra[k] = old + n
	r.mu.Unlock()
}

func (r *Run) Assume(a ...string) {
	r.mu.Lock()
	r.assume = append(r.assume, a...)
	r.mu.Unlock()
}

var slugRe = regexp.MustCompile(`[^A-Za-z0-9_.-]+`)

// Violation records a failed oracle. fingerprint = "<Cxx>/<clause>/<site>".
// replay is any JSON-marshalable description sufficient to re-run the case.
// Only the first occurrence per fingerprint writes a replay file.
func (r *Run) Violation(fingerprint, what string, replay interface{}) {
	r.mu.Lock()
	defer r.mu.Unlock()
	if v, ok := r.viol[fingerprint]; ok {
		v.Count++
		return
	}
	v := &violation{Fingerprint: fingerprint, What: what, Count: 1}
	dir := os.Getenv("VERIF_REPLAY_DIR")
	if dir == "" {
		dir = os.TempDir()
	}
	_ = os.MkdirAll(dir, 0o755)
	path := filepath.Join(dir, slugRe.ReplaceAllString(fingerprint, "_")+".json")
	b, err := json.MarshalIndent(map[string]interface{}{
		"property": r.Prop, "fingerprint": fingerprint, "what": what, "case": replay, "part": os.Getenv("VERIF_PART"),
	}, "", " ")
	if err == nil {
		_ = os.WriteFile(path, b, 0o644)
	}
	v.Replay = path
	r.viol[fingerprint] = v
	r.order = append(r.order, fingerprint)
}

// ViolationCount is the number of distinct fingerprints recorded so far.
func (r *Run) ViolationCount() int {
	r.mu.Lock()
	defer r.mu.Unlock()
	return len(r.viol)
}

// HasViolation tells whether the fingerprint was already reported in this run.
func (r *Run) HasViolation(fingerprint string) bool {
	r.mu.Lock()
	defer r.mu.Unlock()
	_, ok := r.viol[fingerprint]
	return ok
}

func (r *Run) open(fp string) *Finding {
	for i := range r.findings {
		f := &r.findings[i]
		if f.Status == "open" && f.Fingerprint == fp {
			return f
		}
	}
	return nil
}

// Finish writes the evidence file, prints the verdict lines and exits:
// 0 = nothing but listed open findings, 1 = at least one VIOLATION.
func (r *Run) Finish(rule string) {
	r.mu.Lock()
	nviol := 0
	var known []string
	var lines []string
	for _, fp := range r.order {
		v := r.viol[fp]
		if f := r.open(fp); f != nil {
			known = append(known, fp)
			lines = append(lines, fmt.Sprintf("KNOWN-FINDING: property=%s %s [%s] (x%d)", r.Prop, f.What, fp, v.Count))
			continue
		}
		nviol++
		lines = append(lines, fmt.Sprintf("VERIF-DETAIL property=%s fingerprint=%s count=%d: %s", r.Prop, fp, v.Count, v.What))
		lines = append(lines, fmt.Sprintf("VIOLATION property=%s replay=%s", r.Prop, v.Replay))
	}
	var missing []string
	for _, f := range r.findings {
		if f.Status != "open" {
			continue
		}
		if _, ok := r.viol[f.Fingerprint]; !ok {
			missing = append(missing, f.Fingerprint)
		}
	}
	cov := map[string]interface{}{}
	for k, v := range r.extra {
		cov[k] = v
	}
	dn := int64(len(r.distinct)) + atomic.LoadInt64(&r.nontrivial)
	cov["evaluations"] = atomic.LoadInt64(&r.evals)
	cov["distinct_nontrivial"] = dn
	cov["rule"] = rule
	if len(r.samples) == 0 {
		r.samples = append(r.samples, "no sample recorded")
	}
	cov["samples"] = r.samples
	cov["exhaustive"] = r.exhaustive
	if len(r.capsHit) > 0 {
		cov["caps_hit"] = r.capsHit
	}
	sort.Strings(known)
	if known == nil {
		known = []string{}
	}
	cov["known_findings_reproduced"] = known
	if len(missing) > 0 {
		cov["open_findings_not_reproduced_in_this_run"] = missing
	}
	if r.assume == nil {
		r.assume = []string{}
	}
	ev := map[string]interface{}{
		"property_id": r.Prop,
		"tier":        r.tier,
		"seed":        r.seed,
		"level":       r.Level,
		"coverage":    cov,
		"assumptions": r.assume,
		"wall_s":      time.Since(r.start).Seconds(),
		"violations":  nviol,
	}
	r.mu.Unlock()
	if out := os.Getenv("VERIF_SHARD_OUT"); out != "" {
		r.writeShard(out, cov)
		os.Exit(0)
	}
	if p := os.Getenv("VERIF_EVIDENCE"); p != "" && os.Getenv("VERIF_REPLAY") == "" {
		b, _ := json.MarshalIndent(ev, "", " ")
		_ = os.MkdirAll(filepath.Dir(p), 0o755)
		if err := os.WriteFile(p, append(b, '\n'), 0o644); err != nil {
			Fatalf("write evidence: %v", err)
		}
	}
	fmt.Printf("VERIF-SUMMARY property=%s tier=%s evaluations=%v distinct_nontrivial=%v exhaustive=%v violations=%d known=%d wall=%.1fs\n",
		r.Prop, r.tier, cov["evaluations"], dn, r.exhaustive, nviol, len(known), time.Since(r.start).Seconds())
	for _, l := range lines {
		fmt.Println(l)
	}
	os.Stdout.Sync()
	if os.Getenv("VERIF_NOEXIT") != "" {
		return // profiling runs only
	}
	if nviol > 0 {
		os.Exit(1)
	}
	os.Exit(0)
}

// Fatalf reports a harness error (never a verdict): exit 2.
func Fatalf(format string, a ...interface{}) {
	fmt.Printf("VERIF-HARNESS-ERROR "+format+"\n", a...)
	os.Stdout.Sync()
	os.Exit(2)
}

// Workers is the number of in-process workers to use.
func Workers() int {
	if s := os.Getenv("VERIF_WORKERS"); s != "" {
		if n, err := strconv.Atoi(s); err == nil && n > 0 {
			return n
		}
	}
	n := runtime.NumCPU()
	if n > 16 {
		n = 16
	}
	return n
}

// ParallelFor runs fn(i) for i in [0,n) on Workers() goroutines. A panic in a
// worker is a harness error unless the harness recovers it itself.
func ParallelFor(n int, fn func(i int)) {
	var next int64 = -1
	var wg sync.WaitGroup
	w := Workers()
	if w > n {
		w = n
	}
	for k := 0; k < w; k++ {
		wg.Add(1)
		go func() {
			defer wg.Done()
			for {
				i := int(atomic.AddInt64(&next, 1))
				if i >= n {
					return
				}
				fn(i)
			}
		}()
	}
	wg.Wait()
}

// Catch runs fn and returns a non-empty description if it panicked.
func Catch(fn func()) (panicked string) {
	defer func() {
		if e := recover(); e != nil {
			buf := make([]byte, 4096)
			buf = buf[:runtime.Stack(buf, false)]
			panicked = fmt.Sprintf("%v\n%s", e, buf)
		}
	}()
	fn()
	return ""
}

// PanicSite extracts the first repository frame ("pkg.Func") from a Catch
// result, for fingerprints.
func PanicSite(p string) string {
	lines := strings.Split(p, "\n")
	for i := 0; i+1 < len(lines); i++ {
		l := strings.TrimSpace(lines[i])
		file := strings.TrimSpace(lines[i+1])
		if !strings.HasPrefix(l, "massnet.org/mass/") || strings.Contains(l, "zz_verif") {
			continue
		}
		if strings.Contains(file, "zz_verif") || strings.Contains(file, "/verif/") {
			continue
		}
		if j := strings.LastIndex(l, "("); j > 0 {
			l = l[:j]
		}
		return strings.TrimPrefix(l, "massnet.org/mass/")
	}
	return "unknown"
}

// LoadReplay reads the "case" member of a replay file into v.
func LoadReplay(path string, v interface{}) {
	b, err := os.ReadFile(path)
	if err != nil {
		Fatalf("replay file: %v", err)
	}
	var w struct {
		Case json.RawMessage `json:"case"`
	}
	if err := json.Unmarshal(b, &w); err != nil {
		Fatalf("replay file: %v", err)
	}
	if err := json.Unmarshal(w.Case, v); err != nil {
		Fatalf("replay case: %v", err)
	}
}

// ---------------------------------------------------------------- process sharding

type shardViolation struct {
	Fingerprint string `json:"fp"`
	What        string `json:"what"`
	Replay      string `json:"replay"`
	Count       int    `json:"count"`
}

type shardResult struct {
	Evals      int64                  `json:"evals"`
	Nontrivial int64                  `json:"nontrivial"`
	Extra      map[string]interface{} `json:"extra"`
	Violations []shardViolation       `json:"violations"`
	Caps       []string               `json:"caps"`
	Samples    []interface{}          `json:"samples"`
}

// Shard tells a harness which slice of its job list it owns: jobs with
// index%n == idx. In the parent process (no VERIF_SHARD) child is false.
func (r *Run) Shard() (idx, n int, child bool) {
	s := os.Getenv("VERIF_SHARD")
	if s == "" {
		return 0, 1, false
	}
	fmt.Sscanf(s, "%d/%d", &idx, &n)
	return idx, n, true
}

func (r *Run) writeShard(out string, cov map[string]interface{}) {
	res := shardResult{Evals: atomic.LoadInt64(&r.evals), Nontrivial: int64(len(r.distinct)) + atomic.LoadInt64(&r.nontrivial),
		Extra: map[string]interface{}{}, Caps: r.capsHit, Samples: r.samples}
	for k, v := range r.extra {
		res.Extra[k] = v
	}
	for _, fp := range r.order {
		v := r.viol[fp]
		res.Violations = append(res.Violations, shardViolation{fp, v.What, v.Replay, v.Count})
	}
	b, _ := json.Marshal(res)
	if err := os.WriteFile(out, b, 0o644); err != nil {
		Fatalf("write shard result: %v", err)
	}
}

// RunShards re-executes the current test binary n times (same arguments,
// GOMAXPROCS=procs each) with VERIF_SHARD=i/n and merges what the children
// found and counted into r. Numeric extras are summed; other extras are taken
// from the first shard that set them. Forced-GC-heavy and goroutine-heavy
// harnesses scale far better across processes than across threads.
func (r *Run) RunShards(n, procs int) {
	dir := os.Getenv("VERIF_SCRATCH")
	if dir == "" {
		dir = os.TempDir()
	}
	type res struct {
		i   int
		err error
		out []byte
	}
	ch := make(chan res, n)
	// n may exceed the number of cores (finer units balance better): at most Workers()/procs shards run at a time
	conc := Workers() / procs
	if conc < 1 {
		conc = 1
	}
	if conc > n {
		conc = n
	}
	sem := make(chan struct{}, conc)
	deadlineEnv := "VERIF_DEADLINE_AT="
	if !r.deadline.IsZero() {
		deadlineEnv = fmt.Sprintf("VERIF_DEADLINE_AT=%d", r.deadline.Unix())
	}
	for i := 0; i < n; i++ {
		go func(i int) {
			sem <- struct{}{}
			defer func() { <-sem }()
			cmd := exec.Command(os.Args[0], os.Args[1:]...)
			cmd.SysProcAttr = &syscall.SysProcAttr{Pdeathsig: syscall.SIGKILL}
			cmd.Env = append(os.Environ(), fmt.Sprintf("VERIF_SHARD=%d/%d", i, n),
				fmt.Sprintf("VERIF_SHARD_OUT=%s/shard-%s-%d.json", dir, r.Prop, i), fmt.Sprintf("GOMAXPROCS=%d", procs),
				fmt.Sprintf("VERIF_WORKERS=%d", procs), fmt.Sprintf("VERIF_SCRATCH=%s/shard%d", dir, i), fmt.Sprintf("VERIF_SHARD_CONC=%d", conc), deadlineEnv)
			os.MkdirAll(fmt.Sprintf("%s/shard%d", dir, i), 0o755)
			out, err := cmd.CombinedOutput()
			ch <- res{i, err, out}
		}(i)
	}
	for k := 0; k < n; k++ {
		x := <-ch
		if x.err != nil && r.PanicIsViolation && (strings.Contains(string(x.out), "\npanic: ") || strings.Contains(string(x.out), "fatal error: ")) {
			out := string(x.out)
			i := strings.Index(out, "\npanic: ")
			if i < 0 {
				i = strings.Index(out, "fatal error: ")
			}
			msg := out[i:]
			site := PanicSite(msg)
			first := strings.SplitN(strings.TrimSpace(msg), "\n", 2)[0]
			if len(msg) > 1500 {
				msg = msg[:1500]
			}
			r.Violation(r.Prop+"/process-killed-by-panic/"+site, "a goroutine of the system under test panicked and killed the process: "+first+"\n"+msg, map[string]string{"shard": fmt.Sprintf("%d/%d", x.i, n), "note": "re-run the check to reproduce; the schedule is in the shard's exploration order"})
			continue
		}
		if x.err != nil {
			tail := string(x.out)
			if len(tail) > 3000 {
				tail = tail[len(tail)-3000:]
			}
			Fatalf("shard %d/%d failed: %v\n%s", x.i, n, x.err, tail)
		}
		b, err := os.ReadFile(fmt.Sprintf("%s/shard-%s-%d.json", dir, r.Prop, x.i))
		if err != nil {
			Fatalf("shard %d wrote no result: %v", x.i, err)
		}
		var sr shardResult
		if err := json.Unmarshal(b, &sr); err != nil {
			Fatalf("shard %d result: %v", x.i, err)
		}
		atomic.AddInt64(&r.evals, sr.Evals)
		atomic.AddInt64(&r.nontrivial, sr.Nontrivial)
		r.mu.Lock()
		for k, v := range sr.Extra {
			if f, ok := v.(float64); ok {
				old, _ := r.extra[k].(float64)
				if oi, ok := r.extra[k].(int64); ok {
					old = float64(oi)
				}
				r.extra[k] = old + f
			} else if l, ok := v.([]interface{}); ok {
				// lists are merged as sorted sets of their string forms
				set := map[string]bool{}
				if ol, ok := r.extra[k].([]string); ok {
					for _, x := range ol {
						set[x] = true
					}
				}
				for _, x := range l {
					set[fmt.Sprint(x)] = true
				}
				var u []string
				for x := range set {
					u = append(u, x)
				}
				sort.Strings(u)
				r.extra[k] = u
			} else if _, ok := r.extra[k]; !ok {
				r.extra[k] = v
			}
		}
		for _, c := range sr.Caps {
			r.exhaustive = false
			dup := false
			for _, o := range r.capsHit {
				dup = dup || o == c
			}
			if !dup {
				r.capsHit = append(r.capsHit, c)
			}
		}
		for _, s := range sr.Samples {
			if len(r.samples) < 8 {
				r.samples = append(r.samples, s)
			}
		}
		for _, v := range sr.Violations {
			if old, ok := r.viol[v.Fingerprint]; ok {
				old.Count += v.Count
				continue
			}
			r.viol[v.Fingerprint] = &violation{Fingerprint: v.Fingerprint, What: v.What, Replay: v.Replay, Count: v.Count}
			r.order = append(r.order, v.Fingerprint)
		}
		r.mu.Unlock()
	}
	sort.Strings(r.order)
}
