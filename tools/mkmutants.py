#!/usr/bin/env python3
"""Regenerates /verif/mutants/<Cxx>/<name>.patch from the edit list in mutants/defs.py.
Each mutant is a deliberate property-breaking change to /repo, expressed as (file, old, new)
text replacements (old must occur exactly once). Patches are applied only through the overlay
(./check Cxx quick --mutant f) or in scratch worktrees, never committed to /repo."""
import difflib, os, sys, importlib.util

V = os.path.dirname(os.path.dirname(os.path.abspath(__file__)))
REPO = "/repo"

import glob


class _D:
    MUTANTS = []


defs = _D()
for _f in sorted(glob.glob(os.path.join(V, "mutants", "defs*.py"))):
    spec = importlib.util.spec_from_file_location("defs_" + os.path.basename(_f)[:-3], _f)
    mod = importlib.util.module_from_spec(spec)
    spec.loader.exec_module(mod)
    defs.MUTANTS += mod.MUTANTS

only = set(sys.argv[1:])
bad = 0
for m in defs.MUTANTS:
    prop, name, edits = m["prop"], m["name"], m["edits"]
    if only and prop not in only:
        continue
    byfile = {}
    for f, old, new in edits:
        src = byfile.get(f)
        if src is None:
            src = open(os.path.join(REPO, f)).read()
            byfile[f] = src
        if src.count(old) != 1:
            print("MUTANT %s/%s: pattern occurs %d times in %s" % (prop, name, src.count(old), f))
            bad += 1
            continue
        byfile[f] = src.replace(old, new)
    out = []
    for f, newsrc in byfile.items():
        orig = open(os.path.join(REPO, f)).read()
        out += list(difflib.unified_diff(orig.splitlines(True), newsrc.splitlines(True), "a/" + f, "b/" + f))
    d = os.path.join(V, "mutants", prop)
    os.makedirs(d, exist_ok=True)
    with open(os.path.join(d, name + ".patch"), "w") as fh:
        fh.write("# %s\n" % m.get("why", "").replace("\n", " "))
        fh.writelines(out)
sys.exit(1 if bad else 0)
