#!/usr/bin/env python3
"""tools/run_seeds.py [id ...]  - runs the quick check of the property of every stored seeded change
(/verif/seeded/<id>/patch.diff, applied through the overlay only: /repo is untouched) and records whether it is
reported, under which fingerprints, in /verif/evidence/seeded.json. Extra checks per seed can be listed in
EXTRA (a change whose clause is decided by another property's check)."""
import json, os, re, subprocess, sys, time

V = os.path.dirname(os.path.dirname(os.path.abspath(__file__)))
EXTRA = {"C03b": ["C12"], "C06": ["C01"], "C11": ["C09"], "C11c": ["C10"]}
# seeded changes that no longer break the property on the current tree (their own demonstration passes with the
# patch applied): the repair named here removed the condition they relied on. The check must be silent for them.
NEUTRALISED = {"C09b": "a3d9db0", "C13": "a3d9db0", "C17b": "4f894f5"}


def main():
    ids = sys.argv[1:] or sorted(os.listdir(os.path.join(V, "seeded")))
    out_path = os.path.join(V, "evidence", "seeded.json")
    res = {}
    if os.path.exists(out_path) and sys.argv[1:]:
        res = json.load(open(out_path))
    for sid in ids:
        d = os.path.join(V, "seeded", sid)
        if not os.path.exists(os.path.join(d, "patch.diff")):
            continue
        prop = sid[:3]
        entry = {}
        for chk in [prop] + EXTRA.get(sid, []):
            t = time.time()
            r = subprocess.run([os.path.join(V, "check"), chk, "quick", "--mutant", os.path.join(d, "patch.diff")],
                               capture_output=True, text=True)
            fps = sorted(set(re.findall(r"^VERIF-DETAIL property=\S+ fingerprint=(\S+)", r.stdout, re.M)))
            entry[chk] = {"exit": r.returncode, "reported": r.returncode == 1, "fingerprints": fps[:6],
                          "wall_s": round(time.time() - t, 1)}
            if sid in NEUTRALISED:
                entry[chk]["neutralised_by_fix"] = NEUTRALISED[sid]
                entry[chk]["expected"] = "silent"
            print("%-5s vs %s: exit=%d %s" % (sid, chk, r.returncode, ",".join(fps[:3])), flush=True)
        res[sid] = entry
        json.dump(res, open(out_path, "w"), indent=1, sort_keys=True)


if __name__ == "__main__":
    main()
