#!/bin/bash
# tools/run_some.sh quick|thorough Cxx [Cxx ...]  - the listed checks in sequence; summary lines as run_all.sh
tier=$1; shift
cd "$(dirname "$0")/.."
for p in "$@"; do
  s=$(date +%s)
  out=$(./check $p $tier 2>&1); rc=$?
  e=$(( $(date +%s) - s ))
  echo "$p rc=$rc ${e}s $(echo "$out" | grep VERIF-SUMMARY | sed 's/VERIF-SUMMARY property=[A-Z0-9]* tier=[a-z]* //' | tr '\n' '|') known_lines=$(echo "$out" | grep -c KNOWN-FINDING) viol_lines=$(echo "$out" | grep -c '^VIOLATION')"
  if [ $rc -ne 0 ]; then echo "$out" | grep -v "^QSCHED" | tail -5; bad=1; fi
done
exit ${bad:-0}
