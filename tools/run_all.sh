#!/bin/bash
# tools/run_all.sh [quick|thorough]  - every claimed check in sequence; summary table
tier=${1:-quick}
cd "$(dirname "$0")/.."
for p in $(python3 -c "import json;print(' '.join(c['property_id'] for c in json.load(open('MANIFEST.json'))['checks']))"); do
  s=$(date +%s)
  out=$(./check $p $tier 2>&1); rc=$?
  e=$(( $(date +%s) - s ))
  echo "$p rc=$rc ${e}s $(echo "$out" | grep VERIF-SUMMARY | sed 's/VERIF-SUMMARY property=[A-Z0-9]* tier=[a-z]* //') known_lines=$(echo "$out" | grep -c KNOWN-FINDING) viol_lines=$(echo "$out" | grep -c '^VIOLATION')"
  if [ $rc -ne 0 ]; then echo "$out" | grep -v "^QSCHED" | tail -5; bad=1; fi
done
exit ${bad:-0}
