#!/usr/bin/env python3
"""Generates /verif/MANIFEST.json from the table below and validates it against the schema.
A property is claimed only if harness/<id>/harness.json exists AND it has an entry in CLAIMS."""
import json, os, sys

V = os.path.dirname(os.path.dirname(os.path.abspath(__file__)))

BASELINE_OFF = ("cd /repo && export GOFLAGS=-mod=mod GOPROXY=off GOSUMDB=off GOTOOLCHAIN=local && "
                "go build ./... && go test -json -vet=off -count=1 -timeout 25m ./...")

# id -> (category, technique, engine, level text, level note, design ref)
CLAIMS = {
    "C01": ("exploration",
            "explicit-state BFS over wallet histories; in every state export + import into 5 target wallets + exhaustive single-field tamper menu",
            "seqx",
            "Every history up to depth 4 (quick) / 5 (thorough); in every state every keystore is exported, re-import while present must be refused without effect, import into empty / occupied x locked / unlocked wallets and under a new passphrase must give the same id, remark, (branch,index)->key maps and counters with every key signing, wrong passphrases are refused with the raw store unchanged, delete+import restores the reference state, and an 85-entry single-field tamper menu is applied to each distinct file content. Open findings: unauthenticated metadata and never-read fields are accepted (listed per field in known_findings.json).",
            "secretbox authenticity and scrypt trusted; tamper menu excludes values that would make import loop for 2^32 derivations or allocate GiB in scrypt (noted in DESIGN)",
            "DESIGN.md §C01"),
    "C03": ("exploration",
            "explicit-state BFS over wallet histories with guarded operations under 5 passphrase classes; in-package secret-field scan in every locked state",
            "seqx",
            "Every history up to depth 5/6 over create/import/delete/export/passphrase changes/lock/unlock/restart called with current, wrong, superseded, public and ill-formed passphrases; success iff the reference says the passphrase is the current private one; in every state all guarded operations are additionally probed with 5 wrong-passphrase classes; while locked no keystore is unlocked, nothing signs and no working secret (master key, crypto key, private scalars, passphrase hash) is in memory; unlocking is all-or-nothing; superseded passphrases stay dead after restart. Every successful change of the private passphrase on a wallet with two or more keystores is repeated (fresh instance, replayed prefix) once per storage event of that operation with the event failing: afterwards exactly one of the two passphrases unlocks, it unlocks and exports every keystore, the other none - in the running instance and after restart.",
            "a non-zero secret field is a violation only if it is a working secret (DESIGN §C03); scrypt N=16",
            "DESIGN.md §C03"),
    "C04": ("exploration",
            "explicit-state BFS over wallet histories on a real directory store with trace logging; exhaustive secret search after every operation",
            "seqx",
            "Every history up to depth 4/5 on a real on-disk leveldb store with trace-level logging; after every operation the raw store files, every key/value pair (raw iterator, so compressed tables are covered), every export and all new log bytes are searched for the seed, every extended/child private key on the used paths, the four key-encryption keys of each keystore and all passphrases in 5-6 encodings; every stored/exported blob is trial-decrypted with the keys derivable from the public passphrase alone and its plaintext searched.",
            "crypto treated as opaque (secretbox/scrypt); OS swap/core dumps and gRPC request logging outside the wallet code are not covered; api.Server.ExportKeystore writes exactly the bytes ExportKeystore returns (by reading)",
            "DESIGN.md §C04"),
    "C07": ("exploration",
            "bounded-exhaustive enumeration of window plans (memory configurations) of the real two-pass plotter at small bit lengths against a brute-force reference table",
            "seqx",
            "The real plotting code is driven through hook H1 (cache size per window) at bit lengths 7, 8, 10 (record sizes 1-2) and 17, 18 (record size 3, with the map-A read buffer scaled through hook VerifMapABuf to small powers of two and unscaled); bl 8: every constant cache size for each pass, every sequence of <=2 (thorough 3) per-window sizes over a 9-value alphabet, all pairs of sizes for both passes; after Plot() returns: map A at removal equals the reference, every stored entry is a valid proof for its prefix, every prefix with a candidate pair has an entry, the table is byte-identical to the single-window table. Thorough adds bl 24 (the only supported bit length that fits the sandbox).",
            "pocutil.P/F are the definition; supported bit lengths 26-40 are not plotted (small-scope argument in DESIGN §P); GetProof/poc.VerifyProof reject bit lengths below 24, so served-proof checks run only at bl 24",
            "DESIGN.md §C07"),
    "C10": ("fault_enumeration",
            "exhaustive enumeration of interruption points x {graceful stop, crash} x synthesised durable (torn) states x resume plans on the real plotter",
            "seqx",
            "For every window plan, a probe run lists the H2 hook points of both passes; the plot is interrupted at every point gracefully (StopPlot, made deterministic inside the hook) and abruptly (plot goroutine abandoned); for crashes every durable state is synthesised from the last all-synced snapshot and the unsynced units (16/64-byte data blocks, atomic 8-byte checkpoint, removal of map A): all subsets when <=10 units, else prefixes/suffixes/singles/all-but-one. Each state is reopened (never falsely plotted/pre-plotted), checked for progress running ahead of durable data, and resumed under 3-5 resume plans to completion inside a livelock horizon; the resumed table must be byte-identical to the uninterrupted one. At every point right before a window flush (A.computed / B.computed) the run is also continued with the file system refusing to grow the plot file - at once, and 5 bytes into the flush (RLIMIT_FSIZE of the single-job shard process) - and the state left behind is judged the same way. Thorough: bl 7/8/10, more plans, second interruption at the first 14 points of the resumed run.",
            "a synced WriteAt is durable; block granularity finer than real sectors (superset of torn states); bit length 8 only in the quick tier",
            "DESIGN.md §C10"),
    "C16": ("exploration",
            "bounded-exhaustive input enumeration on the real codec: full product round trip, all short byte strings, all single-byte mutations, field-class grammar with 1-2 deviations",
            "seqx",
            "Round trip over the full product of the per-field domains of the six message types (58,802 messages; BLS elements from the library itself): decode(encode(m)) equals m field by field and re-encodes byte-identically. Totality: every byte string of length <=3 plus every length-4 (thorough 5) string behind type prefixes 0..7; every single-byte substitution, truncation, deletion and structural insertion of 25 (thorough 607) valid encodings; all single and double field-class deviations of the JSON bodies x 9 type prefixes against an accept/reject predictor; every call under panic capture, accepted messages must re-encode/re-decode stably; per-call allocation bound (512 MiB = 256x the receive limit, measured); receive limit checked at connection.Conn over net.Pipe.",
            "string fields are drawn from valid UTF-8 (JSON cannot carry other byte sequences; space ids produced by the code are ASCII); fractal.MessageReceiver and C-heap allocations of the BLS parser are outside; observed worst allocation 229 MB for a 2 MiB array of tiny elements (diagnostic)",
            "DESIGN.md §C16"),
    "C20": ("exploration",
            "bounded-exhaustive input enumeration on the real api package against independent references (net/netip decision, big.Int decimal rendering, mass-core binding targets)",
            "seqx",
            "(1) 167 whitelist/LAN configurations x 3,790 RemoteAddr strings (IPv4, IPv6, mapped, bracket, zone, port variants, malformed) through getIPAccessControlFunc and accessControlHandler (403 and inner handler not run wherever the reference does not justify admission) plus a /16-granular sweep of the IPv4 space under all 16 LAN subsets; Run() and Server.Start() exercised once on real loopback sockets. (2) AmountToString/StringToAmount on every integer in [0, 2e7 -> 2e8], the top of the range, 31,789 structured values and a stride across [0, max] against integer division rendered canonically plus round trip; all short strings over a small alphabet for the parser. (3) 64 -> 1,024 keys and plot ids x all supported sizes listed through the real GetCapacitySpaces(.V2) methods against massutil binding targets / P2PKH addresses, decoded back with an independent base58check codec.",
            "host names in RemoteAddr out of scope (resolver); amount range dense only at both ends; SHA-256/RIPEMD-160/secp256k1 shared with the reference",
            "DESIGN.md §C20"),
    "C08": ("model_checking",
            "stateless enumeration of input scenarios x deviation-bounded schedules (timer firings, tip arrivals, Stop) of the real miner on a virtual clock, against a reference computed from the inputs",
            "qsched",
            "The real PoCMiner (NewSyncMiner) with its \"time\" import rewritten to a harness-owned virtual clock runs against a fake chain, sync manager and space keeper. Inputs: proof sets of 1-2 spaces (valid real bl-24 proofs for one challenge, unbound, errored, invalid), constant targets at every threshold between the reference qualities of the first six slots and step targets, 4-6 template times relative to now, accepted/rejected/orphaned submissions (~5k scenarios). Schedules: all timer firings with at most 1 (thorough: 2 on a subset) injected events (better tip, worse tip, Stop) at 12 positions of a 28-action horizon. Every block handed to ProcessBlock is checked: eligible verified bound proof, quality above target at its timestamp, earliest winning slot and best quality there, header key and signature, not before its timestamp, within look-ahead at decision time, no height accepted twice, no block when a better tip/Stop preceded the decision, Stop returns, winner submitted on undisturbed schedules.",
            "at most two distinct valid proofs (a third key sharing a 24-bit challenge prefix is out of reach); heights below the MASSIP0002 plot filter; abandonment is required only for events delivered before the decision",
            "DESIGN.md §C08"),
    "C09": ("model_checking",
            "explicit-state search over the real SpaceKeeper under a quiescence-based controlled scheduler (plotter gates H3, fake plot database); all action orders with canonical-state pruning",
            "qsched",
            "Real capacity.SpaceKeeper with 1-2 (thorough 3) workspaces in registered/ready initial states and a fake plot database; actions = plot/mine/stop/remove/delete per workspace and bulk forms (operation budget 2-3 quick / 3-4 thorough; one scenario of repeated plot/mine/stop requests for a single space with budget 4/5), release of each of the six plotter gates, plot completion/abort; every order explored (BFS, canonical state incl. queue, popped item, channel content, gates, pending calls, sticky-stop monitor). In every quiescent state: exactly-one-state and index consistency, at most one plotting, the 16 flag filters agree across WorkSpaceIDs/WorkSpaceInfos/states, GetProofs(mining) offers exactly the used mining spaces; every state change is a documented edge for the action taken; refused remove/delete change nothing; a stopped space does not enter plotting/mining (nor complete its plot) until asked again. Fixed finding (a3d9db0): a stop did not cancel outstanding plot/mine requests (6 fingerprints, both keepers).",
            "API bodies are atomic under stateLock and the plotter's steps 1/3 hold it, so gate granularity covers every order observable through states; unsynchronised accesses between gates are not enumerated. Part skchia: the engine-v2 keeper over a fake MassDB, configured through the real ConfigureByFlags; the production-reachable family (all spaces Ready; 2-3 spaces; cfg none/plot/mine) is searched to a fixed point of the canonical state and decides; histories from Registered spaces (not constructible in skchia) are explored as diagnostics only",
            "DESIGN.md §C09"),
    "C13": ("model_checking",
            "explicit-state search over the real SpaceKeeper under the quiescence scheduler with small request-channel capacities; deadlock = pending call after drain, decided from goroutine wait reasons",
            "qsched",
            "As C09 with a request channel of capacity 0 and 1 (thorough 2 and 3 workspaces), up to 2 calls in flight, keeper.Stop() at any moment as an action; every terminal execution is drained (Stop issued, gates released, running plot completed): any call or Stop that has not returned is a deadlock; panics in calls or in the plotter (process death) are violations. Scenarios lockgates-*: the keeper's sync import is replaced by a shim whose RWMutex acquisitions are scheduling points, so other calls and plotter steps are ordered between the lock scopes of one call (bulk forms included; budget 2 quick / 3 thorough). Thorough adds a scripted history at the production channel capacity (1 025 requests). Fixed findings: PlotWS/MineWS sent on the full request channel while holding the state lock (deadlock, 2 fingerprints); plotter popped from a queue emptied by a concurrent stop (panic); plot queue modified without its lock.",
            "part skchia: as for C09 (requests, queries, keeper Stop/Start, 2 in flight; drained from every reached state); capacity 0-2 stands for 1024 in the exhaustive part; Go's random select between quit and a ready request is handled by replay retries; unsynchronised accesses that are not lock acquisitions or plotter gates are not scheduling points",
            "DESIGN.md §C13"),
    "C15": ("exploration",
            "bounded-exhaustive enumeration of existing-space multisets x configuration requests on the real keeper over real (header-only) plot files",
            "seqx",
            "Real SpaceKeeper (NewSpaceKeeperV1) over real massdb.v1 header-only files with a deterministic fake wallet: every multiset of <=2 existing spaces over bl{24,26,28,30} x 2 directories x {used,removed} (thorough: sizes 3-4 too) x every request of the alphabet (BySize over all a*S24+b*S26+c*S28 sums +-1 byte and boundary values; ByPath with 1-2 directories; ByBitLength count maps; ByFlags), plus all pairs of a 43-request alphabet; each case ends with a second keeper on the same directories. Oracle: size bounds, reuse-before-create, new files only in requested directories, exact counts, rejected requests leave the listing unchanged, selection found again after restart.",
            "requests that the RPC layer's pre-checks refuse before calling the keeper, the private auto-create switch, and a per-directory entry below the minimum next to a valid one are diagnostics, not violations (see DESIGN §C15); free-disk figures from the real statfs: only far-below / far-beyond requests are judged",
            "DESIGN.md §C15"),
    "C14": ("model_checking",
            "stateless enumeration of all schedules of 2-4 goroutines at transaction-boundary granularity under the quiescence scheduler + brute-force linearizability check per schedule; separate -race pass with delay-bounded schedule enumeration",
            "qsched",
            "17 (thorough 20) scenarios of 2-4 goroutines x 1-2 operations colliding on the same keystores (key issuance, address generation, signing, lookups, listing, remark, export, lock/unlock/IsLocked, create/delete): every complete schedule with scheduling points at operation starts and at BeginTx/Commit/BeginReadTx of the wallet store is executed on the real wallet; each call/return history is checked for linearizability against the sequential reference by exhaustive search over the orders consistent with real time; the running and the reopened wallet must equal the witness's final state; returned keys pairwise distinct (C06 concurrent part); panics and calls that never return are violations. Plus all unordered pairs over 13 operations on a locked and on an unlocked wallet. Race pass (oracle for data races only): each scenario body runs under the race detector once undisturbed (counting the lock acquisitions of each thread through the sync shim), then once per (thread, k-th lock acquisition, delay of 2 or 12 ms) with that one delay injected, and once per (thread, head start of 0.1/1/5 ms); a report with a frame in the wallet package is a violation. Between the injected decisions the threads run free.",
            "finer interleavings than transaction boundaries are unobservable for methods holding the manager mutex; the race pass is delay-bounded (one injected delay per run), not exhaustive over interleavings, and the detector reports what it observes in those runs",
            "DESIGN.md §C14"),
    "C11": ("exploration",
            "bounded-exhaustive enumeration of plot-directory contents at start-up and of action histories with full directory listings, on the real keeper over real massdb.v1 files",
            "seqx",
            "(a) Start-up: every conflict-free combination of <=3 (quick) / <=4 (thorough) of 31 directory-content entries (valid registered/ready, renamed ordinal/key/bit length, foreign key, 7 wrong-header variants, truncations, legacy names, case variants, unrelated files) x 2 directories under 3 proof_dir orders: exact index set, once each, first directory wins, ready iff recorded progress complete, proofs only from valid files (real proof records embedded), no file deleted/truncated/modified except the content-preserving legacy rename. (b) Histories: every sequence of 3/4 actions of {plot,mine,stop,remove,delete} x {space,bulk} + gate release over 5 configurations with the plotter parked at gates (plotting really held), listing (names, sizes, hashes) compared after every action: remove/delete refused while plotting/mining and change nothing, delete removes exactly that space's files, nothing else removes anything. (c) (plot database level): the real massdb.v1 plotter is stopped gracefully at every hook point of both passes and run into a full disk at every window flush, for every window plan; whenever the table left behind is incomplete both plot files must still exist and map A must not have shrunk.",
            "massdb Plot() is stubbed in (b) (no real plotting; part (c) plot-files runs the real plotter); case-variant names, a B file without its A and leading-zero ordinals are diagnostics; two directories, bit lengths 24/26",
            "DESIGN.md §C11"),
    "C12": ("fault_enumeration",
            "exhaustive fault injection: every storage event of every (reached state, mutating operation) pair x {failed write/commit, crash before, crash after} on the real wallet over a fault-injecting db.DB wrapper",
            "seqx",
            "BFS over wallet histories to depth 4 (quick) / 5 (thorough); for every reached (state, mutating operation) a dry run through the faultdb wrapper counts the operation's storage events (bucket writes and commits) and the operation is re-executed from a fresh replay once per event and fault kind. Crash: open transaction abandoned, store reopened, wallet must open and equal the reference before the operation (after it only for a crash after the commit). Reported error: running instance and reopened wallet equal the prior state and remain usable. Swallowed fault + success reported: complete effect now and after restart. Covers create, address generation, plot-key issuance, remark, private/public passphrase change, delete, import and the open path.",
            "goleveldb's transaction commit is taken as atomic and durable (its file-level crash safety is not re-verified); a crash at a write inside an uncommitted transaction is modelled by discarding the transaction",
            "DESIGN.md §C12"),
    "C02": ("exploration",
            "explicit-state BFS over wallet operation histories on the real manager+store against a reference model, restart check in every state",
            "seqx",
            "Every history up to depth 5 (quick) / 6 (thorough) over create, address generation on both branches, plot-key issuance, remark change, private/public passphrase change, delete, export/import, lock/unlock and restart with right/wrong public passphrase, on 2 seeds, is executed on the real KeystoreManagerForPoC over the real ldb driver; in every reached state the store is closed and reopened: refused opens leave the raw key/value dump unchanged, the reopened wallet equals the running one and the reference (keystores, remarks, (branch,index,pubkey) sets, next indices, ordinals), passphrase behaviour (wrong/superseded/public/ill-formed refuse, current unlocks and signs) and next addresses agree.",
            "MemStorage-backed goleveldb; scrypt N=16; small alphabets of seeds/passphrases/remarks; hidden-state fingerprint variants depend on Go map order so state counts vary by a few between runs",
            "DESIGN.md §C02"),
    "C05": ("exploration",
            "explicit-state BFS over wallet histories; every issued key signs and is verified in every state",
            "seqx",
            "Every history up to depth 6/7; in every state each key ever issued (both branches, issued locked or unlocked, before/after restart, import, passphrase changes) is asked to sign 2 digests and 2 messages: unlocked => verifies under exactly that key and digest and not under another key/digest; locked, unowned (foreign, deleted keystore), nil key and bad digest lengths => refused.",
            "pocec signature verification trusted; small digests/messages set",
            "DESIGN.md §C05"),
    "C06": ("exploration",
            "explicit-state BFS over wallet histories with 1-3 keystores; map-order choice of GenerateNewPublicKey enumerated by the harness",
            "seqx",
            "Sequential part: every history up to depth 6/7 mixing GenerateNewPublicKey (each possible keystore pick explored as its own operation) with NextAddresses, lock changes, export/delete/import and restart; ordinals are the owning keystore's next external index (consecutive, no gaps/reuse within a keystore lifetime), keys never re-appear at another position, GetPublicKeyOrdinal is stable now and after restart, issuance continues correctly after restart. The concurrent part (two goroutines issuing keys) is decided by the C14 check.",
            "'never returned before' is evaluated per keystore lifetime: deleting a keystore and importing an older export legitimately rolls its counter back",
            "DESIGN.md §C06"),
    "C17": ("model_checking",
            "explicit-state search over the real LocalSuperior/LocalCollector/CollectorPool/RemoteCollector/PersistentRemoteSuperior/connection code under the quiescence scheduler on a virtual clock",
            "qsched",
            "Four closed systems, all over scripted keepers with the real channel capacities: T1 = LocalSuperior with 2 LocalCollectors (+1 connecting late); T3 = LocalSuperior with 1 LocalCollector and one relay wired as production wires it (CollectorPool.addCollectorWithConn on a connection.Conn over net.Pipe, far end = PersistentRemoteSuperior whose first dial yields the other pipe end, with its own LocalCollector); T3stalled = T3 with a parent block 40 slots old, so that the first tick produces a 40-report burst that fills every queue on the link; T3r = T3 in which the far side's re-dial after a dropped link succeeds (action redial = virtual time passes until its retry timer fires; the dial yields a fresh pipe whose near end is handed to the pool as an accepted connection; with the pool stopped the dial is refused), so reconnection, re-subscription and the replay of the current task to the reconnected relay are explored. Actions: add a broadcast qualities task (<=2), add a targeted proof task, remove a task, a waiter reads one report (<=3 explicit reads), connect a collector, stop a collector (for the relay: stop the far collector, stop the far superior, stop the pool, drop the link), fire the virtual timers due. Operation budget / timer instants: T1 4/3 quick, 5/4 thorough; T3 3/2, 4/3; T3stalled 3/1, 3/2; T3r 3/1, 4/2. Every order explored with canonical-state pruning (state = task/channel/registry state + queue lengths on the link + where every goroutine of the system is blocked). In every state the reports read so far belong to their task, carry the producing collector's id and content, are in slot order per collector and - while that collector is up - form a gap-free prefix of its report sequence; at terminal states every live waiter drains its channel and then no call may be pending (RemoveTask, stops, and a probe of the pool: Count()), each task reached the keeper of every collector connected while it was current exactly once, a targeted task only its target and its proof report arrived exactly once, nothing panicked. Fixed findings: report delivery blocked under the task lock on a full result channel (RemoveTask/AddTask/other tasks wedged); stopping a connection with a full receive queue never returned and wedged the pool.",
            "the TCP listener/dialer and connection keep-alive timers are not driven (keep-alive is switched off on the pipe; what a dial yields is decided by the harness through an overlay-only dial option); after a reconnection, order and completeness of the restarted report sequence are not judged (the collector restarts the task and a straggler of the cancelled run may land among its reports); goroutines woken by the same virtual instant, and a cancelled stage choosing between its context and the next message, race in real time (replay retried, else capped)",
            "DESIGN.md §C17"),
    "C18": ("exploration",
            "bounded-exhaustive enumeration of (seed, path) inputs on the real code against an independent BIP32/BIP39 reference",
            "seqx",
            "Every path of depth<=3 over six boundary indices below several hundred seeds (selected by enumerating seed counters with the reference so that short, leading-zero parent scalars are present), plus structured entropy families for all five mnemonic sizes, is derived by the implementation and by an independent reference and compared as serialized strings. Exhaustive inside those bounds; says nothing about seeds/paths outside them.",
            "trusts HMAC-SHA512/SHA-256/RIPEMD-160 and pocec's secp256k1 group operations (shared with the reference); seeds are counters, not arbitrary",
            "DESIGN.md §C18"),
    "C19": ("model_checking",
            "explicit-state BFS over operation histories on the real ldb driver against a nested-map reference model (replay per transition)",
            "seqx",
            "All histories up to the scenario depth (5-7 operations; 3 from a populated committed tree) over Begin/Commit/Rollback/Reopen/CreateTop/NewBucket/DeleteBucket/Put/Delete/Clear with core alphabets chosen to collide (names that are prefixes of one another, names imitating the internal index/depth prefixes, keys spelling child paths), plus every operation of a larger adversarial name/key alphabet as a one-step probe from every reached state. After every transition the API view (inside the transaction and from a read transaction), the raw physical keys parsed back by an independent inverse of the flat layout, and adversarial read probes are compared with the reference. The implementation is the model: every trace runs on the real driver.",
            "goleveldb transactions and MemStorage trusted; single writer; stale bucket handles not explored; real-directory store only in the thorough tier",
            "DESIGN.md §C19"),
}

NOT_YET = "harness not built yet in this round (see DESIGN.md §6 build order); not claimed until its check is silent on the tree and kills its mutants"


def main():
    props = [json.loads(l) for l in open(os.path.join(V, "properties.jsonl"))]
    checks, na = [], []
    for p in props:
        pid = p["id"]
        if pid in CLAIMS and os.path.exists(os.path.join(V, "harness", pid, "harness.json")):
            cat, tech, eng, text, note, ref = CLAIMS[pid]
            checks.append({
                "property_id": pid,
                "quick_cmd": "./check %s quick" % pid,
                "thorough_cmd": "./check %s thorough" % pid,
                "evidence_file": "/verif/evidence/%s.json" % pid,
                "replay_cmd_template": "./check %s --replay {path}" % pid,
                "engine": eng,
                "level_claimed": {"category": cat, "text": text, "design_ref": ref},
                "level_note": note,
                "technique": tech,
            })
        else:
            na.append({"property_id": pid, "reason": NA_REASONS.get(pid, NOT_YET)})
    hooks_commits = []
    hp = os.path.join(V, "hooks_commits.txt")
    if os.path.exists(hp):
        hooks_commits = [l.split()[0] for l in open(hp) if l.strip()]
    m = {
        "version": 1,
        "setup_cmd": "./check --build-all",
        "hooks": {
            "guard": "verif",
            "enable": "go test -c -tags verif -vet=off -overlay <generated at check time: harness files into the package under test, engine as virtual packages massnet.org/mass/zz_verif/*, time->vtime import rewrite for the miner/fractal packages, sync->vsync import rewrite for the capacity keeper, one overlay-only dial option in fractal/connection> run from /repo's working tree (see ./check)",
            "baseline_off_cmd": BASELINE_OFF,
            "source_commits": hooks_commits,
            "add_only": True,
        },
        "engines": [
            {"name": "vk", "path": "engine/vk", "serves_properties": [c["property_id"] for c in checks],
             "kind_free_text": "evidence / known-finding classification / replay files / in-process sharding"},
            {"name": "seqx", "path": "engine/seqx", "serves_properties": [c["property_id"] for c in checks if c["engine"] == "seqx"],
             "kind_free_text": "bounded-exhaustive sequence/input explorer over the real code against a Go reference model (explicit-state BFS with canonical-state pruning; successor = replay on a fresh instance)"},
            {"name": "qsched", "path": "engine/qsched", "serves_properties": [c["property_id"] for c in checks if c["engine"] == "qsched"],
             "kind_free_text": "controlled scheduler over real goroutines: gates at hook/seam points, quiescence detection from runtime.Stack wait reasons, DFS over action choices with deviation bound and state pruning"},
        ],
        "checks": checks,
        "not_applicable": na,
        "notes": "All checks explore the implementation itself (no separate model); known_findings.json lists open findings and fixed: records. Mutants under mutants/ are applied through the overlay only (./check Cxx quick --mutant f).",
    }
    out = os.path.join(V, "MANIFEST.json")
    json.dump(m, open(out, "w"), indent=1)
    open(out, "a").write("\n")
    try:
        import jsonschema
        jsonschema.validate(m, json.load(open("/root/.vp/MANIFEST.schema.json")))
        print("MANIFEST valid: %d claimed, %d not_applicable" % (len(checks), len(na)))
    except ImportError:
        print("jsonschema not importable; MANIFEST written unvalidated")


NA_REASONS = {}

if __name__ == "__main__":
    main()
