#!/usr/bin/env python3
"""Mutant protocol (DESIGN §4.1):  tools/run_mutants.py [Cxx ...] [--no-repo-tests] [--only name]

For every mutants/<Cxx>/*.patch:
  1. apply it in a scratch git worktree of /repo and run the repository's own tests of the
     packages it touches (a mutant the repository's tests catch is marked 'caught-by-repo-tests'
     and does not count);
  2. run `./check Cxx quick --mutant patch` (overlay only, /repo untouched) and require exit 1.
Results are merged into /verif/evidence/mutants.json."""
import json, os, re, subprocess, sys, time, shutil, tempfile

V = os.path.dirname(os.path.dirname(os.path.abspath(__file__)))
REPO = "/repo"
ENV = dict(os.environ, GOFLAGS="-mod=mod", GOPROXY="off", GOSUMDB="off", GOTOOLCHAIN="local")


def main():
    args = [a for a in sys.argv[1:] if not a.startswith("--")]
    repo_tests = "--no-repo-tests" not in sys.argv
    only = None
    if "--only" in sys.argv:
        only = sys.argv[sys.argv.index("--only") + 1]
        args = [a for a in args if a != only]
    subprocess.run([sys.executable, os.path.join(V, "tools", "mkmutants.py")] + args, check=True)
    props = args or sorted(os.listdir(os.path.join(V, "mutants")))
    outp = os.path.join(V, "evidence", "mutants.json")
    res = json.load(open(outp)) if os.path.exists(outp) else {}
    wt = None
    if repo_tests:
        wt = tempfile.mkdtemp(prefix="verif-mutwt-")
        os.rmdir(wt)
        subprocess.run(["git", "-C", REPO, "worktree", "add", "-q", "--detach", wt, "HEAD"], check=True)
    try:
        for prop in props:
            d = os.path.join(V, "mutants", prop)
            if not os.path.isdir(d):
                continue
            for f in sorted(os.listdir(d)):
                if not f.endswith(".patch"):
                    continue
                if only and only not in f:
                    continue
                patch = os.path.join(d, f)
                key = prop + "/" + f[:-6]
                rec = {"patch": os.path.relpath(patch, V)}
                if repo_tests:
                    txt = open(patch).read()
                    files = sorted(set(re.findall(r"^\+\+\+ b/(\S+)", txt, re.M)))
                    pkgs = sorted(set("./" + os.path.dirname(x) for x in files))
                    a = subprocess.run(["patch", "-p1", "-s", "-d", wt, "-i", patch], capture_output=True, text=True)
                    if a.returncode != 0:
                        rec["repo_tests"] = "patch-failed"
                    else:
                        t = subprocess.run(["go", "test", "-vet=off", "-count=1"] + pkgs, cwd=wt, env=ENV,
                                           capture_output=True, text=True)
                        rec["repo_tests"] = "pass" if t.returncode == 0 else "caught-by-repo-tests"
                        rec["repo_test_pkgs"] = pkgs
                    subprocess.run(["git", "-C", wt, "checkout", "-q", "--", "."], check=True)
                t0 = time.time()
                c = subprocess.run([os.path.join(V, "check"), prop, "quick", "--mutant", patch], cwd=V,
                                   capture_output=True, text=True)
                rec["check_exit"] = c.returncode
                rec["check_wall_s"] = round(time.time() - t0, 1)
                rec["fingerprints"] = re.findall(r"fingerprint=(\S+)", c.stdout)[:6]
                rec["killed"] = c.returncode == 1 and "VIOLATION property=%s" % prop in c.stdout
                if c.returncode not in (0, 1):
                    rec["tail"] = c.stdout[-600:]
                res[key] = rec
                print("%-45s repo_tests=%-22s check_exit=%d killed=%s %s" % (
                    key, rec.get("repo_tests", "-"), c.returncode, rec["killed"], ",".join(rec["fingerprints"][:2])), flush=True)
                json.dump(res, open(outp, "w"), indent=1, sort_keys=True)
    finally:
        if wt:
            subprocess.run(["git", "-C", REPO, "worktree", "remove", "--force", wt])
            shutil.rmtree(wt, ignore_errors=True)
            subprocess.run(["git", "-C", REPO, "worktree", "prune"])


if __name__ == "__main__":
    main()
