#!/usr/bin/env python3
"""tools/verify_seed.py <seed-out dir> [...]  - independent confirmation of a seeded change, in a scratch
worktree of /repo (removed afterwards): the patch applies and builds, the repository's whole test suite still
passes with it, the demonstration fails with the patch and passes without it. On success the change is
stored as /verif/seeded/<id>/ (patch.diff, demo/, meta.json with what was run)."""
import json, os, shutil, subprocess, sys, tempfile

V = os.path.dirname(os.path.dirname(os.path.abspath(__file__)))
ENV = dict(os.environ, GOFLAGS="-mod=mod", GOPROXY="off", GOSUMDB="off", GOTOOLCHAIN="local")


def sh(cmd, cwd, timeout=3000):
    r = subprocess.run(cmd, cwd=cwd, env=ENV, shell=True, capture_output=True, text=True, timeout=timeout)
    out = "\n".join(l for l in (r.stdout + r.stderr).splitlines() if not l.startswith("time=") and "ld:" not in l)
    return r.returncode, out


def main():
    for d in sys.argv[1:]:
        d = d.rstrip("/")
        sid = os.path.basename(d)
        meta = json.load(open(os.path.join(d, "meta.json")))
        wt = tempfile.mkdtemp(prefix="verif-seedwt-")
        os.rmdir(wt)
        subprocess.run(["git", "-C", "/repo", "worktree", "add", "-q", "--detach", wt, "HEAD"], check=True)
        ran = []
        ok = True
        try:
            rc, out = sh("patch -p1 -s -F 3 -i %s/patch.diff" % d, wt)
            ran.append({"cmd": "patch -p1 -F3 < patch.diff", "rc": rc})
            if rc != 0:
                print(sid, "PATCH DOES NOT APPLY", out[-300:]); ok = False; continue
            rc, out = sh("go build ./... && go build -tags verif ./poc/... ./fractal/... ./api/...", wt)
            ran.append({"cmd": "go build ./... (and -tags verif)", "rc": rc})
            if rc != 0:
                print(sid, "BUILD FAILS", out[-400:]); ok = False; continue
            rc, out = sh("go test -vet=off -count=1 ./...", wt)
            fails = [l for l in out.splitlines() if l.startswith("FAIL") or l.startswith("--- FAIL")]
            ran.append({"cmd": "go test -vet=off -count=1 ./...  (with the patch)", "rc": rc, "fail_lines": fails[:5]})
            if rc != 0:
                print(sid, "EXISTING TESTS FAIL WITH THE PATCH", fails[:5]); ok = False; continue
            # demonstration
            demo_path = meta.get("demo_path_in_repo") or meta.get("demo_path")
            demo_files = []
            for root, _, files in os.walk(os.path.join(d, "demo")):
                for f in files:
                    demo_files.append(os.path.join(root, f))
            if isinstance(demo_path, list):
                demo_path = demo_path[0]
            droot = os.path.join(d, "demo")
            mirrored = demo_files and all(os.path.relpath(f, droot).split(os.sep)[0] in ("poc", "fractal", "api", "config", "cmd") for f in demo_files)
            for f in demo_files:
                if mirrored:
                    dst = os.path.join(wt, os.path.relpath(f, droot))  # demo/ mirrors the repository layout
                elif len(demo_files) == 1 and demo_path and demo_path.endswith(".go"):
                    dst = os.path.join(wt, demo_path)
                else:
                    base = os.path.dirname(demo_path) if demo_path and demo_path.endswith(".go") else (demo_path or "")
                    dst = os.path.join(wt, base, os.path.relpath(f, os.path.join(d, "demo")))
                os.makedirs(os.path.dirname(dst), exist_ok=True)
                shutil.copy(f, dst)
            cmd = meta.get("demo_cmd", "")
            if isinstance(cmd, list):
                cmd = " && ".join(cmd)
            cmd = cmd.split("   (")[0].replace("/tmp/seed-%s" % sid, wt)
            if "cd " not in cmd:
                cmd = cmd
            rc1, out1 = sh(cmd, wt)
            ran.append({"cmd": cmd + "   (with the patch)", "rc": rc1, "tail": out1[-400:]})
            sh("patch -p1 -s -R -F 3 -i %s/patch.diff" % d, wt)
            rc2, out2 = sh(cmd, wt)
            ran.append({"cmd": cmd + "   (without the patch)", "rc": rc2, "tail": out2[-300:]})
            if rc1 == 0 or rc2 != 0:
                print(sid, "DEMONSTRATION NOT CONFIRMED: with patch rc=%d, without rc=%d" % (rc1, rc2)); print(out1[-500:]); print(out2[-500:]); ok = False; continue
            dst = os.path.join(V, "seeded", sid)
            shutil.rmtree(dst, ignore_errors=True)
            os.makedirs(dst)
            shutil.copy(os.path.join(d, "patch.diff"), dst)
            shutil.copytree(os.path.join(d, "demo"), os.path.join(dst, "demo"))
            meta["confirmed_by_framework_author"] = ran
            json.dump(meta, open(os.path.join(dst, "meta.json"), "w"), indent=1)
            print(sid, "CONFIRMED (suite passes with patch; demo fails with / passes without)")
        finally:
            subprocess.run(["git", "-C", "/repo", "worktree", "remove", "--force", wt])
            subprocess.run(["git", "-C", "/repo", "worktree", "prune"])
            shutil.rmtree(wt, ignore_errors=True)


if __name__ == "__main__":
    main()
