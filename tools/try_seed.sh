#!/bin/bash
# tools/try_seed.sh <seed dir> <Cxx> [more Cxx...]  - runs the quick checks against a seeded change (overlay only; /repo untouched)
d=$1; shift
for p in "$@"; do
  out=$("$(dirname "$0")/../check" $p quick --mutant $d/patch.diff 2>&1 | grep -v "^QSCHED")
  rc=$?
  echo "== seed $(basename $d) vs $p: $(echo "$out" | grep -c '^VIOLATION') violation line(s)"
  echo "$out" | grep "VERIF-SUMMARY\|VERIF-DETAIL\|HARNESS-ERROR\|BUILD-FAILED" | cut -c1-330 | head -6
done
